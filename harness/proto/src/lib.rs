//! Wire protocol between the explorer (decides verdicts, never links yarel) and the runner (the only
//! place the real crate executes).  One JSON object per line in both directions.
use serde::{Deserialize, Serialize};
use std::collections::BTreeMap;

pub const RESET_SNIPPET: &str = "\u{0}reset";

#[derive(Serialize, Deserialize, Clone, Debug, Default, PartialEq)]
pub struct GcSpec {
    /// "default" | "never" | "only"
    pub mode: String,
    #[serde(default)]
    pub only: Vec<usize>,
    #[serde(default)]
    pub quarantine: bool,
}

#[derive(Serialize, Deserialize, Clone, Debug, Default, PartialEq)]
pub struct InternOp {
    /// "intern" | "probe"
    pub k: String,
    pub hash: u64,
    pub text: String,
}

#[derive(Serialize, Deserialize, Clone, Debug, Default, PartialEq)]
pub struct Request {
    pub id: u64,
    /// "run" | "compile" | "intern" | "opcodes" | "ping"
    pub op: String,
    #[serde(default)]
    pub snippets: Vec<String>,
    #[serde(default)]
    pub modules: BTreeMap<String, String>,
    /// host natives to register in "main" before running: "raise:<Kind>" defines `raise_<Kind>()`
    /// returning that error kind; "intern_global:<name>:<text>" sets a host-created string global.
    #[serde(default)]
    pub natives: Vec<String>,
    #[serde(default)]
    pub gc: Option<GcSpec>,
    #[serde(default)]
    pub fuel: Option<u64>,
    /// any of "uaf", "heap", "alloc_log", "trace", "monitor", "dump", "store"
    #[serde(default)]
    pub want: Vec<String>,
    /// for op == "intern": replay `prefix`, then for each alternative separately apply it on a fresh
    /// table that replayed the prefix.
    #[serde(default)]
    pub intern_prefix: Vec<InternOp>,
    #[serde(default)]
    pub intern_alts: Vec<InternOp>,
    /// after the last snippet: drop the Vm, force a collection, report heap statistics
    #[serde(default)]
    pub drop_vm_stats: bool,
    /// run the request on a thread with a stack of this many KiB (the interpreter's recursion over
    /// data then meets the limit an embedding with an ordinary thread would meet)
    #[serde(default)]
    pub stack_kb: Option<usize>,
}

#[derive(Serialize, Deserialize, Clone, Debug, PartialEq)]
pub enum Outcome {
    Ok,
    Err { kind: String, messages: Vec<String> },
    Panic { msg: String },
}

impl Default for Outcome {
    fn default() -> Self {
        Outcome::Ok
    }
}

#[derive(Serialize, Deserialize, Clone, Debug, Default, PartialEq)]
pub struct SnippetResult {
    pub out: Vec<String>,
    pub outcome: Outcome,
}

#[derive(Serialize, Deserialize, Clone, Debug, Default, PartialEq)]
pub struct ConstDump {
    /// "num" | "str" | "fn" | "other"
    pub kind: String,
    /// index into `Response::functions` for kind == "fn"; text for "str"; display for the rest
    pub text: String,
    pub func: Option<usize>,
}

#[derive(Serialize, Deserialize, Clone, Debug, Default, PartialEq)]
pub struct FunctionDump {
    pub name: String,
    pub arity: usize,
    pub upvalue_count: usize,
    pub code: Vec<u8>,
    pub lines: Vec<i32>,
    pub constants: Vec<ConstDump>,
    pub code_addr: usize,
}

#[derive(Serialize, Deserialize, Clone, Debug, Default, PartialEq)]
pub struct HeapDump {
    pub bytes_allocated: usize,
    pub live_bytes: usize,
    pub threshold: usize,
    pub objects: usize,
    pub rooted: usize,
    pub by_type: BTreeMap<String, usize>,
    pub collections: usize,
    pub allocations: usize,
    pub quarantined: usize,
    pub quarantined_by_type: BTreeMap<String, usize>,
}

#[derive(Serialize, Deserialize, Clone, Debug, Default, PartialEq)]
pub struct InternObs {
    /// identity of the returned string (small ids in order of first appearance within one replay)
    pub id: Option<usize>,
    pub was_new: bool,
    /// slot array after the op: (hash, text, id)
    pub slots: Vec<Option<(u64, String, usize)>>,
    pub size: usize,
    pub mask: usize,
    /// identities observed for every op of the prefix (to check "first given pointer" stability)
    pub prefix_ids: Vec<Option<usize>>,
}

#[derive(Serialize, Deserialize, Clone, Debug, Default, PartialEq)]
pub struct Response {
    pub id: u64,
    #[serde(default, skip_serializing_if = "Vec::is_empty")]
    pub results: Vec<SnippetResult>,
    #[serde(default, skip_serializing_if = "Vec::is_empty")]
    pub uaf: Vec<String>,
    #[serde(default, skip_serializing_if = "Option::is_none")]
    pub heap: Option<HeapDump>,
    /// heap statistics after dropping the Vm and forcing a collection
    #[serde(default, skip_serializing_if = "Option::is_none")]
    pub heap_after_drop: Option<HeapDump>,
    /// heap statistics taken (after a forced collection) each time the program called `heap_probe()`
    #[serde(default, skip_serializing_if = "Vec::is_empty")]
    pub probes: Vec<HeapDump>,
    #[serde(default, skip_serializing_if = "Vec::is_empty")]
    pub alloc_log: Vec<(u8, usize, usize, usize, usize)>,
    #[serde(default, skip_serializing_if = "Vec::is_empty")]
    pub trace: Vec<(usize, usize, usize)>,
    #[serde(default, skip_serializing_if = "Vec::is_empty")]
    pub functions: Vec<FunctionDump>,
    #[serde(default, skip_serializing_if = "Option::is_none")]
    pub compile_error: Option<Vec<String>>,
    #[serde(default)]
    pub monitor_checks: u64,
    #[serde(default)]
    pub monitor_failures: u64,
    #[serde(default)]
    pub allocs: usize,
    #[serde(default)]
    pub steps: u64,
    #[serde(default, skip_serializing_if = "Vec::is_empty")]
    pub intern: Vec<InternObs>,
    #[serde(default, skip_serializing_if = "Vec::is_empty")]
    pub opcodes: Vec<(String, u8)>,
    /// (slots used, capacity) of the interpreter's own intern table, when "store" is wanted
    #[serde(default, skip_serializing_if = "Option::is_none")]
    pub store: Option<(usize, usize)>,
    /// for op == "compile_batch" with "dump": index into `functions` of each snippet's top-level function
    #[serde(default, skip_serializing_if = "Vec::is_empty")]
    pub batch_roots: Vec<Option<usize>>,
    #[serde(default)]
    pub config: String,
    /// set when the runner was built without hooks and a hook-only observation was requested
    #[serde(default, skip_serializing_if = "Vec::is_empty")]
    pub unsupported: Vec<String>,
}
