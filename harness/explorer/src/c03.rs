//! C03 — compilation is total.  Bounded-exhaustive input enumeration against the real compiler.
use crate::common::*;
use crate::corpus;
use crate::lexer;
use crate::mvm;
use crate::pool::{par_map, Obs, Runner};
use proto::{Outcome, Request};
use serde_json::json;
use std::collections::{BTreeMap, BTreeSet, HashSet};

pub const VOCAB: &[&str] = &[
    "(", ")", "{", "}", "[", "]", ",", ".", "..", "-", "-=", "+", "+=", ":", ";", "/", "/=", "*", "*=",
    "!", "!=", "=", "==", ">", ">=", "<", "<=", "&", "&=", "|", "|=", "^", "^=", "%", "%=", ">>", ">>=",
    "<<", "<<=", "&&", "||", "~", "#", "x", "\"s\"", "\"a${", "1", "Self", "catch", "class", "else",
    "false", "finally", "for", "fn", "if", "import", "as", "in", "nil", "return", "self", "super",
    "break", "continue", "throw", "true", "try", "var", "while", "@",
    // extras beyond one lexeme per token kind
    "}b\"", "\u{e9}", "\"$\"", "\"\\q\"", "\"abc", "1.5", "f", "\"\\u00e9\"", "// c\n",
];

#[derive(Default)]
struct Acc {
    evaluations: usize,
    ok: usize,
    err: usize,
    functions: usize,
    vm_states: usize,
    distinct: HashSet<u64>,
    nontrivial: HashSet<u64>,
    messages: BTreeSet<String>,
    violations: Vec<(String, serde_json::Value)>,
    by_family: BTreeMap<String, usize>,
    skipped_after_hangs: usize,
}

fn message_template(m: &str) -> String {
    // strip the location prefix and quoted lexemes so distinct *kinds* of messages are counted
    let rest = m.splitn(2, "] ").nth(1).unwrap_or(m);
    let mut out = String::new();
    let mut in_q = false;
    for c in rest.chars() {
        if c == '\'' {
            in_q = !in_q;
            out.push(c);
        } else if !in_q {
            out.push(c);
        }
    }
    out
}

fn check_messages(src: &str, kind: &str, messages: &[String]) -> Option<String> {
    if kind != "CompileError" {
        return Some(format!("compile() returned an error of kind {}", kind));
    }
    if messages.is_empty() {
        return Some("compile error without any message".into());
    }
    let lines = src.matches('\n').count() + 1;
    for m in messages {
        let ok = (|| {
            let rest = m.strip_prefix("[module \"main\", line ")?;
            let close = rest.find(']')?;
            let n: usize = rest[..close].parse().ok()?;
            if n < 1 || n > lines + 1 {
                return None;
            }
            let rest = &rest[close + 1..];
            if !rest.starts_with(" Error") {
                return None;
            }
            let colon = rest.find(": ")?;
            if rest[colon + 2..].trim().is_empty() {
                return None;
            }
            Some(())
        })();
        if ok.is_none() {
            return Some(format!("message without a valid location: {:?} (source has {} lines)", m, lines));
        }
    }
    None
}

struct Case {
    family: &'static str,
    src: String,
    /// true when the input is a valid program with one injected stray closer: must be an error
    must_err: bool,
}

fn judge_batch(runner: &mut Runner, ops: &mvm::OpTable, batch: Vec<Case>) -> Acc {
    let mut acc = Acc::default();
    // a run that has already reported this many batches that hang stops exploring: its verdict stands, and
    // the evidence says how much was left out
    if BATCHES_TIMED_OUT.load(std::sync::atomic::Ordering::Relaxed) >= BATCHES_TO_REPORT {
        acc.skipped_after_hangs += batch.len();
        return acc;
    }
    if HANGS_ISOLATED.load(std::sync::atomic::Ordering::Relaxed) >= HANGS_TO_ISOLATE {
        runner.timeout = std::time::Duration::from_secs(8);
    }
    let mut req = Request {
        op: "compile_batch".into(),
        snippets: batch.iter().map(|c| c.src.clone()).collect(),
        want: vec!["dump".into()],
        ..Default::default()
    };
    let obs = runner.call(&mut req);
    let complete = matches!(&obs, Obs::Resp(r) if r.results.len() == batch.len());
    if complete {
        let r = obs.resp().unwrap();
        for (i, c) in batch.iter().enumerate() {
            judge_one(&mut acc, ops, c, &r.results[i].outcome, r.batch_roots.get(i).copied().flatten(), &r.functions);
        }
        return acc;
    }
    // a panic, crash or hang somewhere in the batch: run every case alone to find the culprit(s).  A single
    // input compiles in well under a millisecond: alone, five seconds are a hang.  Once enough inputs
    // have been isolated (a compiler that loops does so on thousands of mutants), a batch that does not
    // finish is reported as a whole, with all its inputs, instead of waiting for each of them.
    let batch_timeout = runner.timeout;
    if matches!(&obs, Obs::Timeout) && HANGS_ISOLATED.load(std::sync::atomic::Ordering::Relaxed) >= HANGS_TO_ISOLATE {
        for c in &batch {
            count(&mut acc, c);
        }
        BATCHES_TIMED_OUT.fetch_add(1, std::sync::atomic::Ordering::Relaxed);
        acc.violations.push((
            format!("a batch of {} inputs did not finish compiling within {} s (inputs that hang the compiler have already been isolated {} times in this run)", batch.len(), batch_timeout.as_secs(), HANGS_TO_ISOLATE),
            json!({"family": batch[0].family, "sources": batch.iter().map(|c| c.src.clone()).collect::<Vec<_>>(), "observed": "timeout"}),
        ));
        return acc;
    }
    runner.timeout = std::time::Duration::from_secs(5);
    for (k, c) in batch.iter().enumerate() {
        if HANGS_ISOLATED.load(std::sync::atomic::Ordering::Relaxed) >= HANGS_TO_ISOLATE && k + 1 < batch.len() {
            // enough examples: the rest of this batch in one request
            let rest = &batch[k..];
            runner.timeout = std::time::Duration::from_secs(10);
            let mut req = Request { op: "compile_batch".into(), snippets: rest.iter().map(|c| c.src.clone()).collect(), want: vec!["dump".into()], ..Default::default() };
            match runner.call(&mut req) {
                Obs::Resp(r) if r.results.len() == rest.len() => {
                    for (i, c) in rest.iter().enumerate() {
                        judge_one(&mut acc, ops, c, &r.results[i].outcome, r.batch_roots.get(i).copied().flatten(), &r.functions);
                    }
                }
                other => {
                    for c in rest {
                        count(&mut acc, c);
                    }
                    acc.violations.push((
                        format!("{} inputs compiled in one request end in {} (inputs that hang or crash the compiler have already been isolated {} times in this run)", rest.len(), other.describe(), HANGS_TO_ISOLATE),
                        json!({"family": rest[0].family, "sources": rest.iter().map(|c| c.src.clone()).collect::<Vec<_>>(), "observed": other.describe()}),
                    ));
                }
            }
            break;
        }
        let mut req = Request {
            op: "compile_batch".into(),
            snippets: vec![c.src.clone()],
            want: vec!["dump".into()],
            ..Default::default()
        };
        match runner.call(&mut req) {
            Obs::Resp(r) if r.results.len() == 1 => {
                judge_one(&mut acc, ops, c, &r.results[0].outcome, r.batch_roots.get(0).copied().flatten(), &r.functions);
            }
            other => {
                count(&mut acc, c);
                if matches!(&other, Obs::Timeout) {
                    HANGS_ISOLATED.fetch_add(1, std::sync::atomic::Ordering::Relaxed);
                }
                acc.violations.push((
                    format!("compiling this input ends in {}", other.describe()),
                    json!({"family": c.family, "source": c.src, "observed": other.describe()}),
                ));
            }
        }
    }
    runner.timeout = batch_timeout;
    acc
}

static HANGS_ISOLATED: std::sync::atomic::AtomicUsize = std::sync::atomic::AtomicUsize::new(0);
static BATCHES_TIMED_OUT: std::sync::atomic::AtomicUsize = std::sync::atomic::AtomicUsize::new(0);
const BATCHES_TO_REPORT: usize = 40;
const HANGS_TO_ISOLATE: usize = 12;

fn count(acc: &mut Acc, c: &Case) {
    acc.evaluations += 1;
    *acc.by_family.entry(c.family.to_string()).or_insert(0) += 1;
    let h = fnv64(&c.src);
    if acc.distinct.insert(h) && lexer::lex(&c.src).len() >= 2 {
        acc.nontrivial.insert(h);
    }
}

fn judge_one(
    acc: &mut Acc,
    ops: &mvm::OpTable,
    c: &Case,
    outcome: &Outcome,
    root: Option<usize>,
    funcs: &[proto::FunctionDump],
) {
    count(acc, c);
    match outcome {
        Outcome::Panic { msg } => acc.violations.push((
            format!("compiler panicked: {}", msg),
            json!({"family": c.family, "source": c.src, "observed": {"panic": msg}}),
        )),
        Outcome::Err { kind, messages } => {
            acc.err += 1;
            for m in messages.iter().take(3) {
                if acc.messages.len() < 400 {
                    acc.messages.insert(message_template(m));
                }
            }
            if let Some(problem) = check_messages(&c.src, kind, messages) {
                acc.violations.push((
                    problem.clone(),
                    json!({"family": c.family, "source": c.src, "observed": {"kind": kind, "messages": messages}, "problem": problem}),
                ));
            }
        }
        Outcome::Ok => {
            acc.ok += 1;
            if c.must_err {
                acc.violations.push((
                    if c.family == "e_stray_closer" { "a valid program with one injected stray closing token was accepted".to_string() } else { "a program beyond a size limit of the encoding was accepted".to_string() },
                    json!({"family": c.family, "source": c.src, "observed": "Ok"}),
                ));
            }
            if let Some(root) = root {
                // every function reachable from this root through constants
                let mut stack = vec![root];
                let mut seen = BTreeSet::new();
                while let Some(fi) = stack.pop() {
                    if !seen.insert(fi) {
                        continue;
                    }
                    for k in &funcs[fi].constants {
                        if let Some(g) = k.func {
                            stack.push(g);
                        }
                    }
                    let rep = mvm::analyse(funcs, fi, ops);
                    acc.functions += 1;
                    acc.vm_states += rep.states;
                    // `two_heights` is C04's question (it has listed findings there); everything else
                    // means the accepted function is not runnable code: a function was returned after an
                    // error was swallowed, or an operand was left unpatched.
                    let bad: Vec<_> = rep.issues.iter().filter(|i| i.kind != "two_heights").collect();
                    if !bad.is_empty() {
                        acc.violations.push((
                            format!("accepted program compiles to structurally invalid code: {} at pc {}: {}", bad[0].kind, bad[0].pc, bad[0].detail),
                            json!({"family": c.family, "source": c.src, "issues": bad.iter().map(|i| format!("fn#{} pc {} {} {}", i.func, i.pc, i.kind, i.detail)).collect::<Vec<_>>()}),
                        ));
                    }
                }
            }
        }
    }
}

fn merge(a: &mut Acc, b: Acc) {
    a.evaluations += b.evaluations;
    a.ok += b.ok;
    a.err += b.err;
    a.functions += b.functions;
    a.vm_states += b.vm_states;
    a.distinct.extend(b.distinct);
    a.nontrivial.extend(b.nontrivial);
    a.messages.extend(b.messages);
    a.violations.extend(b.violations);
    a.skipped_after_hangs += b.skipped_after_hangs;
    for (k, v) in b.by_family {
        *a.by_family.entry(k).or_insert(0) += v;
    }
}

fn char_boundaries(s: &str) -> impl Iterator<Item = usize> + '_ {
    s.char_indices().map(|(i, _)| i).chain(std::iter::once(s.len()))
}

fn nest(open: &str, close: &str, core: &str, depth: usize) -> String {
    format!("{}{}{}", open.repeat(depth), core, close.repeat(depth))
}

fn ladders(thorough: bool) -> Vec<String> {
    let mut v = Vec::new();
    let depths: Vec<usize> = if thorough {
        (1..=256).collect()
    } else {
        vec![1, 2, 3, 7, 8, 9, 15, 16, 17, 63, 64, 65, 100, 127, 128, 129, 200, 255, 256]
    };
    for &d in &depths {
        v.push(format!("print({});", nest("(", ")", "1", d)));
        v.push(format!("{} print(1); {}", "{".repeat(d), "}".repeat(d)));
        v.push(format!("var f = {}1;", "|| ".repeat(d)));
        v.push(format!("print({}1);", "-".repeat(d)));
        v.push(format!("print({}true);", "!".repeat(d)));
        v.push(format!("print({});", nest("[", "]", "1", d)));
        v.push(format!("print({});", nest("(", ",)", "1", d)));
        v.push(format!("print({});", nest("{1:", "}", "1", d)));
        v.push(format!("{} print(1); {}", "if true {".repeat(d), "}".repeat(d)));
        v.push(format!("{} {}", "try {".repeat(d), "} catch e {}".repeat(d)));
        v.push(format!("{} {}", "try {".repeat(d), "} finally {}".repeat(d)));
        v.push(format!("{} {}", "fn f() {".repeat(d), "}".repeat(d)));
        v.push(format!("{} {}", "class A { fn m(self) {".repeat(d), "} }".repeat(d)));
        v.push(format!("{} {}", "while false {".repeat(d), "}".repeat(d)));
        v.push(format!("{} {}", "for i in [] {".repeat(d), "}".repeat(d)));
        v.push(format!("print(x{});", ".y".repeat(d)));
        v.push(format!("print(x{});", "[0]".repeat(d)));
        v.push(format!("print(x{});", "()".repeat(d)));
        v.push(format!("print(1{});", " + 1".repeat(d)));
        v.push(format!("x{} = 1;", " = x".repeat(d)));
    }
    // interpolation nesting 1..=10 crosses the stated limit of 8
    for d in 1..=10usize {
        let mut s = String::from("1");
        for _ in 0..d {
            s = format!("\"a${{{}}}b\"", s);
        }
        v.push(format!("print({});", s));
    }
    // limits: one below / at / one above
    for n in [254usize, 255, 256, 257] {
        let params: Vec<String> = (0..n).map(|i| format!("p{}", i)).collect();
        v.push(format!("fn f({}) {{}}", params.join(", ")));
        v.push(format!("var f = |{}| 1;", params.join(", ")));
        let args: Vec<String> = (0..n).map(|i| i.to_string()).collect();
        v.push(format!("f({});", args.join(", ")));
        v.push(format!("var v = [{}];", args.join(", ")));
        v.push(format!("var t = ({});", args.join(", ")));
        let pairs: Vec<String> = (0..n).map(|i| format!("{}: {}", i, i)).collect();
        v.push(format!("var m = {{{}}};", pairs.join(", ")));
        let locals: Vec<String> = (0..n).map(|i| format!("var l{} = {};", i, i)).collect();
        v.push(format!("fn f() {{ {} }}", locals.join(" ")));
        v.push(format!("{{ {} }}", locals.join(" ")));
        // captured variables
        let uses: Vec<String> = (0..n).map(|i| format!("l{};", i)).collect();
        v.push(format!("fn f() {{ {} fn g() {{ {} }} }}", locals.join(" "), uses.join(" ")));
        let parts: Vec<String> = (0..n).map(|i| format!("${{{}}}", i)).collect();
        v.push(format!("print(\"{}\");", parts.join("")));
    }
    v
}

/// Programs written for error recovery: every statement form, nested, with control flow *after* the
/// places where a mutant breaks the syntax (the compiler's per-function state - scopes, loops, try
/// statements, class context - has to survive the error it has just reported).
fn recovery_templates() -> Vec<String> {
    vec![
        "fn f(items) {\n  var total = 0;\n  for it in items {\n    {\n      var a = 1;\n      var b = 2;\n      try {\n        var c = a + b;\n        if it == c { throw \"three\"; }\n        total += it;\n      } catch e {\n        var d = 4;\n        print(\"${e} ${d}\");\n      } finally {\n        var g = 5;\n        total += g;\n      }\n    }\n    if total > 100 { break; }\n    if total == 7 { continue; }\n    total += 1;\n  }\n  return total;\n}\nprint(f([1, 2, 3]));\n".to_string(),
        "var n = 0;\nwhile n < 3 {\n  n += 1;\n  var k = n * 2;\n  {\n    var inner = k + 1;\n    try { print(inner); } catch err { print(err); }\n    var after = inner + 1;\n    if after > 5 { continue; }\n  }\n  while true {\n    var z = 1;\n    try { break; } finally { print(z); }\n  }\n  if k > 4 { break; }\n}\nprint(n);\n".to_string(),
        "#[constructor(new)]\nclass Base {\n  fn m(self, x) { return x + 1; }\n  #[static]\n  fn make() { return Self.new(); }\n}\n#[constructor(new), derive(Base)]\nclass Derived {\n  fn m(self, x) {\n    var up = super.m(x);\n    for i in 0..2 {\n      try { if i == 1 { return up + i; } } catch e { continue; }\n    }\n    return up;\n  }\n}\nprint(Derived.new().m(1));\nprint(Base.make().m(2));\n".to_string(),
        "fn outer() {\n  var captured = [1, 2];\n  var g = |x| {\n    var loc = x * 2;\n    for v in captured {\n      if v == loc { return v; }\n      try { captured.push(v); break; } catch e { print(e); }\n    }\n    return loc;\n  };\n  var h = || captured.len();\n  return (g(1), h());\n}\nprint(outer());\nvar m = {\"k\": [1, (2, 3)], 4: \"v${1 + 2}w\"};\nprint(m.get(\"k\")[1][0]);\n".to_string(),
        "import \"mod\" as mm;\nvar f = Fiber.new(|a| {\n  var got = Fiber.yield(a + 1);\n  while got != nil {\n    try { got = Fiber.yield(got * 2); } finally { print(\"f\"); }\n    if got == 9 { break; }\n  }\n  return \"done\";\n});\nprint(f.call(1));\nprint(f.call(3));\nprint(f.call(nil));\nprint(f.has_finished());\nprint(1 < 2 && !(3 >= 4) || nil == false);\nprint(-(1 + 2) * 3 % 4 / 5 - 6 & 7 | 8 ^ 9 << 1 >> 2);\n".to_string(),
    ]
}

pub fn run(ctx: &Ctx) -> Report {
    let mut report = Report::new();
    let scripts = corpus::load_scripts(&ctx.repo_dir);
    let core = corpus::load_core(&ctx.repo_dir);
    if scripts.len() < 100 {
        crate::pool::machinery_failure("corpus not found under /repo/yarel/tests/scripts");
    }
    let mut files: Vec<(String, String)> = scripts.iter().map(|s| (s.name.clone(), s.source.clone())).collect();
    files.push(("core.yl".into(), core));

    // opcode table from the crate's own enum
    let mut r0 = Runner::new(ctx.runner_checked.clone());
    let ops = match r0.call(&mut Request { op: "opcodes".into(), ..Default::default() }) {
        Obs::Resp(r) if !r.opcodes.is_empty() => mvm::OpTable::new(&r.opcodes),
        _ => crate::pool::machinery_failure("runner did not answer the opcodes request"),
    };
    drop(r0);

    let thorough = ctx.thorough();
    let seq_len = if thorough { 4 } else { 3 };
    let files_ref = &files;

    // ---- family generators (lazy) -----------------------------------------------------------------
    let fam_a = files_ref.iter().flat_map(|(_, src)| {
        char_boundaries(src).map(move |i| Case { family: "a_prefix", src: src[..i].to_string(), must_err: false })
    });
    let replacement: Vec<&'static str> = if thorough { VOCAB[..71].to_vec() } else { Vec::new() };
    let fam_b = files_ref.iter().flat_map(move |(_, src)| {
        let toks = lexer::lex(src);
        let mut out: Vec<Case> = Vec::new();
        for (k, t) in toks.iter().enumerate() {
            let before = &src[..t.start];
            let text = &src[t.start..t.end];
            let after = &src[t.end..];
            out.push(Case { family: "b_delete", src: format!("{}{}", before, after), must_err: false });
            out.push(Case { family: "b_duplicate", src: format!("{}{} {}{}", before, text, text, after), must_err: false });
            if let Some(n) = toks.get(k + 1) {
                let ntext = &src[n.start..n.end];
                out.push(Case {
                    family: "b_swap",
                    src: format!("{}{}{}{}{}", before, ntext, &src[t.end..n.start], text, &src[n.end..]),
                    must_err: false,
                });
            }
            for r in &replacement {
                out.push(Case { family: "b_replace", src: format!("{}{}{}", before, r, after), must_err: false });
            }
        }
        out.into_iter()
    });
    // (f) character-level mutants: delete the character at every position; insert each of a set of
    // lexically significant characters at every (quick: every third) position
    let inserts: &[&str] = &["\"", "}", "{", "$", "\\", "\u{e9}", "\n", "/", ".", "#"];
    let stride = if thorough { 1 } else { 3 };
    let fam_f = files_ref.iter().flat_map(move |(_, src)| {
        let mut out: Vec<Case> = Vec::new();
        let idx: Vec<(usize, char)> = src.char_indices().collect();
        for (k, (i, c)) in idx.iter().enumerate() {
            let end = i + c.len_utf8();
            out.push(Case { family: "f_char_delete", src: format!("{}{}", &src[..*i], &src[end..]), must_err: false });
            if k % stride == 0 {
                for ins in inserts {
                    out.push(Case { family: "f_char_insert", src: format!("{}{}{}", &src[..*i], ins, &src[*i..]), must_err: false });
                }
            }
        }
        out.into_iter()
    });
    let nv = VOCAB.len();
    let total_seq: usize = (1..=seq_len).map(|l| nv.pow(l as u32)).sum();
    let fam_c = (0..total_seq).map(move |mut idx| {
        let mut len = 1;
        loop {
            let block = nv.pow(len as u32);
            if idx < block {
                break;
            }
            idx -= block;
            len += 1;
        }
        let mut parts = Vec::with_capacity(len);
        for _ in 0..len {
            parts.push(VOCAB[idx % nv]);
            idx /= nv;
        }
        parts.reverse();
        Case { family: "c_token_seq", src: parts.join(" "), must_err: false }
    });
    let fam_d = ladders(thorough).into_iter().map(|src| Case { family: "d_ladder_limit", src, must_err: false });

    // (e) valid programs with one injected stray closer at every token boundary outside strings; only
    // scripts that compile as they are qualify (545 compiles to find out)
    let mut ok_files: Vec<&String> = Vec::new();
    {
        let mut r = Runner::new(ctx.runner_checked.clone());
        for (_, src) in files_ref {
            let mut req = Request { op: "compile_batch".into(), snippets: vec![src.clone()], ..Default::default() };
            let ok = matches!(r.call(&mut req), Obs::Resp(resp) if matches!(resp.results.get(0).map(|x| &x.outcome), Some(Outcome::Ok)));
            if ok {
                ok_files.push(src);
            }
        }
    }
    let fam_e = ok_files.iter().flat_map(|src| {
        let toks = lexer::lex(src);
        let clean = !toks.iter().any(|t| t.kind == "error" || t.kind == "interpolation");
        let mut out: Vec<Case> = Vec::new();
        if clean {
            for t in &toks {
                for closer in [")", "]"] {
                    out.push(Case { family: "e_stray_closer", src: format!("{} {} {}", &src[..t.start], closer, &src[t.start..]), must_err: true });
                }
            }
        }
        out.into_iter()
    });
    // (g) the recovery templates under every token-level mutant, with replacement by each of the 71 token
    // kinds in both tiers
    let templates = recovery_templates();
    let fam_g = templates.iter().flat_map(|src| {
        let toks = lexer::lex(src);
        let mut out: Vec<Case> = Vec::new();
        for (k, t) in toks.iter().enumerate() {
            let before = &src[..t.start];
            let text = &src[t.start..t.end];
            let after = &src[t.end..];
            out.push(Case { family: "g_recovery_delete", src: format!("{}{}", before, after), must_err: false });
            out.push(Case { family: "g_recovery_duplicate", src: format!("{}{} {}{}", before, text, text, after), must_err: false });
            if let Some(n) = toks.get(k + 1) {
                let ntext = &src[n.start..n.end];
                out.push(Case { family: "g_recovery_swap", src: format!("{}{}{}{}{}", before, ntext, &src[t.end..n.start], text, &src[n.end..]), must_err: false });
            }
            for r in VOCAB[..71].iter() {
                out.push(Case { family: "g_recovery_replace", src: format!("{}{} {}", before, r, after), must_err: false });
                out.push(Case { family: "g_recovery_insert", src: format!("{}{} {}{}", before, r, text, after), must_err: false });
            }
        }
        out.into_iter()
    });
    // (h) programs on, just under and beyond every size limit of the encoding (C04's limit family: each jump
    // kind at distances 65534..65537, 70000 and around 131072; locals, captures, parameters, elements,
    // interpolation parts, constants one below / at / above their limits; operand values 0..255 at the end of
    // a function): compiling terminates without a panic, those beyond a limit are rejected
    let fam_h = crate::c04::limit_sources(ctx).into_iter().map(|(src, must_err)| Case { family: "h_size_limits", src, must_err });
    // (i) compile errors located at a token that carries text of every length: string literals of 0..120 bytes
    // of ASCII followed by a character of 2, 3 or 4 bytes (wherever a message abbreviates, pads or copies a
    // lexeme, a multi-byte character straddles the limit at some length), long identifiers and long numbers
    let mut long_lexemes: Vec<Case> = Vec::new();
    for len in 0..=120usize {
        for tail in ["\u{e9}", "\u{20ac}", "\u{1f600}", "z"] {
            let text = format!("{}{}", "a".repeat(len), tail);
            long_lexemes.push(Case { family: "i_long_lexemes", src: format!("print(1 \"{}zz\");\nprint(2);\n", text), must_err: true });
            long_lexemes.push(Case { family: "i_long_lexemes", src: format!("var x = nil \"{}\";\n", text), must_err: true });
            long_lexemes.push(Case { family: "i_long_lexemes", src: format!("var s = \"{}\" \"{}\";\n", tail, text), must_err: true });
        }
        long_lexemes.push(Case { family: "i_long_lexemes", src: format!("var x = nil {};\n", "b".repeat(len + 1)), must_err: true });
        long_lexemes.push(Case { family: "i_long_lexemes", src: format!("var x = nil {};\n", "7".repeat(len + 1)), must_err: true });
        long_lexemes.push(Case { family: "i_long_lexemes", src: format!("var x = nil {}.{};\n", "7".repeat(len / 2 + 1), "3".repeat(len / 2 + 1)), must_err: true });
    }
    let all = fam_a.chain(long_lexemes).chain(fam_b).chain(fam_e).chain(fam_d).chain(fam_h).chain(fam_f).chain(fam_g).chain(fam_c);
    // batches of 400 inputs
    struct Batcher<I: Iterator<Item = Case>> {
        it: I,
    }
    impl<I: Iterator<Item = Case>> Iterator for Batcher<I> {
        type Item = Vec<Case>;
        fn next(&mut self) -> Option<Vec<Case>> {
            let mut b = Vec::with_capacity(400);
            for c in self.it.by_ref() {
                b.push(c);
                if b.len() == 400 {
                    break;
                }
            }
            if b.is_empty() {
                None
            } else {
                Some(b)
            }
        }
    }
    let ops_ref = &ops;
    let accs = par_map(&ctx.runner_checked, ctx.workers, Batcher { it: all }, |runner, _i, batch| {
        runner.timeout = std::time::Duration::from_secs(30);
        runner.recycle_after = 50;
        judge_batch(runner, ops_ref, batch)
    });
    let mut acc = Acc::default();
    for a in accs {
        merge(&mut acc, a);
    }

    // vacuity guards (a run cut short by hangs has its violations; the guards are for complete runs)
    if acc.skipped_after_hangs > 0 {
        report.cov("inputs_not_explored_after_40_batches_hung", json!(acc.skipped_after_hangs));
    } else if acc.ok < 100 || acc.err < 100 {
        crate::pool::machinery_failure(&format!("vacuous C03 run: ok={} err={}", acc.ok, acc.err));
    }
    let expected_c = total_seq;
    if acc.skipped_after_hangs == 0 && acc.by_family.get("c_token_seq").copied().unwrap_or(0) != expected_c {
        crate::pool::machinery_failure("token-sequence family did not produce the predicted number of cases");
    }

    report.cov("evaluations", json!(acc.evaluations));
    report.cov("distinct_nontrivial", json!(acc.nontrivial.len()));
    report.cov("states", json!(acc.distinct.len()));
    report.cov("transitions", json!(acc.evaluations));
    report.cov("traces_validated_against_impl", json!(acc.evaluations));
    report.cov("rule", json!("inputs enumerated exhaustively per family (every prefix at every char boundary of every repository script and core.yl; token-level delete/duplicate/swap[/replace-by-each-token-kind] mutants at every token position; every token sequence up to the stated length over the full token vocabulary; nesting ladders and limit-sized programs; compile errors located at a token of every length (string literals of 0..120 bytes followed by a character of 2, 3 or 4 bytes, identifiers and numbers up to 121 characters); the programs of C04's limit family (every jump kind sized to 65534..65537, 70000 and 131071..131073 bytes, every count limit straddled, every operand value at the end of a function); valid programs with one stray closer at every token position; character-level mutants: every single-character deletion and insertions of ten lexically significant characters; five recovery templates - every statement form nested, with control flow after the places a mutant breaks - under deletion, duplication, swap, and replacement by / insertion of each of the 71 token kinds at every token position). distinct = distinct source text; non-trivial = at least two tokens by the reference lexer."));
    report.cov("exhaustive", json!(acc.skipped_after_hangs == 0));
    report.cov("bounds", json!({"token_sequence_length": seq_len, "vocabulary": nv, "replacement_mutants": thorough, "ladder_depth_max": 256}));
    report.cov("by_family", json!(acc.by_family));
    report.cov("outcomes", json!({"ok": acc.ok, "compile_error": acc.err}));
    report.cov("functions_verified_structurally", json!(acc.functions));
    report.cov("abstract_vm_states", json!(acc.vm_states));
    report.cov("distinct_error_message_templates", json!(acc.messages.len()));
    report.cov("samples", json!([
        {"family": "a_prefix", "source": files[0].1.chars().take(60).collect::<String>()},
        {"family": "c_token_seq", "source": format!("{} {} {}", VOCAB[3], VOCAB[45], VOCAB[70])},
        {"family": "d_ladder_limit", "source": "print(((((((((1)))))))));"},
        {"family": "error message templates", "first": acc.messages.iter().take(5).collect::<Vec<_>>()},
    ]));
    report.assumptions = vec![
        "inputs outside the enumerated families (arbitrary Unicode beyond the sampled characters, sequences longer than the bound) are not covered".into(),
        "a hang is detected by a 30 s watchdog per batch of 400 inputs and a 5 s watchdog per input compiled alone; after 12 isolated hangs a batch that does not finish is reported as a whole".into(),
        "'returned a function after reporting an error' is observed indirectly: accepted functions must be structurally valid code (M-vm) and valid programs with an injected stray closer must be rejected".into(),
    ];
    report.violations = acc.violations;
    report
}
