//! Runner pool: every worker thread owns one runner child process.  A child that dies (signal), hangs
//! (watchdog) or reports a panic is an *observation* for the case in flight; the worker starts a fresh
//! child.  A runner that cannot be started, or a protocol error, is a machinery failure.
use proto::{Request, Response};
use std::io::{BufRead, BufReader, Write};
use std::os::unix::process::ExitStatusExt;
use std::path::PathBuf;
use std::process::{Child, ChildStdin, Command, Stdio};
use std::sync::mpsc::{channel, Receiver, RecvTimeoutError};
use std::sync::{Arc, Mutex};
use std::time::Duration;

#[derive(Clone, Debug)]
pub enum Obs {
    Resp(Response),
    /// runner died; signal number if killed by a signal
    Crash(Option<i32>),
    Timeout,
}

impl Obs {
    pub fn resp(&self) -> Option<&Response> {
        match self {
            Obs::Resp(r) => Some(r),
            _ => None,
        }
    }
    pub fn describe(&self) -> String {
        match self {
            Obs::Resp(_) => "response".into(),
            Obs::Crash(Some(s)) => format!("CRASH(signal {})", s),
            Obs::Crash(None) => "CRASH(exit)".into(),
            Obs::Timeout => "TIMEOUT".into(),
        }
    }
}

pub struct Runner {
    path: PathBuf,
    child: Option<Child>,
    stdin: Option<ChildStdin>,
    lines: Option<Receiver<String>>,
    next_id: u64,
    served: usize,
    pub timeout: Duration,
    pub recycle_after: usize,
    pub spawned: usize,
}

pub fn machinery_failure(msg: &str) -> ! {
    eprintln!("MACHINERY-FAILURE: {}", msg);
    std::process::exit(3);
}

impl Runner {
    pub fn new(path: PathBuf) -> Runner {
        Runner {
            path,
            child: None,
            stdin: None,
            lines: None,
            next_id: 1,
            served: 0,
            timeout: Duration::from_secs(20),
            recycle_after: 2000,
            spawned: 0,
        }
    }

    fn spawn(&mut self) {
        let mut child = match Command::new(&self.path)
            .stdin(Stdio::piped())
            .stdout(Stdio::piped())
            .stderr(Stdio::null())
            .spawn()
        {
            Ok(c) => c,
            Err(e) => machinery_failure(&format!("cannot start runner {:?}: {}", self.path, e)),
        };
        let stdout = child.stdout.take().unwrap();
        let (tx, rx) = channel();
        std::thread::spawn(move || {
            let mut reader = BufReader::with_capacity(1 << 16, stdout);
            loop {
                let mut line = String::new();
                match reader.read_line(&mut line) {
                    Ok(0) | Err(_) => break,
                    Ok(_) => {
                        if tx.send(line).is_err() {
                            break;
                        }
                    }
                }
            }
        });
        self.stdin = child.stdin.take();
        self.child = Some(child);
        self.lines = Some(rx);
        self.served = 0;
        self.spawned += 1;
    }

    fn kill(&mut self) -> Option<i32> {
        self.stdin = None;
        self.lines = None;
        if let Some(mut c) = self.child.take() {
            let _ = c.kill();
            if let Ok(st) = c.wait() {
                return st.signal();
            }
        }
        None
    }

    fn reap(&mut self) -> Option<i32> {
        self.stdin = None;
        self.lines = None;
        if let Some(mut c) = self.child.take() {
            // the child is dead or dying: wait briefly, then kill
            for _ in 0..200 {
                match c.try_wait() {
                    Ok(Some(st)) => return st.signal(),
                    Ok(None) => std::thread::sleep(Duration::from_millis(5)),
                    Err(_) => break,
                }
            }
            let _ = c.kill();
            let _ = c.wait();
        }
        None
    }

    pub fn call(&mut self, req: &mut Request) -> Obs {
        if self.child.is_none() || self.served >= self.recycle_after {
            if self.child.is_some() {
                self.kill();
            }
            self.spawn();
        }
        req.id = self.next_id;
        self.next_id += 1;
        let mut text = serde_json::to_string(req).expect("serialise request");
        text.push('\n');
        let write_ok = self
            .stdin
            .as_mut()
            .map(|s| s.write_all(text.as_bytes()).and_then(|_| s.flush()).is_ok())
            .unwrap_or(false);
        if !write_ok {
            let sig = self.reap();
            return Obs::Crash(sig);
        }
        self.served += 1;
        match self.lines.as_ref().unwrap().recv_timeout(self.timeout) {
            Ok(line) => match serde_json::from_str::<Response>(&line) {
                Ok(resp) => {
                    if resp.id != req.id {
                        machinery_failure("runner answered with the wrong request id");
                    }
                    let panicked = resp
                        .results
                        .iter()
                        .any(|r| matches!(r.outcome, proto::Outcome::Panic { .. }));
                    if panicked {
                        // the runner exits after reporting a panic
                        self.reap();
                    }
                    Obs::Resp(resp)
                }
                Err(e) => {
                    // A runner whose interpreter has corrupted the process's memory can answer with anything.
                    // That is the subject's doing (the protocol itself is exercised millions of times per
                    // run on the unchanged tree): the case ends in a crash, the runner is replaced.
                    eprintln!("runner answered with something that is not a response ({}): {:?}", e, line.chars().take(160).collect::<String>());
                    self.kill();
                    Obs::Crash(None)
                }
            },
            Err(RecvTimeoutError::Timeout) => {
                self.kill();
                Obs::Timeout
            }
            Err(RecvTimeoutError::Disconnected) => {
                let sig = self.reap();
                Obs::Crash(sig)
            }
        }
    }
}

impl Drop for Runner {
    fn drop(&mut self) {
        self.kill();
    }
}

/// Run `judge` over every case on `workers` threads, each with its own runner; results are returned
/// in case order.
pub fn par_map<C, R, I, F>(runner_path: &PathBuf, workers: usize, cases: I, judge: F) -> Vec<R>
where
    C: Send,
    R: Send,
    I: Iterator<Item = C> + Send,
    F: Fn(&mut Runner, usize, C) -> R + Sync,
{
    let source = Arc::new(Mutex::new(cases.enumerate()));
    let results: Arc<Mutex<Vec<(usize, R)>>> = Arc::new(Mutex::new(Vec::new()));
    std::thread::scope(|scope| {
        for _ in 0..workers {
            let source = source.clone();
            let results = results.clone();
            let judge = &judge;
            let path = runner_path.clone();
            scope.spawn(move || {
                let mut runner = Runner::new(path);
                let mut local: Vec<(usize, R)> = Vec::new();
                loop {
                    let batch: Vec<(usize, C)> = {
                        let mut it = source.lock().unwrap();
                        let mut b = Vec::new();
                        for _ in 0..16 {
                            match it.next() {
                                Some(x) => b.push(x),
                                None => break,
                            }
                        }
                        b
                    };
                    if batch.is_empty() {
                        break;
                    }
                    for (i, c) in batch {
                        let r = judge(&mut runner, i, c);
                        local.push((i, r));
                    }
                }
                results.lock().unwrap().append(&mut local);
            });
        }
    });
    let mut v = Arc::try_unwrap(results)
        .ok()
        .expect("results still shared")
        .into_inner()
        .unwrap();
    v.sort_by_key(|(i, _)| *i);
    v.into_iter().map(|(_, r)| r).collect()
}

/// the same without runner children (cases that drive another program, e.g. the command-line host)
pub fn par_map_plain<C, R, I, F>(workers: usize, cases: I, judge: F) -> Vec<R>
where
    C: Send,
    R: Send,
    I: Iterator<Item = C> + Send,
    F: Fn(C) -> R + Sync,
{
    let source = Arc::new(Mutex::new(cases.enumerate()));
    let results: Arc<Mutex<Vec<(usize, R)>>> = Arc::new(Mutex::new(Vec::new()));
    std::thread::scope(|scope| {
        for _ in 0..workers.max(1) {
            let source = source.clone();
            let results = results.clone();
            let judge = &judge;
            scope.spawn(move || loop {
                let next = source.lock().unwrap().next();
                match next {
                    Some((i, c)) => {
                        let r = judge(c);
                        results.lock().unwrap().push((i, r));
                    }
                    None => break,
                }
            });
        }
    });
    let mut v = Arc::try_unwrap(results).ok().unwrap().into_inner().unwrap();
    v.sort_by_key(|(i, _)| *i);
    v.into_iter().map(|(_, r)| r).collect()
}
