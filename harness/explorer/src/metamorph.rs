//! Metamorphic transformations of generated programs: the implementation runs the transformed program, the
//! reference evaluator the original one; a stated law of the language says both print and end the same.
//!
//! Yield insertion (C09, also run by C06 on its own corpus): a program whose statements all run inside one
//! fiber behaves the same when the fiber is suspended after every statement - at every nesting level, in
//! every function, method, lambda, loop body, try / catch / finally block - and resumed by a driver loop,
//! because a fiber keeps its locals, call stack, captured variables and exception handlers across
//! suspensions.  M-eval evaluates the same statements in a fiber that is called once and never yields.
use crate::ast::*;
use std::sync::Arc as Rc;

#[derive(Clone, Copy, PartialEq, Eq, Debug)]
pub enum Driver {
    /// `while !fib.has_finished() { fib.call(); }`
    Plain,
    /// yields carry a value, resumes pass an argument (both discarded by the program)
    Values,
    /// between two resumes the driver runs another fiber that uses locals, closures, try / catch / finally
    /// and yields from inside a try block; it prints only when it finds its own state disturbed
    Interleaved,
    /// as Plain, and additionally a yield in the middle of expressions: every call argument, every element
    /// of a vec / tuple literal and every right operand of an arithmetic or comparison operator `e` becomes
    /// `(Fiber.yield() || e)` - the fiber is suspended with the operands evaluated so far on its stack, and
    /// a resume without an argument makes the yield evaluate to nil, so the value is `e`'s
    InExpressions,
}

thread_local! {
    static IN_EXPRESSIONS: std::cell::Cell<bool> = std::cell::Cell::new(false);
    /// what `map_block` does to a block: insert yields (0), or wrap every statement in a transparent try
    /// statement (1: try/finally, 2: try/catch that throws the exception again, 3: both, nested)
    static BLOCK_MODE: std::cell::Cell<u8> = std::cell::Cell::new(0);
    /// every call and method call goes through a wrapper lambda (see `calls_through_wrappers`)
    static WRAP_CALLS: std::cell::Cell<bool> = std::cell::Cell::new(false);
}

/// Transparent try statements (C08): `try { S } finally { }` and `try { S } catch e { throw e; }` around a
/// statement S that declares nothing do what S does - whether S falls through, returns, breaks, continues,
/// throws or calls something that does.  Every statement of every block, function, method, lambda, loop body
/// and try / catch / finally block of a program is wrapped (declarations stay as they are: their scope is the
/// enclosing block), so every exit of the program passes through handlers and finally blocks that must not
/// change it.  The reference evaluator runs the same wrapped program.
#[derive(Clone, Copy, PartialEq, Eq, Debug)]
pub enum TryWrap {
    Finally,
    Rethrow,
    Both,
}

fn wrap_try(s: Stmt, mode: u8) -> Stmt {
    if matches!(s.kind, StmtKind::Var(..) | StmtKind::Fn(_) | StmtKind::Class(_) | StmtKind::Import(..)) {
        return s;
    }
    let rethrow = || Some(("zz_e".to_string(), vec![st(StmtKind::Throw(var("zz_e")))]));
    match mode {
        1 => st(StmtKind::Try(vec![s], None, Some(vec![]))),
        2 => st(StmtKind::Try(vec![s], rethrow(), None)),
        _ => st(StmtKind::Try(vec![st(StmtKind::Try(vec![s], None, Some(vec![])))], rethrow(), Some(vec![]))),
    }
}

pub fn try_wrapped(body: &[Stmt], w: TryWrap) -> Vec<Stmt> {
    BLOCK_MODE.with(|m| m.set(match w { TryWrap::Finally => 1, TryWrap::Rethrow => 2, TryWrap::Both => 3 }));
    let out = map_block(body, false);
    BLOCK_MODE.with(|m| m.set(0));
    out
}

pub fn try_wrapped_cases(family: &'static str, corpus: &[crate::mcheck::Case], wraps: &[TryWrap]) -> Vec<crate::mcheck::Case> {
    let mut out = Vec::new();
    for c in corpus {
        if c.impl_src.is_some() || !c.prelude.is_empty() || c.piecewise {
            continue;
        }
        for w in wraps {
            let mut n = crate::mcheck::Case::new(family, try_wrapped(&c.prog, *w));
            n.modules = c.modules.clone();
            n.opts = crate::diff::CmpOpts { trace: false, kind: c.opts.kind };
            out.push(n);
        }
    }
    out
}

fn mid(e: Expr) -> Expr {
    if IN_EXPRESSIONS.with(|f| f.get()) {
        Expr::Paren(Box::new(Expr::Or(Box::new(invoke(var("Fiber"), "yield", vec![])), Box::new(e))))
    } else {
        e
    }
}

fn yield_stmt(with_value: bool) -> Stmt {
    let args = if with_value { vec![num(7.0)] } else { vec![] };
    expr_stmt(invoke(var("Fiber"), "yield", args))
}

fn map_fn(f: &Rc<FnDecl>, v: bool) -> Rc<FnDecl> {
    let body = match &f.body {
        FnBody::Block(b) => FnBody::Block(map_block(b, v)),
        FnBody::Expr(e) => FnBody::Expr(Box::new(map_expr(e, v))),
    };
    Rc::new(FnDecl { name: f.name.clone(), params: f.params.clone(), body, kind: f.kind, line: Cell::new(0) })
}

fn bx(e: &Expr, v: bool) -> Box<Expr> {
    Box::new(map_expr(e, v))
}

fn map_exprs(es: &[Expr], v: bool) -> Vec<Expr> {
    es.iter().map(|e| map_expr(e, v)).collect()
}

/// (arguments and elements: also a yield before each one when yields inside expressions are on)
fn map_operands(es: &[Expr], v: bool) -> Vec<Expr> {
    es.iter().map(|e| mid(map_expr(e, v))).collect()
}

/// expressions are copied; block-bodied lambdas inside them get yields
fn map_expr(e: &Expr, v: bool) -> Expr {
    match e {
        Expr::Nil | Expr::True | Expr::False | Expr::Num(_) | Expr::RawNum(..) | Expr::Str(_) | Expr::RawStr(..) | Expr::Var(_) | Expr::SelfRef | Expr::CapSelf | Expr::SuperGet(_) => e.clone(),
        Expr::Interp(parts) => Expr::Interp(parts.iter().map(|p| match p { Part::Lit(s) => Part::Lit(s.clone()), Part::Expr(x) => Part::Expr(map_expr(x, v)) }).collect()),
        Expr::Assign(id, x) => Expr::Assign(id.clone(), bx(x, v)),
        Expr::CompoundAssign(id, op, x) => Expr::CompoundAssign(id.clone(), *op, bx(x, v)),
        Expr::Unary(op, x) => Expr::Unary(*op, bx(x, v)),
        Expr::Binary(op, a, b) => Expr::Binary(*op, bx(a, v), if matches!(op, BinOp::Range) { bx(b, v) } else { Box::new(mid(map_expr(b, v))) }),
        Expr::And(a, b) => Expr::And(bx(a, v), bx(b, v)),
        Expr::Or(a, b) => Expr::Or(bx(a, v), bx(b, v)),
        Expr::Call(f, args) if WRAP_CALLS.with(|w| w.get()) => wrap_call(map_expr(f, v), map_exprs(args, v)),
        Expr::Invoke(r, id, args) if WRAP_CALLS.with(|w| w.get()) => wrap_invoke(map_expr(r, v), id, map_exprs(args, v)),
        Expr::Call(f, args) => Expr::Call(bx(f, v), map_operands(args, v)),
        Expr::Invoke(r, id, args) => Expr::Invoke(bx(r, v), id.clone(), map_operands(args, v)),
        Expr::Get(r, id) => Expr::Get(bx(r, v), id.clone()),
        Expr::Set(r, id, x) => Expr::Set(bx(r, v), id.clone(), bx(x, v)),
        Expr::CompoundSet(r, id, op, x) => Expr::CompoundSet(bx(r, v), id.clone(), *op, bx(x, v)),
        Expr::Index(a, i) => Expr::Index(bx(a, v), bx(i, v)),
        Expr::SetIndex(a, i, x) => Expr::SetIndex(bx(a, v), bx(i, v), bx(x, v)),
        Expr::VecLit(es) => Expr::VecLit(map_operands(es, v)),
        Expr::TupleLit(es) => Expr::TupleLit(map_operands(es, v)),
        Expr::MapLit(kvs) => Expr::MapLit(kvs.iter().map(|(k, x)| (map_expr(k, v), map_expr(x, v))).collect()),
        Expr::Lambda(f) => Expr::Lambda(map_fn(f, v)),
        Expr::SuperInvoke(id, args) => Expr::SuperInvoke(id.clone(), map_exprs(args, v)),
        Expr::Paren(x) => Expr::Paren(bx(x, v)),
    }
}

fn map_stmt(s: &Stmt, v: bool) -> Stmt {
    let kind = match &s.kind {
        StmtKind::Expr(e) => StmtKind::Expr(map_expr(e, v)),
        StmtKind::Var(id, e) => StmtKind::Var(id.clone(), e.as_ref().map(|x| map_expr(x, v))),
        StmtKind::Block(b) => StmtKind::Block(map_block(b, v)),
        StmtKind::If(c, t, e) => StmtKind::If(map_expr(c, v), map_block(t, v), e.as_ref().map(|x| Box::new(map_stmt(x, v)))),
        StmtKind::While(c, b) => StmtKind::While(map_expr(c, v), map_block(b, v)),
        StmtKind::For(id, it, b) => StmtKind::For(id.clone(), map_expr(it, v), map_block(b, v)),
        StmtKind::Break => StmtKind::Break,
        StmtKind::Continue => StmtKind::Continue,
        StmtKind::Return(e) => StmtKind::Return(e.as_ref().map(|x| map_expr(x, v))),
        StmtKind::Throw(e) => StmtKind::Throw(map_expr(e, v)),
        StmtKind::Try(b, c, f) => StmtKind::Try(map_block(b, v), c.as_ref().map(|(id, cb)| (id.clone(), map_block(cb, v))), f.as_ref().map(|fb| map_block(fb, v))),
        StmtKind::Fn(f) => StmtKind::Fn(map_fn(f, v)),
        StmtKind::Class(c) => StmtKind::Class(Rc::new(ClassDecl {
            name: c.name.clone(),
            superclass: c.superclass.clone(),
            default_ctor: c.default_ctor.clone(),
            methods: c.methods.iter().map(|m| map_fn(m, v)).collect(),
        })),
        StmtKind::Import(p, a) => StmtKind::Import(p.clone(), a.clone()),
    };
    st(kind)
}

/// a yield before the first statement and after every statement of the block (a yield after `return`,
/// `break`, `continue` or `throw` would be dead code and is left out)
fn map_block(b: &[Stmt], v: bool) -> Vec<Stmt> {
    let mode = BLOCK_MODE.with(|m| m.get());
    if mode == 4 {
        return b.iter().map(|s| map_stmt(s, v)).collect();
    }
    if mode != 0 {
        return b.iter().map(|s| wrap_try(map_stmt(s, v), mode)).collect();
    }
    let mut out = vec![yield_stmt(v)];
    for s in b {
        out.push(map_stmt(s, v));
        if !matches!(s.kind, StmtKind::Return(_) | StmtKind::Break | StmtKind::Continue | StmtKind::Throw(_)) {
            out.push(yield_stmt(v));
        }
    }
    out
}

/// what the reference evaluator runs: the statements in a fiber that is called once
pub fn in_fiber_once(body: &[Stmt]) -> Vec<Stmt> {
    vec![var_stmt("fib", invoke(var("Fiber"), "new", vec![lambda_block(&[], body.to_vec())])), expr_stmt(invoke(var("fib"), "call", vec![]))]
}

/// does the program use fibers itself? (a yield inside an inner fiber would suspend that fiber, not ours)
pub fn mentions_fibers(body: &[Stmt]) -> bool {
    print_program(body, false).contains("Fiber")
}

const OTHER_FIBER: &str = "var zz_other = Fiber.new(|| {\n  var n = 0;\n  var keep = [];\n  while true {\n    var loc = n;\n    var c = || loc;\n    try {\n      try {\n        Fiber.yield(n);\n        if n % 3 == 1 { throw n; }\n      } finally {\n        n += 1;\n      }\n    } catch e {\n      if e != loc { print(\"other fiber: wrong exception\"); }\n    }\n    keep.push(c);\n    if c() != loc { print(\"other fiber: local disturbed\"); }\n    if keep[0]() != loc - (keep.len() - 1) { print(\"other fiber: kept closure disturbed\"); }\n    if keep.len() > 3 { keep = []; }\n  }\n});\n";

/// the source the implementation runs: the statements with a yield after every statement, in a fiber
/// resumed until it has finished
pub fn yielding_source(body: &[Stmt], driver: Driver) -> String {
    let with_values = matches!(driver, Driver::Values | Driver::Interleaved);
    IN_EXPRESSIONS.with(|f| f.set(driver == Driver::InExpressions));
    let prog = vec![var_stmt("fib", invoke(var("Fiber"), "new", vec![lambda_block(&[], map_block(body, with_values))]))];
    IN_EXPRESSIONS.with(|f| f.set(false));
    let mut src = print_program(&prog, false);
    match driver {
        Driver::Plain | Driver::InExpressions => src.push_str("while !fib.has_finished() { fib.call(); }\n"),
        Driver::Values => src.push_str("fib.call();\nvar zz_k = 0;\nwhile !fib.has_finished() { zz_k += 1; if zz_k % 2 == 0 { fib.call(); } else { fib.call([zz_k, \"resume\"]); } }\n"),
        Driver::Interleaved => {
            src.push_str(OTHER_FIBER);
            src.push_str("while !fib.has_finished() { fib.call(); zz_other.call(); }\n");
        }
    }
    src
}

/// the yield-insertion cases for a corpus: model = the statements in a fiber called once; implementation =
/// the same statements suspended after each one and resumed by `driver`
pub fn yield_cases(family: &'static str, corpus: &[crate::mcheck::Case], drivers: &[Driver]) -> Vec<crate::mcheck::Case> {
    let mut out = Vec::new();
    for c in corpus {
        if mentions_fibers(&c.prog) || c.impl_src.is_some() || !c.prelude.is_empty() {
            continue;
        }
        for d in drivers {
            let mut k = crate::mcheck::Case::new(family, in_fiber_once(&c.prog));
            k.modules = c.modules.clone();
            k.opts = crate::diff::CmpOpts { trace: false, kind: c.opts.kind };
            k.impl_src = Some(yielding_source(&c.prog, *d));
            out.push(k);
        }
    }
    out
}

/// A corpus of programs drawn from the generators of the other properties (the same selection for every
/// metamorphic family): all C08 nests of depth 1, the loop-around-two-trys nests, re-entered try statements,
/// recursion from finally blocks, and strided selections of the C08 loop-with-pair, C06, C07, C18 and C05
/// programs.  `scale` multiplies the strides (1 = the thorough selection).
pub fn standard_corpus(scale: usize) -> Vec<crate::mcheck::Case> {
    use crate::mcheck::Case;
    let mut corpus: Vec<Case> = Vec::new();
    for n in crate::c08::nests_of_depth(1) {
        corpus.push(Case::new("c08", crate::c08::program(&[n])));
    }
    corpus.extend(crate::c08::loop_try_try_nests().into_iter().step_by(scale.max(1)).map(|n| Case::new("c08", crate::c08::program(&[n]))));
    corpus.extend(crate::c08::reentered_after_abrupt_finally_exit());
    corpus.extend(crate::c08::recursion_from_finally().into_iter().step_by(scale.max(1)));
    corpus.extend(crate::c08::loop_with_pair_cases().into_iter().step_by(7 * scale.max(1)));
    corpus.extend(crate::c06::cases_for_c04(false).into_iter().step_by(3 * scale.max(1)));
    corpus.extend(crate::c07::cases_all(false).into_iter().step_by(5 * scale.max(1)));
    corpus.extend(crate::c18::cases_for_c04(false).into_iter().step_by(scale.max(1)));
    corpus.extend(crate::c05::cases_for_c04(false).into_iter().step_by(11 * scale.max(1)));
    corpus
}

/// REPL law (C15): a program fed to one interpreter one top-level statement at a time prints what the whole
/// program prints and ends as it ends (top-level declarations are globals, so every statement boundary of
/// the top level is a place where a REPL user could have pressed return).
pub fn piecewise_cases(family: &'static str, corpus: &[crate::mcheck::Case]) -> Vec<crate::mcheck::Case> {
    let mut out = Vec::new();
    for c in corpus {
        if c.prog.len() < 2 || c.impl_src.is_some() || !c.prelude.is_empty() {
            continue;
        }
        let mut k = crate::mcheck::Case::new(family, c.prog.clone());
        k.modules = c.modules.clone();
        k.opts = crate::diff::CmpOpts { trace: false, kind: c.opts.kind };
        k.piecewise = true;
        out.push(k);
    }
    out
}

/// Module law (C14): the statements of a program behave the same as the top-level code of an imported module
/// (their globals are the module's, the built-ins are there, the code runs in a frame of its own) - the main
/// program is just `import "zz_prog";`.
pub fn as_module_cases(family: &'static str, corpus: &[crate::mcheck::Case]) -> Vec<crate::mcheck::Case> {
    let mut out = Vec::new();
    for c in corpus {
        if c.impl_src.is_some() || !c.prelude.is_empty() {
            continue;
        }
        let mut k = crate::mcheck::Case::new(family, c.prog.clone());
        k.modules = c.modules.clone();
        k.opts = crate::diff::CmpOpts { trace: false, kind: c.opts.kind };
        k.impl_src = Some("import \"zz_prog\";\n".to_string());
        k.impl_modules.insert("zz_prog".to_string(), print_program(&c.prog, false));
        out.push(k);
    }
    out
}

/// Displacement law (C06 / C08 / C04): the statements of a program behave the same as the body of a function
/// whatever lies *below* them - `locals` unused variables declared first in the same function (every slot
/// number, capture index and stack position of the program moves up by that much: one-byte operands near 127,
/// 128 and 255) and `depth` activations of the function already on the call stack (the program's own calls
/// run just under the limit of active calls, so its deepest ones fail with the stack overflow error - in try
/// bodies, catch and finally blocks, callbacks of the library - and are handled or not like any other error).
/// The reference evaluator runs the same transformed program: it has no slots, and counts active calls.
pub fn displaced(body: &[Stmt], locals: usize, depth: usize) -> Vec<Stmt> {
    let mut b: Vec<Stmt> = Vec::new();
    if depth > 0 {
        b.push(st(StmtKind::If(
            bin(BinOp::Gt, var("zz_d"), num(0.0)),
            vec![st(StmtKind::Return(Some(call(var("zz_at"), vec![bin(BinOp::Sub, var("zz_d"), num(1.0))]))))],
            None,
        )));
    }
    for i in 0..locals {
        b.push(st(StmtKind::Var(format!("zz_{}", i), None)));
    }
    b.extend(body.iter().cloned());
    vec![fn_stmt(func("zz_at", &["zz_d"], b)), expr_stmt(call(var("zz_at"), vec![num(depth as f64)]))]
}

pub fn displaced_cases(family: &'static str, corpus: &[crate::mcheck::Case], locals: &[usize], depths: &[usize]) -> Vec<crate::mcheck::Case> {
    let mut out = Vec::new();
    for c in corpus {
        if c.impl_src.is_some() || !c.prelude.is_empty() || c.piecewise {
            continue;
        }
        for &k in locals {
            for &d in depths {
                let mut n = crate::mcheck::Case::new(family, displaced(&c.prog, k, d));
                n.modules = c.modules.clone();
                n.opts = crate::diff::CmpOpts { trace: false, kind: c.opts.kind };
                out.push(n);
            }
        }
    }
    out
}

/// Calls through a wrapper (C06): `f(a, b)` does what `(|x, y| f(x, y))(a, b)` does, and `r.m(a)` what
/// `(|o, x| o.m(x))(r, a)` does - the callee expression is evaluated inside a closure that has captured every
/// variable it mentions, in every function, loop body and try block of the program, so every call site creates
/// a closure over the variables in scope and lets it die again.  The reference evaluator runs the same
/// transformed program (the arguments are now evaluated before the callee expression, and every call is one
/// activation deeper; both are in the transformed source for it to see).
pub fn calls_through_wrappers(body: &[Stmt]) -> Vec<Stmt> {
    WRAP_CALLS.with(|m| m.set(true));
    BLOCK_MODE.with(|m| m.set(4));
    let out = map_block(body, false);
    BLOCK_MODE.with(|m| m.set(0));
    WRAP_CALLS.with(|m| m.set(false));
    out
}

fn wrap_call(f: Expr, args: Vec<Expr>) -> Expr {
    let params: Vec<String> = (0..args.len()).map(|i| format!("zz_a{}", i)).collect();
    let refs: Vec<&str> = params.iter().map(|s| s.as_str()).collect();
    let inner = Expr::Call(Box::new(f), params.iter().map(|p| var(p)).collect());
    Expr::Call(Box::new(Expr::Paren(Box::new(lambda_expr(&refs, inner)))), args)
}

fn wrap_invoke(r: Expr, name: &str, args: Vec<Expr>) -> Expr {
    let mut params: Vec<String> = vec!["zz_o".to_string()];
    params.extend((0..args.len()).map(|i| format!("zz_a{}", i)));
    let refs: Vec<&str> = params.iter().map(|s| s.as_str()).collect();
    let inner = Expr::Invoke(Box::new(var("zz_o")), name.to_string(), params[1..].iter().map(|p| var(p)).collect());
    let mut all = vec![r];
    all.extend(args);
    Expr::Call(Box::new(Expr::Paren(Box::new(lambda_expr(&refs, inner)))), all)
}

pub fn wrapper_cases(family: &'static str, corpus: &[crate::mcheck::Case]) -> Vec<crate::mcheck::Case> {
    let mut out = Vec::new();
    for c in corpus {
        if c.impl_src.is_some() || !c.prelude.is_empty() || c.piecewise {
            continue;
        }
        let mut n = crate::mcheck::Case::new(family, calls_through_wrappers(&c.prog));
        n.modules = c.modules.clone();
        n.opts = crate::diff::CmpOpts { trace: false, kind: c.opts.kind };
        out.push(n);
    }
    out
}
