#![allow(dead_code, unused_mut, unused_variables)]
//! explorer <ID> [--tier quick|thorough] [--replay <file>]
//! Decides verdicts; never links yarel.  Exit 0: property held on everything explored (known findings
//! are printed, not alarms); exit 1: VIOLATION line(s); exit >= 2: machinery failure, no verdict.
mod ast;
mod c01;
mod c02;
mod c03;
mod c04;
mod c05;
mod c06;
mod c07;
mod c08;
mod c09;
mod c10;
mod c11;
mod c12;
mod c13;
mod c14;
mod c15;
mod c16;
mod c17;
mod c18;
mod c19;
mod cli;
mod common;
mod corpus;
mod diff;
mod expect;
mod lexer;
mod mcheck;
mod metamorph;
mod meval;
mod mnat;
mod mresolve;
mod mval;
mod mvm;
mod pool;
mod replay;

use common::*;
use std::path::PathBuf;
use std::time::Instant;

fn main() {
    let args: Vec<String> = std::env::args().collect();
    if args.len() < 2 {
        eprintln!("usage: explorer <ID> [--tier quick|thorough] [--replay file]");
        std::process::exit(2);
    }
    let id = args[1].clone();
    let mut tier = std::env::var("VERIF_TIER").unwrap_or_else(|_| "quick".into());
    let mut replay: Option<String> = None;
    let mut i = 2;
    while i < args.len() {
        match args[i].as_str() {
            "--tier" => {
                tier = args.get(i + 1).cloned().unwrap_or(tier);
                i += 1;
            }
            "--replay" => {
                replay = args.get(i + 1).cloned();
                i += 1;
            }
            _ => {}
        }
        i += 1;
    }
    if tier != "quick" && tier != "thorough" {
        tier = "quick".into();
    }
    // resident-set cap: an engine that outgrows the machine is a machinery failure with a message, not a
    // process killed by the kernel without one
    std::thread::spawn(|| {
        let cap_kb: u64 = std::env::var("VERIF_RSS_CAP_GB").ok().and_then(|s| s.parse::<u64>().ok()).unwrap_or(40) * 1024 * 1024;
        loop {
            std::thread::sleep(std::time::Duration::from_secs(2));
            if let Ok(s) = std::fs::read_to_string("/proc/self/status") {
                if let Some(l) = s.lines().find(|l| l.starts_with("VmRSS:")) {
                    let kb: u64 = l.split_whitespace().nth(1).and_then(|x| x.parse().ok()).unwrap_or(0);
                    if kb > cap_kb {
                        eprintln!("MACHINERY-FAILURE: explorer resident set {} kB exceeds the cap of {} kB (no verdict)", kb, cap_kb);
                        std::process::exit(3);
                    }
                }
            }
        }
    });
    let seed = std::env::var("VERIF_SEED").ok().and_then(|s| s.parse::<i64>().ok()).unwrap_or(0);
    let verif_dir = PathBuf::from(std::env::var("VERIF_DIR").unwrap_or_else(|_| "/verif".into()));
    let target = PathBuf::from(
        std::env::var("VERIF_TARGET").unwrap_or_else(|_| verif_dir.join("harness/target").to_string_lossy().into_owned()),
    );
    let ctx = Ctx {
        id: id.clone(),
        tier,
        seed,
        repo_dir: PathBuf::from(std::env::var("VERIF_REPO").unwrap_or_else(|_| "/repo".into())),
        runner_checked: target.join("debug/runner"),
        runner_opt: target.join("release/runner"),
        verif_dir,
        workers: std::env::var("VERIF_WORKERS").ok().and_then(|s| s.parse().ok()).unwrap_or(16),
        start: Instant::now(),
    };
    if let Some(path) = replay {
        std::process::exit(replay::replay(&ctx, &path));
    }
    let report = match id.as_str() {
        "C01" => c01::run(&ctx),
        "C02" => c02::run(&ctx),
        "C03" => c03::run(&ctx),
        "C04" => c04::run(&ctx),
        "C05" => c05::run(&ctx),
        "C06" => c06::run(&ctx),
        "C07" => c07::run(&ctx),
        "C08" => c08::run(&ctx),
        "C09" => c09::run(&ctx),
        "C10" => c10::run(&ctx),
        "C11" => c11::run(&ctx),
        "C12" => c12::run(&ctx),
        "C13" => c13::run(&ctx),
        "C14" => c14::run(&ctx),
        "C15" => c15::run(&ctx),
        "C16" => c16::run(&ctx),
        "C17" => c17::run(&ctx),
        "C18" => c18::run(&ctx),
        "C19" => c19::run(&ctx),
        _ => {
            eprintln!("unknown property id {}", id);
            std::process::exit(2);
        }
    };
    // the witnesses of this property's repaired findings are re-run by every check (the checks that attribute
    // cases to open findings have done so already)
    let mut report = report;
    if !["C01", "C02", "C04", "C08", "C09", "C14", "C15", "C17"].contains(&id.as_str()) {
        let _ = active_findings(&ctx, &mut report);
    }
    std::process::exit(finish(&ctx, report));
}
