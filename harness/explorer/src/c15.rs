//! C15 — an interpreter can be reused: failed runs leave no residue.  Explicit-state BFS over snippet
//! histories with the reference M-repl (only completed definitions and loaded modules survive).
use crate::common::*;
use crate::expect::{self, Expect};
use proto::Request;
use serde_json::json;
use std::collections::{BTreeMap, HashSet, VecDeque};

#[derive(Clone, Debug, PartialEq, Eq, Hash, Default)]
struct St {
    g: Option<i64>,
    f: bool,
    k: bool,
    h: bool,
    t: bool,
    fj: bool,
    /// 0 undefined, 1 suspended after its first call, 2 finished
    sf: u8,
    /// a chain of two fibers died from an uncaught throw in the inner one
    fo: bool,
    /// closures that escaped from frames discarded by an uncaught throw (plain call / fiber)
    esc: bool,
    escf: bool,
    /// closures that escaped from a fiber / a main-fiber frame that was *waiting* for the fiber that threw
    escw: bool,
    escm: bool,
    m_global: bool,
    /// the global tuple holding a vec is defined
    bk: bool,
    m_loaded: bool,
    m_v: i64,
    /// the module whose body throws was imported (and failed) since the last reset: what a further import
    /// of it yields is not defined by the property (X) - only that it does not panic
    thrower_failed: bool,
}

fn initial() -> St {
    St { m_v: 10, ..Default::default() }
}

const SNIPPETS: &[(&str, &str)] = &[
    ("define_g", "var g = 1;\nprint(g);\n"),
    ("bump_g", "g = g + 1;\nprint(g);\n"),
    ("define_f", "fn f() { return \"f\"; }\nprint(f());\n"),
    ("use_f", "print(f());\n"),
    ("define_K", "#[constructor(new)]\nclass K { fn m(self) { return \"K.m\"; } }\nprint(K.new().m());\n"),
    ("use_K", "print(K.new().m());\n"),
    ("compile_error", "var = ;\n"),
    ("define_h_then_throw", "var h = \"h done\";\nthrow \"top\";\n"),
    ("throw_two_calls_deep", "fn t2() { throw \"deep\"; }\nfn t1() { t2(); }\nt1();\nprint(\"not reached\");\n"),
    ("use_h_t", "print(h);\nprint(t1);\n"),
    ("throw_in_fiber", "var fj = Fiber.new(|| { throw \"in fiber\"; });\nfj.call();\n"),
    ("throw_in_try_finally", "try { throw \"tf\"; } finally { print(\"fin\"); }\nprint(\"not reached\");\n"),
    ("error_while_class_half_declared", "#[derive(nope)]\nclass Bad { fn m(self) {} }\n"),
    ("failing_builtin_in_method", "#[constructor(new)]\nclass Z { fn m(self) { return [][3]; } }\nZ.new().m();\n"),
    ("probe_try_finally", "try { print(\"t\"); } finally { print(\"f\"); }\nprint(\"after\");\n"),
    ("probe_try_catch", "try { throw \"x\"; } catch e { print(e); }\nprint(\"after\");\n"),
    ("probe_class_and_loop", "class P { fn m(self) { return 1; } }\nvar n = 0;\nfor i in 0..3 { n += i; }\nprint(n);\n"),
    ("make_suspended_fiber", "var sf = Fiber.new(|| { try { Fiber.yield(1); } finally { print(\"sf finally\"); } return 2; });\nprint(sf.call());\n"),
    ("resume_fiber", "print(sf.call());\nprint(sf.has_finished());\n"),
    ("probe_dead_fiber", "print(fj.has_finished());\nfj.call();\n"),
    ("throw_through_two_fibers", "var fi = Fiber.new(|| { throw \"inner fiber\"; });\nvar fo = Fiber.new(|| { fi.call(); print(\"not reached\"); });\nfo.call();\n"),
    ("probe_dead_fiber_chain", "print(fi.has_finished());\nprint(fo.has_finished());\nfo.call();\n"),
    ("closure_escapes_then_throw", "var esc = nil;\nfn mk() { var x = \"kept\"; esc = || x; throw \"after escape\"; }\nmk();\n"),
    ("closure_escapes_in_fiber_then_throw", "var escf = nil;\nFiber.new(|| { var y = \"kept in fiber\"; escf = || y; throw \"after escape in fiber\"; }).call();\n"),
    ("closure_escapes_from_waiting_fiber_then_inner_throws", "var escw = nil;\nvar fow = Fiber.new(|| { var z = [1, 2, 3]; escw = || z; var fiw = Fiber.new(|| { throw \"inner of waiting\"; }); fiw.call(); });\nfow.call();\n"),
    ("closure_escapes_from_waiting_main_frame_then_fiber_throws", "var escm = nil;\nfn holder() { var q = {\"held\": \"by main\"}; escm = || q; Fiber.new(|| { throw \"inner of main\"; }).call(); }\nholder();\n"),
    ("probe_escaped_closures", "var junk = [];\nfor i in 0..40 { junk.push(\"s${i}\"); }\ntry { print(esc()); } catch e { print(type(e)); }\ntry { print(escf()); } catch e { print(type(e)); }\ntry { print(escw()); } catch e { print(type(e)); }\ntry { print(escm()); } catch e { print(type(e)); }\n"),
    ("assign_undefined_global", "ug1 = 5;\n"),
    ("assign_undefined_global_in_call", "fn setg() { ug2 = [1, 2]; }\nsetg();\n"),
    ("assign_undefined_global_in_fiber", "Fiber.new(|| { ug3 = \"leak\"; }).call();\n"),
    ("var_with_failing_initialiser", "var ug4 = [][3];\n"),
    ("probe_never_defined_globals", "try { print(ug1); } catch e { print(type(e)); }\ntry { print(ug2); } catch e { print(type(e)); }\ntry { print(ug3); } catch e { print(type(e)); }\ntry { print(ug4); } catch e { print(type(e)); }\ntry { print(Bad); } catch e { print(type(e)); }\ntry { ug1 = 1; } catch e { print(type(e)); }\n"),
    ("probe_every_built_in_name", CENSUS),
    ("define_a_tuple_that_cannot_be_a_key", "var bk = ([1], 2);\nprint(bk);\n"),
    ("use_it_as_a_key_uncaught", "var zzh = {\"other\": 1};\nzzh.insert(bk, 1);\nprint(\"not reached\");\n"),
    ("probe_the_tuple", "print(bk);\nprint((bk, 3));\nvar zze = {};\ntry { zze.insert(bk, 1); } catch e { print(type(e)); }\nprint(bk == ([1], 2));\n"),
    ("import_m", "import \"m\";\nprint(m.v);\n"),
    ("bump_m", "m.v = m.v + 1;\nprint(m.v);\n"),
    ("import_m_then_fail", "import \"m\";\nm.v = m.v + 1;\nprint(m.v);\nprint(zz_never_defined);\n"),
    ("import_m_in_a_function_then_fail", "fn zz_imp() { import \"m\"; m.v = m.v + 1; print(m.v); throw \"in zz_imp\"; }\nzz_imp();\n"),
    ("import_uncompilable_module", "import \"badsyn\";\nprint(\"not reached\");\n"),
    ("import_module_whose_body_throws", "import \"thrower\";\nprint(\"not reached\");\n"),
    ("probe_failed_imports", "try { print(badsyn); } catch e { print(type(e)); }\ntry { print(thrower); } catch e { print(type(e)); }\ntry { print(before); } catch e { print(type(e)); }\n"),
    ("reset", "\u{0}reset"),
];

/// one line per name the interpreter defines before a program runs (also after a reset, also after failed
/// snippets): its value, or "missing <name>"
const CENSUS: &str = "try { print(clock); } catch e { print(\"missing clock\"); }\ntry { print(type); } catch e { print(\"missing type\"); }\ntry { print(print); } catch e { print(\"missing print\"); }\ntry { print(Type); } catch e { print(\"missing Type\"); }\ntry { print(Object); } catch e { print(\"missing Object\"); }\ntry { print(Nil); } catch e { print(\"missing Nil\"); }\ntry { print(Bool); } catch e { print(\"missing Bool\"); }\ntry { print(Num); } catch e { print(\"missing Num\"); }\ntry { print(Func); } catch e { print(\"missing Func\"); }\ntry { print(BuiltIn); } catch e { print(\"missing BuiltIn\"); }\ntry { print(Method); } catch e { print(\"missing Method\"); }\ntry { print(BuiltInMethod); } catch e { print(\"missing BuiltInMethod\"); }\ntry { print(String); } catch e { print(\"missing String\"); }\ntry { print(Iter); } catch e { print(\"missing Iter\"); }\ntry { print(Tuple); } catch e { print(\"missing Tuple\"); }\ntry { print(Vec); } catch e { print(\"missing Vec\"); }\ntry { print(Range); } catch e { print(\"missing Range\"); }\ntry { print(HashMap); } catch e { print(\"missing HashMap\"); }\ntry { print(Fiber); } catch e { print(\"missing Fiber\"); }\ntry { print(Error); } catch e { print(\"missing Error\"); }\ntry { print(StopIter); } catch e { print(\"missing StopIter\"); }\ntry { print(RuntimeError); } catch e { print(\"missing RuntimeError\"); }\ntry { print(AttributeError); } catch e { print(\"missing AttributeError\"); }\ntry { print(IndexError); } catch e { print(\"missing IndexError\"); }\ntry { print(ImportError); } catch e { print(\"missing ImportError\"); }\ntry { print(NameError); } catch e { print(\"missing NameError\"); }\ntry { print(TypeError); } catch e { print(\"missing TypeError\"); }\ntry { print(ValueError); } catch e { print(\"missing ValueError\"); }\ntry { print(MapIter); } catch e { print(\"missing MapIter\"); }\ntry { print(FilterIter); } catch e { print(\"missing FilterIter\"); }\n";

fn census_lines() -> Vec<String> {
    crate::c14::BUILTIN_NAMES
        .iter()
        .map(|n| match *n {
            "clock" | "type" | "print" => format!("<built-in fn {}>", n),
            "Bool" => "<class Boolean>".to_string(),
            other => format!("<class {}>", other),
        })
        .collect()
}


/// Histories a program can start from.  Every one ends in a failure or leaves something behind inside the
/// interpreter (a suspended fiber, a dead fiber chain, a half-run statement); none defines a name the corpus
/// programs use.  ("\u{0}reset" is the runner's pseudo-snippet for `Vm::reset`.)
pub const HISTORIES: &[(&str, &[&str])] = &[
    ("uncaught_throw_at_top_level", &["throw \"top\";\n"]),
    ("uncaught_throw_two_calls_deep", &["fn zt2() { throw \"deep\"; }\nfn zt1() { zt2(); }\nzt1();\n"]),
    ("uncaught_throw_in_a_fiber", &["Fiber.new(|| { throw \"in fiber\"; }).call();\n"]),
    ("uncaught_throw_through_two_fibers", &["var zfi = Fiber.new(|| { throw \"inner fiber\"; });\nvar zfo = Fiber.new(|| { zfi.call(); });\nzfo.call();\n"]),
    ("uncaught_throw_through_a_finally_block", &["try { throw \"tf\"; } finally { print(\"fin\"); }\n"]),
    ("uncaught_error_raised_in_a_finally_block_running_for_an_exception", &["fn zq() { try { try { throw \"x\"; } finally { [][3]; } } finally { print(\"f2\"); } }\nzq();\n"]),
    ("uncaught_throw_from_a_finally_block_with_a_return_waiting", &["fn zr() { try { return 1; } finally { throw \"in finally\"; } }\nzr();\n"]),
    ("uncaught_rethrow_from_a_catch_block_in_a_loop", &["for i in 0..3 { try { throw i; } catch e { throw e; } }\n"]),
    ("uncaught_throw_after_continue_left_finally_blocks_with_exceptions_waiting", &["fn zw() { for i in 0..2 { try { throw \"p\"; } finally { continue; } } throw \"end\"; }\nzw();\n"]),
    ("uncaught_throw_from_a_catch_block_with_its_finally_waiting", &["try { throw \"a\"; } catch e { throw \"b\"; } finally { print(\"fin\"); }\n"]),
    ("compile_error", &["var = ;\n"]),
    ("error_while_a_class_is_half_declared", &["#[derive(zznope)]\nclass ZBad { fn m(self) {} }\n"]),
    ("error_in_a_method_of_a_class_declared_in_a_function", &["fn zmk() { #[constructor(new)]\nclass ZZ { fn m(self) { return [][3]; } }\nreturn ZZ.new().m(); }\nzmk();\n"]),
    ("uncaught_call_stack_overflow", &["fn zrec(n) { return zrec(n + 1); }\nzrec(0);\n"]),
    ("uncaught_error_with_an_unfinished_literal_on_the_stack", &["var zv = [1, 2, (3, [][5]), 4];\n"]),
    ("uncaught_error_inside_an_interpolation_inside_a_call", &["fn zid(a, b) { return a; }\nprint(zid(1, \"a${[][3]}b\"));\n"]),
    ("uncaught_error_in_a_callback_of_a_library_function", &["[1, 2, 3].iter().map(|x| { throw \"cb\"; }).collect();\n"]),
    ("uncaught_error_in_a_reduce_callback_inside_a_for_loop", &["for zz in [1, 2] { [1, 2, 3].iter().reduce(|a, b| a + nil, 0); }\n"]),
    ("yield_outside_any_fiber", &["Fiber.yield(1);\n"]),
    ("a_fiber_left_suspended_inside_try_finally", &["var zsf = Fiber.new(|| { try { Fiber.yield(1); } finally { print(\"sf finally\"); } return 2; });\nprint(zsf.call());\n"]),
    ("a_fiber_suspended_in_a_callee_of_a_fiber_then_an_uncaught_throw", &["var zin = Fiber.new(|| { Fiber.yield(1); Fiber.yield(2); });\nvar zout = Fiber.new(|| { zin.call(); Fiber.yield(\"o\"); zin.call(); throw \"outer dies\"; });\nzout.call();\nzout.call();\n"]),
    ("a_closure_escaped_from_a_frame_discarded_by_an_uncaught_throw", &["var zesc = nil;\nfn zmk2() { var x = \"kept\"; zesc = || x; throw \"after escape\"; }\nzmk2();\n"]),
    ("failed_import_of_a_missing_module", &["import \"zz_no_such_module\";\n"]),
    ("failed_import_of_a_module_that_does_not_compile", &["import \"zz_badsyn\";\n"]),
    ("uncaught_throw_then_reset", &["fn zt3() { try { throw \"deep\"; } finally { print(\"f\"); } }\nzt3();\n", "\u{0}reset"]),
    ("two_failed_runs", &["fn zr2() { try { return 1; } finally { throw \"in finally\"; } }\nzr2();\n", "Fiber.new(|| { try { throw \"in fiber\"; } finally { print(\"ff\"); } }).call();\n"]),
    ("uncaught_error_in_a_for_loop_over_a_user_iterator_inside_try_finally", &["#[constructor(new)]\nclass ZIt { fn iter(self) { return self; } fn next(self) { return [][7]; } }\nfn zloop() { try { for x in ZIt.new() { print(x); } } finally { print(\"lf\"); } }\nzloop();\n"]),
    ("assignment_to_an_undefined_global_in_a_fiber", &["Fiber.new(|| { zzug = 1; }).call();\n"]),
];

/// Programs of the other properties' corpora, each started from every history above on one interpreter:
/// the program must print and end as M-eval says it does on a new interpreter (the differential form of
/// "failed runs leave no residue": the state reached from elsewhere against the state reached from the
/// initial state, with every construct of the language as the probe).
fn after_history_cases(thorough: bool) -> Vec<crate::mcheck::Case> {
    use crate::mcheck::Case;
    let mut corpus: Vec<Case> = Vec::new();
    for n in crate::c08::nests_of_depth(1) {
        corpus.push(Case::new("after_history", crate::c08::program(&[n])));
    }
    corpus.extend(crate::c08::reentered_after_abrupt_finally_exit());
    corpus.extend(crate::c08::recursion_from_finally().into_iter().step_by(if thorough { 1 } else { 4 }));
    corpus.extend(crate::c08::loop_with_pair_cases().into_iter().step_by(if thorough { 7 } else { 70 }));
    corpus.extend(crate::c06::cases_for_c04(false).into_iter().step_by(if thorough { 3 } else { 24 }));
    corpus.extend(crate::c07::cases_for_c04(false).into_iter().step_by(if thorough { 5 } else { 60 }));
    corpus.extend(crate::c18::cases_for_c04(false).into_iter().step_by(if thorough { 2 } else { 9 }));
    corpus.extend(crate::c05::cases_for_c04(false).into_iter().step_by(if thorough { 11 } else { 130 }));
    corpus.extend(crate::c17::cases_for_c01(false).into_iter().step_by(if thorough { 1 } else { 9 }));
    if thorough {
        for n in crate::c08::nests_of_depth(2).into_iter().step_by(5) {
            corpus.push(Case::new("after_history", crate::c08::program(&[n])));
        }
    }
    let mut out = Vec::new();
    for (_, hist) in HISTORIES {
        for c in &corpus {
            let mut k = Case::new("program_after_history", c.prog.clone());
            k.modules = c.modules.clone();
            k.modules.insert("zz_badsyn".to_string(), crate::meval::ModuleSource { program: None, compile_error: true });
            k.opts = c.opts;
            k.note = c.note.clone();
            k.prelude = hist.iter().map(|s| s.to_string()).collect();
            out.push(k);
        }
    }
    out
}


/// The embedding's side of reuse.  (a) Programs run under a module name of the host's choosing
/// (`interpret(vm, source, Some(name))`): what a run completed before it failed persists, as for "main".
/// (b) Reading a global of a module that was never imported finds nothing and changes nothing: the module
/// can still be imported afterwards, once.
fn host_side_histories() -> Vec<Expect> {
    let h = "\u{0}host:";
    let mut out = Vec::new();
    let mk = |snippets: Vec<String>, outs: Vec<Vec<&str>>, ends: Vec<&str>, d: serde_json::Value| -> Expect {
        let mut modules = BTreeMap::new();
        modules.insert("zz_lib".to_string(), "print(\"load zz_lib\");\nvar answer = 42;\n".to_string());
        Expect {
            family: "host_side_histories",
            request: Request { op: "run".into(), snippets, modules, fuel: Some(1_000_000), ..Default::default() },
            out: outs.into_iter().map(|v| v.into_iter().map(|x| x.to_string()).collect()).collect(),
            end: ends.into_iter().map(|x| x.to_string()).collect(),
            describe: d,
            nontrivial: true,
        }
    };
    for failing in ["throw 1;", "var z = [][3];", "fn g() { throw \"deep\"; }\ng();", "Fiber.new(|| { throw \"in a fiber\"; }).call();", "try { throw 1; } finally { var w = 2; }"] {
        for module in ["scratch", "main"] {
            out.push(mk(
                vec![
                    format!("{}run_in:{}:var a = 1;\nvar b = a + 1;", h, module),
                    format!("{}show_global:{}:b", h, module),
                    format!("{}run_in:{}:fn f() {{ return a + 10; }}\nvar before = \"set before the failure\";\n{}", h, module, failing),
                    format!("{}show_global:{}:a", h, module),
                    format!("{}show_global:{}:before", h, module),
                    format!("{}run_in:{}:var c = f();", h, module),
                    format!("{}show_global:{}:c", h, module),
                ],
                vec![vec![], vec!["2"], vec![], vec!["1"], vec!["set before the failure"], vec![], vec!["11"]],
                vec!["ok", "ok", "Unhandled", "ok", "ok", "ok", "ok"],
                json!({"module": module, "failing": failing}),
            ));
        }
    }
    // a look at a module that was never imported
    out.push(mk(
        vec![format!("{}show_global:zz_lib:answer", h), "import \"zz_lib\";\nprint(zz_lib.answer);\n".to_string(), format!("{}show_global:zz_lib:answer", h), "import \"zz_lib\" as again;\nprint(again == zz_lib);\n".to_string()],
        vec![vec!["<no such global>"], vec!["load zz_lib", "42"], vec!["42"], vec!["true"]],
        vec!["ok", "ok", "ok", "ok"],
        json!({"what": "a host's look at a module that was never imported"}),
    ));
    out.push(mk(
        vec![format!("{}show_global:zz_missing:x", h), "try { import \"zz_missing\"; } catch e { print(type(e)); print(e.context); }\n".to_string()],
        vec![vec!["<no such global>"], vec!["<class ImportError>", "Unable to read file 'zz_missing.yl' (file not found)."]],
        vec!["ok", "ok"],
        json!({"what": "a host's look at a module that does not exist"}),
    ));
    out
}

/// (c) A compiled program belongs to the module it was compiled for, whenever and how often it runs: an
/// embedding compiles a program once under a module name of its own, keeps the function and executes it
/// again - straight away, after a reset, after other programs ran (successfully or not), after an import.
/// Every run defines and reads the globals of *its* module and never those of `main`.
pub fn kept_program_histories() -> Vec<Expect> {
    let h = "\u{0}host:";
    let mut out = Vec::new();
    let prog = "var a = 1;\nvar b = a + 1;\nfn f() { return b + 10; }\nvar c = f();\n";
    let betweens: Vec<(&str, Vec<String>, Vec<Vec<&str>>, Vec<&str>, &str)> = vec![
        ("nothing", vec![], vec![], vec![], "<no such global>"),
        ("a reset", vec!["\u{0}reset".to_string()], vec![vec![]], vec!["ok"], "<no such global>"),
        ("two resets", vec!["\u{0}reset".to_string(), "\u{0}reset".to_string()], vec![vec![], vec![]], vec!["ok", "ok"], "<no such global>"),
        ("a main program with globals of the same names", vec!["var a = \"main's a\";\nvar c = \"main's c\";\nprint(a);\n".to_string()], vec![vec!["main's a"]], vec!["ok"], "main's a"),
        ("a reset and a main program with globals of the same names", vec!["\u{0}reset".to_string(), "var a = \"main's a\";\nprint(a);\n".to_string()], vec![vec![], vec!["main's a"]], vec!["ok", "ok"], "main's a"),
        ("a main program that fails", vec!["fn g() { throw \"deep\"; }\ng();\n".to_string()], vec![vec![]], vec!["Unhandled"], "<no such global>"),
        ("an import", vec!["import \"zz_lib\";\nprint(zz_lib.answer);\n".to_string()], vec![vec!["load zz_lib", "42"]], vec!["ok"], "<no such global>"),
        ("a reset and an import", vec!["\u{0}reset".to_string(), "import \"zz_lib\";\nprint(zz_lib.answer);\n".to_string()], vec![vec![], vec!["load zz_lib", "42"]], vec!["ok", "ok"], "<no such global>"),
        ("a program under another module name", vec![format!("{}run_in:other:var a = \"other's a\";", h)], vec![vec![]], vec!["ok"], "<no such global>"),
    ];
    for (what, between, b_out, b_end, main_a) in betweens {
        for module in ["job", "main"] {
            let mut snippets = vec![format!("{}compile_keep_in:{}:{}", h, module, prog), "\u{0}run_kept:0".to_string(), format!("{}show_global:{}:c", h, module)];
            let mut outs: Vec<Vec<&str>> = vec![vec![], vec![], vec!["12"]];
            let mut ends: Vec<&str> = vec!["ok", "ok", "ok"];
            snippets.extend(between.iter().cloned());
            outs.extend(b_out.iter().cloned());
            ends.extend(b_end.iter().cloned());
            snippets.push("\u{0}run_kept:0".to_string());
            outs.push(vec![]);
            ends.push("ok");
            for (name, want) in [("c", "12"), ("b", "2"), ("a", "1")] {
                snippets.push(format!("{}show_global:{}:{}", h, module, name));
                outs.push(vec![want]);
                ends.push("ok");
            }
            if module != "main" {
                snippets.push(format!("{}show_global:main:a", h));
                outs.push(vec![main_a]);
                ends.push("ok");
                snippets.push(format!("{}show_global:main:b", h));
                outs.push(vec!["<no such global>"]);
                ends.push("ok");
            }
            let mut modules = BTreeMap::new();
            modules.insert("zz_lib".to_string(), "print(\"load zz_lib\");\nvar answer = 42;\n".to_string());
            out.push(Expect {
                family: "kept_program_runs_in_its_module",
                request: Request { op: "run".into(), snippets, modules, fuel: Some(1_000_000), ..Default::default() },
                out: outs.into_iter().map(|v| v.into_iter().map(|x| x.to_string()).collect()).collect(),
                end: ends.into_iter().map(|x| x.to_string()).collect(),
                describe: json!({"module": module, "between_the_two_runs": what}),
                nontrivial: true,
            });
        }
    }
    out
}

/// the model: what a snippet prints, how it ends, and the state afterwards
fn step(s: &St, name: &str) -> (St, Vec<String>, String) {
    let mut n = s.clone();
    let ok = "ok".to_string();
    let name_err = |v: &str| format!("Unhandled NameError: Undefined variable '{}'.", v);
    match name {
        "define_g" => {
            n.g = Some(1);
            (n, vec!["1".into()], ok)
        }
        "bump_g" => match s.g {
            Some(v) => {
                n.g = Some(v + 1);
                (n, vec![format!("{}", v + 1)], ok)
            }
            None => (n, vec![], name_err("g")),
        },
        "define_f" => {
            n.f = true;
            (n, vec!["f".into()], ok)
        }
        "use_f" => {
            if s.f {
                (n, vec!["f".into()], ok)
            } else {
                (n, vec![], name_err("f"))
            }
        }
        "define_K" => {
            n.k = true;
            (n, vec!["K.m".into()], ok)
        }
        "use_K" => {
            if s.k {
                (n, vec!["K.m".into()], ok)
            } else {
                (n, vec![], name_err("K"))
            }
        }
        "compile_error" => (n, vec![], "[module \"main\", line 1] Error".into()),
        "define_h_then_throw" => {
            n.h = true;
            (n, vec![], "Unhandled exception: top".into())
        }
        "throw_two_calls_deep" => {
            n.t = true;
            (n, vec![], "Unhandled exception: deep".into())
        }
        "use_h_t" => {
            if !s.h {
                (n, vec![], name_err("h"))
            } else if !s.t {
                (n, vec!["h done".into()], name_err("t1"))
            } else {
                (n, vec!["h done".into(), "<fn t1 @ [ADDR]>".into()], ok)
            }
        }
        "throw_in_fiber" => {
            n.fj = true;
            (n, vec![], "Unhandled exception: in fiber".into())
        }
        "throw_in_try_finally" => (n, vec!["fin".into()], "Unhandled exception: tf".into()),
        "error_while_class_half_declared" => (n, vec![], name_err("nope")),
        "failing_builtin_in_method" => (n, vec![], "Unhandled IndexError".into()),
        "probe_try_finally" => (n, vec!["t".into(), "f".into(), "after".into()], ok),
        "probe_try_catch" => (n, vec!["x".into(), "after".into()], ok),
        "probe_class_and_loop" => (n, vec!["3".into()], ok),
        "make_suspended_fiber" => {
            n.sf = 1;
            (n, vec!["1".into()], ok)
        }
        "resume_fiber" => match s.sf {
            0 => (n, vec![], name_err("sf")),
            1 => {
                n.sf = 2;
                (n, vec!["sf finally".into(), "2".into(), "true".into()], ok)
            }
            _ => (n, vec![], "Unhandled RuntimeError: Cannot call a finished fiber.".into()),
        },
        "probe_dead_fiber" => {
            if s.fj {
                (n, vec!["true".into()], "Unhandled RuntimeError: Cannot call a finished fiber.".into())
            } else {
                (n, vec![], name_err("fj"))
            }
        }
        "throw_through_two_fibers" => {
            n.fo = true;
            (n, vec![], "Unhandled exception: inner fiber".into())
        }
        "probe_dead_fiber_chain" => {
            if s.fo {
                (n, vec!["true".into(), "true".into()], "Unhandled RuntimeError: Cannot call a finished fiber.".into())
            } else {
                (n, vec![], name_err("fi"))
            }
        }
        "closure_escapes_then_throw" => {
            n.esc = true;
            (n, vec![], "Unhandled exception: after escape".into())
        }
        "closure_escapes_in_fiber_then_throw" => {
            n.escf = true;
            (n, vec![], "Unhandled exception: after escape in fiber".into())
        }
        "closure_escapes_from_waiting_fiber_then_inner_throws" => {
            n.escw = true;
            (n, vec![], "Unhandled exception: inner of waiting".into())
        }
        "closure_escapes_from_waiting_main_frame_then_fiber_throws" => {
            n.escm = true;
            (n, vec![], "Unhandled exception: inner of main".into())
        }
        "probe_escaped_closures" => {
            let ne = "<class NameError>".to_string();
            let out = vec![
                if s.esc { "kept".to_string() } else { ne.clone() },
                if s.escf { "kept in fiber".to_string() } else { ne.clone() },
                if s.escw { "[1, 2, 3]".to_string() } else { ne.clone() },
                if s.escm { "{held: by main}".to_string() } else { ne.clone() },
            ];
            (n, out, ok)
        }
        "assign_undefined_global" => (n, vec![], name_err("ug1")),
        "assign_undefined_global_in_call" => (n, vec![], name_err("ug2")),
        "assign_undefined_global_in_fiber" => (n, vec![], name_err("ug3")),
        "var_with_failing_initialiser" => (n, vec![], "Unhandled IndexError".into()),
        "probe_never_defined_globals" => (n, vec!["<class NameError>".to_string(); 6], ok),
        "probe_every_built_in_name" => (n, census_lines(), ok),
        "import_m" => {
            let mut out = Vec::new();
            if !s.m_loaded {
                out.push("load m".to_string());
            }
            n.m_loaded = true;
            n.m_global = true;
            out.push(format!("{}", s.m_v));
            (n, out, ok)
        }
        "define_a_tuple_that_cannot_be_a_key" => {
            n.bk = true;
            (n, vec!["([1], 2)".into()], ok)
        }
        "use_it_as_a_key_uncaught" => {
            if s.bk {
                (n, vec![], "Unhandled ValueError".into())
            } else {
                (n, vec![], name_err("bk"))
            }
        }
        "probe_the_tuple" => {
            if s.bk {
                (n, vec!["([1], 2)".into(), "(([1], 2), 3)".into(), "<class ValueError>".into(), "true".into()], ok)
            } else {
                (n, vec![], name_err("bk"))
            }
        }
        "import_m_then_fail" | "import_m_in_a_function_then_fail" => {
            // what the snippet completed before it failed stays: the module is loaded (once), its state
            // changed, and - at top level - the name is bound
            let mut out = Vec::new();
            if !s.m_loaded {
                out.push("load m".to_string());
            }
            n.m_loaded = true;
            n.m_v = s.m_v + 1;
            out.push(format!("{}", s.m_v + 1));
            if name == "import_m_then_fail" {
                n.m_global = true;
                (n, out, name_err("zz_never_defined"))
            } else {
                (n, out, "Unhandled exception: in zz_imp".into())
            }
        }
        "bump_m" => {
            if s.m_global {
                n.m_v = s.m_v + 1;
                (n, vec![format!("{}", s.m_v + 1)], ok)
            } else {
                (n, vec![], name_err("m"))
            }
        }
        // a module that does not compile fails the same way every time it is imported
        "import_uncompilable_module" => (n, vec![], "Unhandled ImportError: Error compiling module:".into()),
        // a module whose body throws is not loaded: every attempt runs the body and ends the same way
        "import_module_whose_body_throws" => (n, vec![], "Unhandled exception: module body".into()),
        "probe_failed_imports" => (n, vec!["<class NameError>".to_string(); 3], ok),
        "reset" => (initial(), vec![], ok),
        _ => unreachable!(),
    }
}

pub fn run(ctx: &Ctx) -> Report {
    let mut report = Report::new();
    let active = active_findings(ctx, &mut report);
    let thorough = ctx.thorough();
    let depth = if thorough { 8 } else { 5 };
    let mut modules = BTreeMap::new();
    modules.insert("m".to_string(), "print(\"load m\");\nvar v = 10;\n".to_string());
    modules.insert("badsyn".to_string(), "var a = 1;\nvar b = ;\n".to_string());
    modules.insert("thrower".to_string(), "var before = 1;\nthrow \"module body\";\n".to_string());

    let mut seen: HashSet<St> = HashSet::new();
    let mut queue: VecDeque<(St, Vec<&'static str>, Vec<Vec<String>>, Vec<String>)> = VecDeque::new();
    seen.insert(initial());
    queue.push_back((initial(), vec![], vec![], vec![]));
    let mut cases: Vec<Expect> = Vec::new();
    let mut states = 1usize;
    let mut transitions = 0usize;
    let mut max_depth = 0;
    // bound on the counters so the state space stays finite
    let bounded = |s: &St| s.g.unwrap_or(0) <= 3 && s.m_v <= 12;
    while let Some((s, path, outs, ends)) = queue.pop_front() {
        max_depth = max_depth.max(path.len());
        if path.len() >= depth {
            continue;
        }
        for (name, _) in SNIPPETS {
            let (n, out, end) = step(&s, name);
            if !bounded(&n) {
                continue;
            }
            transitions += 1;
            let mut p2 = path.clone();
            p2.push(*name);
            let mut o2 = outs.clone();
            o2.push(out);
            let mut e2 = ends.clone();
            e2.push(end);
            let snippets: Vec<String> = p2.iter().map(|nm| SNIPPETS.iter().find(|(k, _)| k == nm).unwrap().1.to_string()).collect();
            cases.push(Expect {
                family: "history_replay",
                request: Request { op: "run".into(), snippets, modules: modules.clone(), fuel: Some(1_000_000), gc: Some(proto::GcSpec { mode: "default".into(), only: vec![], quarantine: true }), want: vec!["uaf".into()], ..Default::default() },
                out: o2.clone(),
                end: e2.clone(),
                describe: json!({"history": p2}),
                nontrivial: p2.len() >= 2 && e2.iter().any(|e| e != "ok"),
            });
            if seen.insert(n.clone()) {
                states += 1;
                queue.push_back((n, p2, o2, e2));
            }
        }
    }
    // The search above merges histories that lead to the same *model* state and replays one of them; a
    // snippet that leaves the model state unchanged (every failing one) is therefore never followed by
    // anything in a replay.  Second family without merging: every history up to length 3 (4) over the
    // whole alphabet, so every snippet is run after every snippet (pair).
    {
        let plain = if thorough { 4 } else { 3 };
        let mut frontier: Vec<(St, Vec<&'static str>, Vec<Vec<String>>, Vec<String>)> = vec![(initial(), vec![], vec![], vec![])];
        for _ in 0..plain {
            let mut next = Vec::new();
            for (s, path, outs, ends) in &frontier {
                for (name, _) in SNIPPETS {
                    let (n, out, end) = step(s, name);
                    let mut p2 = path.clone();
                    p2.push(*name);
                    let mut o2 = outs.clone();
                    o2.push(out);
                    let mut e2 = ends.clone();
                    e2.push(end);
                    let snippets: Vec<String> = p2.iter().map(|nm| SNIPPETS.iter().find(|(k, _)| k == nm).unwrap().1.to_string()).collect();
                    cases.push(Expect {
                        family: "every_history_without_merging",
                        request: Request { op: "run".into(), snippets, modules: modules.clone(), fuel: Some(1_000_000), gc: Some(proto::GcSpec { mode: "default".into(), only: vec![], quarantine: true }), want: vec!["uaf".into()], ..Default::default() },
                        out: o2.clone(),
                        end: e2.clone(),
                        describe: json!({"history": p2}),
                        nontrivial: p2.len() >= 2 && e2.iter().any(|e| e != "ok"),
                    });
                    next.push((n, p2, o2, e2));
                }
            }
            frontier = next;
        }
    }
    // after a reset any continuation equals its run on a new interpreter: the model says so by
    // construction (reset -> initial state); additionally every single snippet right after
    // <failing snippet>, reset
    let n_cases = cases.len();
    let stats = expect::run_expect(ctx, &ctx.runner_checked, cases.into_iter(), &|_e, r| if r.uaf.is_empty() { None } else { Some(format!("use after free: {:?}", r.uaf)) }, &|_e, _p| None);
    expect::fill(
        &mut report,
        &stats,
        "breadth-first search over histories of snippets fed to one interpreter, with canonical reference state (surviving globals, functions, classes, fiber objects, loaded modules); alphabet of 44 snippets: definitions and uses, a compile error, uncaught throws at top level / two calls deep / inside a fiber / inside try-finally / while a class is half-declared / from a built-in inside a method, clean try/finally, try/catch and class+loop probes, a fiber left suspended inside try/finally and resumed by a later snippet, probes of a fiber that died from an uncaught throw and of a chain of two such fibers (both must be finished), closures that escaped into globals from a call frame / a fiber discarded by an uncaught throw - the throwing one, and a fiber or a main-fiber frame that was waiting for it - and are called later (swept objects quarantined: any touch of freed memory is a violation), assignments to undefined globals that end the snippet (top level, in a call, in a fiber) and a `var` whose initialiser fails, with a probe that none of those names came into being, import and module mutation, a snippet that imports a module (at top level, inside a function), changes its state and then fails, a global tuple that holds a vec, offered as a map key by a snippet that ends in the ValueError and printed / offered again later, imports that fail (a module that does not compile: the same ImportError every time; a module whose body throws: the thrown value at every attempt, the module is not loaded) with a probe that they bound nothing, a probe of every one of the 30 built-in names, reset. Every transition is replayed as the shortest history reaching its source state plus the snippet, on a fresh real interpreter; each snippet's printed lines and outcome must equal the model's; no snippet may panic. Because that search merges histories by model state, a second family runs every history up to length 3 (4) over the whole alphabet without merging, so that every snippet - in particular every failing one, which leaves the model state unchanged - is followed by every other.",
        json!({"history_length": depth, "snippets": SNIPPETS.len()}),
    );
    report.cov("states", json!(states));
    report.cov("transitions", json!(transitions));
    report.cov("traces_validated_against_impl", json!(n_cases));
    report.cov("max_depth", json!(max_depth));
    report.assumptions = vec!["counters are bounded (g <= 3, m.v <= 12) to keep the state space finite".into()];
    record_known(&mut report, &active, &stats.attributed);
    report.violations.extend(stats.violations);
    // second engine: corpus programs started from every history
    {
        let hooks = crate::mcheck::Hooks { attribute: &|_c, _m, _o, _mm| None, nontrivial: &|_c, _m| true, fuel: 2_000_000 };
        let cases = after_history_cases(thorough);
        let n = cases.len();
        let st = crate::mcheck::run(ctx, cases.into_iter(), &hooks);
        report.cov(
            "programs_after_histories",
            json!({
                "rule": "every program of a corpus drawn from the other properties' generators (all C08 nests of depth 1, re-entered try statements, recursion from finally blocks, and strided selections of the C05 statement/expression, C06 closure, C07 class, C17 error-report, C18 iteration and C08 loop-with-pair programs) is run as the last snippet on an interpreter that first went through each history of the list; its printed lines and outcome must equal what M-eval gives for the program on its own, and no snippet may panic",
                "histories": HISTORIES.iter().map(|(n, _)| *n).collect::<Vec<_>>(),
                "cases": n,
                "distinct_programs": st.distinct.len(),
                "executions": st.executions,
                "model_ok": st.model_ok,
                "model_uncaught_error": st.model_uncaught,
                "skipped_outside_model": st.unsupported,
                "distinct_model_outcomes": st.outcome_signatures.len(),
            }),
        );
        if st.unsupported * 10 > n {
            crate::pool::machinery_failure("programs_after_histories: more than a tenth of the corpus is outside the model");
        }
        report.violations.extend(st.violations);
    }
    {
        let mut cases = host_side_histories();
        cases.extend(kept_program_histories());
        let n = cases.len();
        let st = expect::run_expect(ctx, &ctx.runner_checked, cases.into_iter(), &|_e, _r| None, &|_e, _p| None);
        report.cov("host_side_histories", json!(n));
        report.violations.extend(st.violations);
    }
    // third engine: programs fed one top-level statement at a time
    {
        let hooks = crate::mcheck::Hooks { attribute: &|_c, _m, _o, _mm| None, nontrivial: &|c, _m| c.prog.len() >= 3, fuel: 2_000_000 };
        let corpus = crate::metamorph::standard_corpus(if thorough { 1 } else { 4 });
        let cases = crate::metamorph::piecewise_cases("program_fed_one_statement_at_a_time", &corpus);
        let n = cases.len();
        let st = crate::mcheck::run(ctx, cases.into_iter(), &hooks);
        report.cov(
            "programs_fed_piecewise",
            json!({
                "rule": "metamorphic (the REPL law): every program of the standard corpus (C05/C06/C07/C08/C18 generators) that has at least two top-level statements is fed to one interpreter one top-level statement at a time, each a run of its own; the printed lines up to and including the first run that does not end normally, and that run's outcome, must be what M-eval gives for the whole program",
                "cases": n, "executions": st.executions, "distinct": st.distinct.len(), "model_ok": st.model_ok, "model_uncaught_error": st.model_uncaught, "skipped_outside_model": st.unsupported,
            }),
        );
        report.violations.extend(st.violations);
    }
    report
}
