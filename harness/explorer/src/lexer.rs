//! M-lex: a reference lexer for Yarel source, written from the language's evident token rules
//! (maximal munch; `digits ('.' digits)?` numbers; strings with `${...}` interpolation).  Used to cut
//! corpus files into tokens for C03's token-level mutants and as the oracle of C19's look-ahead family.
#[derive(Clone, Debug, PartialEq)]
pub struct Tok {
    pub kind: &'static str,
    pub start: usize,
    pub end: usize,
    pub line: usize,
}

const KEYWORDS: &[&str] = &[
    "as", "break", "catch", "class", "continue", "else", "false", "finally", "for", "fn", "if", "in",
    "import", "nil", "return", "Self", "self", "super", "throw", "true", "try", "var", "while",
];

fn is_alpha(c: char) -> bool {
    c.is_ascii_alphabetic() || c == '_'
}

/// Tokenise; never fails (unknown characters become "error" tokens, an unterminated string ends at EOF).
pub fn lex(src: &str) -> Vec<Tok> {
    let b: Vec<(usize, char)> = src.char_indices().collect();
    let n = b.len();
    let pos_of = |i: usize| if i < n { b[i].0 } else { src.len() };
    let mut toks = Vec::new();
    let mut i = 0;
    let mut line = 1;
    // interpolation nesting: brace counters, as the scanner keeps them
    let mut parens: Vec<usize> = Vec::new();
    // scan a string body starting at char index i (after the opening quote or the closing brace of an
    // interpolation); returns (kind, new index)
    fn string_body(b: &[(usize, char)], mut i: usize, line: &mut usize, parens: &mut Vec<usize>) -> (&'static str, usize) {
        let n = b.len();
        while i < n && b[i].1 != '"' {
            let c = b[i].1;
            i += 1;
            match c {
                '$' => {
                    if i < n && b[i].1 == '{' {
                        i += 1;
                        parens.push(1);
                        return ("interpolation", i);
                    } else {
                        if i < n {
                            i += 1;
                        }
                        return ("error", i);
                    }
                }
                '\\' => {
                    if i < n {
                        i += 1;
                    }
                }
                '\n' => *line += 1,
                _ => {}
            }
        }
        if i >= n {
            return ("error", i);
        }
        ("str", i + 1)
    }
    while i < n {
        let c = b[i].1;
        if c == '\n' {
            line += 1;
            i += 1;
            continue;
        }
        if c == ' ' || c == '\r' || c == '\t' {
            i += 1;
            continue;
        }
        if c == '/' && i + 1 < n && b[i + 1].1 == '/' {
            while i < n && b[i].1 != '\n' {
                i += 1;
            }
            continue;
        }
        let start = i;
        let start_line = line;
        let kind: &'static str;
        if is_alpha(c) {
            while i < n && (is_alpha(b[i].1) || b[i].1.is_ascii_digit()) {
                i += 1;
            }
            let text = &src[pos_of(start)..pos_of(i)];
            kind = if KEYWORDS.contains(&text) { "keyword" } else { "ident" };
        } else if c.is_ascii_digit() {
            while i < n && b[i].1.is_ascii_digit() {
                i += 1;
            }
            if i + 1 < n && b[i].1 == '.' && b[i + 1].1.is_ascii_digit() {
                i += 1;
                while i < n && b[i].1.is_ascii_digit() {
                    i += 1;
                }
            }
            kind = "number";
        } else if c == '"' {
            let (k, ni) = string_body(&b, i + 1, &mut line, &mut parens);
            kind = k;
            i = ni;
        } else {
            i += 1;
            let two = |i: usize, ch: char| i < n && b[i].1 == ch;
            kind = match c {
                '{' => {
                    if let Some(cnt) = parens.last_mut() {
                        *cnt += 1;
                    }
                    "punct"
                }
                '}' => {
                    let mut closes = false;
                    if let Some(cnt) = parens.last_mut() {
                        *cnt -= 1;
                        if *cnt == 0 {
                            closes = true;
                        }
                    }
                    if closes {
                        parens.pop();
                        let (k, ni) = string_body(&b, i, &mut line, &mut parens);
                        i = ni;
                        k
                    } else {
                        "punct"
                    }
                }
                '(' | ')' | '[' | ']' | ':' | ';' | ',' | '#' | '~' => "punct",
                '.' => {
                    if two(i, '.') {
                        i += 1;
                    }
                    "punct"
                }
                '-' | '+' | '/' | '*' | '!' | '=' | '^' | '%' => {
                    if two(i, '=') {
                        i += 1;
                    }
                    "punct"
                }
                '<' | '>' => {
                    if two(i, c) {
                        i += 1;
                    }
                    if two(i, '=') {
                        i += 1;
                    }
                    "punct"
                }
                '|' | '&' => {
                    if two(i, c) || two(i, '=') {
                        i += 1;
                    }
                    "punct"
                }
                _ => "error",
            };
        }
        toks.push(Tok { kind, start: pos_of(start), end: pos_of(i), line: start_line });
    }
    toks
}

/// Tokens of a digit-run context as (kind, text) pairs — C19 A3's oracle.
pub fn lex_texts(src: &str) -> Vec<(String, String)> {
    lex(src).into_iter().map(|t| (t.kind.to_string(), src[t.start..t.end].to_string())).collect()
}
