//! C01 — GC safety: nothing a program can still reach is ever reclaimed.
//! Programs x GC schedules on the real collector: every program runs under `never` (comparison run),
//! `always` (collect at every allocation, with swept objects quarantined so that every later touch of
//! one is *reported* instead of depending on what freed memory happens to hold) and, for the small
//! heap-shape programs, under `only{i}` for every single allocation index i (and all pairs in the
//! thorough tier).
use crate::ast::print_program;
use crate::common::*;
use crate::pool::{par_map, Obs, Runner};
use crate::{c05, c06, c07, c08, c18};
use proto::{GcSpec, Request, SnippetResult};
use serde_json::json;
use std::collections::{BTreeMap, BTreeSet};

const PRELUDE: &str = r#"
#[constructor(new)]
class K { fn m(self) { return "K.m"; } fn getv(self) { return self.v; } }
class Box { #[constructor] fn new(self, v) { self.v = v; } fn getv(self) { return self.v; } }
fn mkcell(v) { return || v; }
fn mkroot(h) { return || h; }
fn mkinstance() { var k = K.new(); k.f = "field" + "!"; return k; }
fn mkclass() { #[constructor(new)] class Local { fn m(self) { return "Local.m"; } } return Local; }
fn mksubclass(p) { #[constructor(new), derive(p)] class Sub { fn own(self) { return "Sub.own"; } } return Sub; }
fn mkclosure() { var c = [10]; return || { c[0] = c[0] + 1; return c[0]; }; }
fn mkfiber() { var f = Fiber.new(|| { var loc = ["fiber", "local"]; Fiber.yield(loc[0]); return loc[1]; }); f.call(); return f; }
fn mkhold(v) { var f = Fiber.new(|| { var keep = v; Fiber.yield(0); return keep; }); f.call(); return f; }
fn mkcaller(v) { var inner = Fiber.new(|| { Fiber.yield(1); return v; }); var outer = Fiber.new(|| { inner.call(); Fiber.yield(2); return inner.call(); }); outer.call(); return outer; }
fn mkopen(v) { var out = []; var f = Fiber.new(|| { var keep = v; out.push(|| keep); Fiber.yield(0); }); f.call(); return out[0]; }
fn mkmethodholder(v) { #[constructor(new)] class H { fn get(self) { return v; } } return H; }
fn mkstatic(v) { class S { #[static] fn get() { return v; } } return S; }
fn pick(a, b) { return a; }
fn churn_rtt() { try { return [7, 8, 9]; } finally { garbage(); } }
fn churn_exc() { try { try { throw [4, 5]; } finally { garbage(); } } catch e { return e; } }
fn churn_fiber() { var f = Fiber.new(|v| { garbage(); return Fiber.yield(v); }); var y = f.call([6]); garbage(); return f.call(y); }
fn churn() { garbage(); churn_rtt(); churn_exc(); churn_fiber(); garbage(); }
fn via_pending_return(mk) { try { return mk(); } finally { churn(); } }
fn via_exception(mk) { try { try { throw mk(); } finally { churn(); } } catch e { churn(); return e; } }
fn via_fiber_argument(mk) { var f = Fiber.new(|v| { churn(); return v; }); return f.call(mk()); }
fn via_yield(mk) { var f = Fiber.new(|| { var r = Fiber.yield(mk()); churn(); return r; }); var y = f.call(); churn(); return f.call(y); }
fn via_operands(mk) { return [mk(), churn(), 0][0]; }
fn via_call_arguments(mk) { return pick(mk(), churn()); }
fn tmpvec(mk) { return [mk(), [1]]; }
fn tmptuple(mk) { return (mk(), [1]); }
fn tmpmap(mk) { return {"k": mk()}; }
fn via_slice_of_temporary_vec(mk) { return tmpvec(mk)[0..2][0]; }
fn via_slice_of_temporary_tuple(mk) { return tmptuple(mk)[0..2][0]; }
fn via_items_of_temporary_map(mk) { return tmpmap(mk).items()[0..1][0][1]; }
fn via_values_of_temporary_map(mk) { return tmpmap(mk).values()[0]; }
fn via_collect_of_temporary_vec(mk) { return tmpvec(mk).iter().map(|e| e).filter(|e| true).collect()[0]; }
fn via_index_of_temporary_vec(mk) { return tmpvec(mk)[0]; }
fn garbage() { var a = [[1], [2], [3]]; var b = (1, (2, 3)); var c = {"a": [1], "b": "x" + "y"}; var d = K.new(); var e = [100..101, 100..102, 100..103, 100..104, 100..105, 100..106, 100..107, 100..108, 100..109, 100..110]; var f = || a; return nil; }
"#;

struct Referent {
    name: &'static str,
    make: &'static str,
    touch: &'static str,
    hashable: bool,
    is_class: bool,
}

fn referents() -> Vec<Referent> {
    let r = |name, make, touch, hashable, is_class| Referent { name, make, touch, hashable, is_class };
    vec![
        r("string", "\"dyn\" + \"amic\"", "print(x); print(x.len()); print(x == \"dyn\" + \"amic\"); print({x: 1}.get(\"dy\" + \"namic\")); print(x + \"!\"); for c in x { print(c); }", true, false),
        r("tuple", "(1, \"ab\" + \"c\", (2, 3))", "print(x); print(x[1]); print(x == (1, \"abc\", (2, 3))); print({x: 1}.len()); for e in x { print(e); }", true, false),
        r("vec", "[1, [2, \"s\" + \"t\"]]", "print(x); x.push(3); print(x.len()); for e in x { print(e); } print(x == [1, [2, \"st\"], 3]);", false, false),
        r("map", "{\"k\": [1, 2], (1, 2): \"v\" + \"w\"}", "print(x.get(\"k\")); print(x.get((1, 2))); print(x.len()); print(x.keys().len());", false, false),
        r("instance", "mkinstance()", "print(x.f); print(x.m()); print(type(x)); print(x.derives(K));", false, false),
        r("class", "mkclass()", "print(x); print(x.new().m()); print(type(x.new()) == x);", true, true),
        r("closure", "mkclosure()", "print(x()); print(x());", false, false),
        r("bound_method", "mkinstance().m", "print(x());", false, false),
        r("bound_native", "[1, 2, 3].len", "print(x());", false, false),
        r("vec_iter", "[1, [2], 3].iter()", "print(x.next()); print(x.next());", false, false),
        r("string_iter", "(\"h\u{e9}\" + \"llo\").iter()", "print(x.next()); print(x.next()); print(x.next());", false, false),
        r("tuple_iter", "(1, (2,)).iter()", "print(x.next()); print(x.next());", false, false),
        r("range_iter", "(300..303).iter()", "print(x.next()); print(x.next());", false, false),
        r("map_iter", "[1, 2].iter().map(|e| [e, e])", "print(x.next()); print(x.next()); print(type(x.next()));", false, false),
        r("filter_iter", "[1, 2, 3].iter().filter(|e| e > 1)", "print(x.next()); print(x.next());", false, false),
        r("fiber", "mkfiber()", "print(x.has_finished()); print(x.call()); print(x.has_finished());", false, false),
        r("caller_chain_fiber", "mkcaller([7, 8])", "print(x.call());", false, false),
        r("range", "400..405", "print(x); print(x == 400..405); for i in x { print(i); }", true, false),
        r("error_instance", "Error.new([\"ctx\", \"x\" + \"y\"])", "print(x.context); print(type(x));", false, false),
        r("subclass_of_local_class", "mksubclass(mkclass())", "print(x.new().m()); print(x.new().own()); print(x.new().derives(Object));", true, true),
    ]
}

struct Holder {
    name: &'static str,
    /// `@` is replaced by the inner expression
    wrap: &'static str,
    /// `@` is replaced by the holder expression
    access: &'static str,
    needs_hashable: bool,
    needs_class: bool,
}

fn holders() -> Vec<Holder> {
    let h = |name, wrap, access, needs_hashable, needs_class| Holder { name, wrap, access, needs_hashable, needs_class };
    vec![
        h("vec_element", "[0, @]", "@[1]", false, false),
        h("tuple_element", "(@, 0)", "@[0]", false, false),
        h("map_key", "{@: 1}", "@.keys()[0]", true, false),
        h("map_key_via_items", "{@: 1}", "@.items()[0][0]", true, false),
        h("map_value", "{\"k\": @}", "@.get(\"k\")", false, false),
        h("instance_field", "Box.new(@)", "@.v", false, false),
        h("captured_variable", "mkcell(@)", "@()", false, false),
        h("bound_method_receiver", "Box.new(@).getv", "@()", false, false),
        h("iterator_of_vec", "[@].iter()", "@.next()", false, false),
        h("iterator_of_tuple", "(@,).iter()", "@.next()", false, false),
        h("map_adapter", "[@].iter().map(|e| e)", "@.next()", false, false),
        h("suspended_fiber_local", "mkhold(@)", "@.call()", false, false),
        h("class_method_capture", "mkmethodholder(@)", "@.new().get()", false, false),
        h("static_method_capture", "mkstatic(@)", "@.get()", false, false),
        h("error_context", "Error.new(@)", "@.context", false, false),
        h("superclass_link", "mksubclass(@)", "type(@.new()).new()", false, true),
        h("open_variable_of_abandoned_fiber", "mkopen(@)", "@()", false, false),
        // transient interpreter state: the referent is held only by the interpreter's own bookkeeping
        // (a return waiting for a finally block, an exception in flight, values in transfer between
        // fibers, operands of an unfinished expression) while garbage is allocated and the same mechanisms are exercised
        // again by the allocating code (a second return waiting for its finally block in a callee, a second
        // exception in flight, another fiber transfer)
        h("pending_return_during_finally", "via_pending_return(|| (@))", "@", false, false),
        h("exception_in_flight_during_finally", "via_exception(|| (@))", "@", false, false),
        h("fiber_call_argument", "via_fiber_argument(|| (@))", "@", false, false),
        h("yielded_and_resumed_value", "via_yield(|| (@))", "@", false, false),
        h("operand_of_unfinished_literal", "via_operands(|| (@))", "@", false, false),
        h("argument_of_unfinished_call", "via_call_arguments(|| (@))", "@", false, false),
        // operands that are temporaries: the operation allocates its result while the container it reads from
        // is referenced by nothing but the operation itself
        h("slice_of_temporary_vec", "via_slice_of_temporary_vec(|| (@))", "@", false, false),
        h("slice_of_temporary_tuple", "via_slice_of_temporary_tuple(|| (@))", "@", false, false),
        h("items_of_temporary_map", "via_items_of_temporary_map(|| (@))", "@", false, false),
        h("values_of_temporary_map", "via_values_of_temporary_map(|| (@))", "@", false, false),
        h("collect_of_temporary_vec", "via_collect_of_temporary_vec(|| (@))", "@", false, false),
        h("index_of_temporary_vec", "via_index_of_temporary_vec(|| (@))", "@", false, false),
    ]
}

#[derive(Clone)]
struct Shape {
    source: String,
    describe: String,
    edges: Vec<String>,
    abandoned_fiber: bool,
}

fn shapes(max_chain: usize, all_outer_holders: bool) -> Vec<Shape> {
    let refs = referents();
    let hs = holders();
    let mut out = Vec::new();
    // the last three roots need one interpreter and two runs: the referent is a variable of a frame that an
    // uncaught error discarded in the first run (the frame that threw; a main-fiber frame, or a fiber,
    // that was waiting for a fiber that threw), reached in the second run through a closure that escaped
    let roots = ["global", "local", "closed_variable", "variable_of_frame_discarded_by_uncaught_error", "variable_of_frame_waiting_for_failed_fiber", "variable_of_fiber_waiting_for_failed_fiber"];
    for r in &refs {
        // chains of holders, innermost last
        let mut chains: Vec<Vec<usize>> = vec![vec![]];
        let mut frontier: Vec<Vec<usize>> = vec![vec![]];
        for _ in 0..max_chain {
            let mut next = Vec::new();
            for c in &frontier {
                for (hi, _) in hs.iter().enumerate() {
                    let mut v = c.clone();
                    v.push(hi);
                    next.push(v);
                }
            }
            chains.extend(next.iter().cloned());
            frontier = next;
        }
        for chain in chains {
            // the innermost holder holds the referent directly: its requirements apply to the referent;
            // outer holders hold a holder (not hashable, not a class)
            let mut ok = true;
            for (pos, hi) in chain.iter().enumerate() {
                // pass-through holders hand the referent itself on: what this holder holds is the
                // referent if everything inside it is pass-through
                let innermost = chain[pos + 1..].iter().all(|k| hs[*k].wrap.starts_with("via_"));
                let h = &hs[*hi];
                if h.needs_hashable && !(innermost && r.hashable) {
                    ok = false;
                }
                if h.needs_class && !(innermost && r.is_class) {
                    ok = false;
                }
            }
            // quick tier: chains of two have one of seven representative holders outside (one per group:
            // sequence, map, object, closure, fiber, transient state, operation on a temporary)
            if !all_outer_holders && chain.len() == 2 {
                let outer = hs[chain[0]].name;
                if !["vec_element", "map_key", "instance_field", "captured_variable", "suspended_fiber_local", "pending_return_during_finally", "slice_of_temporary_vec"].contains(&outer) {
                    ok = false;
                }
            }
            // superclass_link's accessor yields an instance of the referent class, not the class: only as the
            // sole holder, with a class-specific touch
            if chain.iter().any(|hi| hs[*hi].name == "superclass_link") && chain.len() > 1 {
                ok = false;
            }
            if !ok {
                continue;
            }
            for root in roots {
                let mut build = r.make.to_string();
                for hi in chain.iter().rev() {
                    build = hs[*hi].wrap.replace("@", &build);
                }
                let two_runs = root.starts_with("variable_of_");
                // (only chains up to length 1 for the two-run roots)
                if two_runs && chain.len() > 1 {
                    continue;
                }
                let mut access = match root {
                    "global" | "local" => "root".to_string(),
                    _ => "root()".to_string(),
                };
                for hi in &chain {
                    access = hs[*hi].access.replace("@", &access);
                }
                let touch = if chain.iter().any(|hi| hs[*hi].name == "superclass_link") { "print(x.m()); print(type(x));".to_string() } else { r.touch.to_string() };
                let root_decl = match root {
                    "closed_variable" => format!("var root = mkroot({});", build),
                    _ => format!("var root = {};", build),
                };
                let body = format!("{}\n  garbage();\n  var junk = [[1], (2, 3), {{\"a\": 1}}, \"p\" + \"q\"];\n  var x = {};\n  garbage();\n  {}\n  print(\"done\");\n", root_decl, access, touch);
                let source = if two_runs {
                    let discard = match root {
                        "variable_of_frame_discarded_by_uncaught_error" => format!("fn holder_() {{ var kept = {}; root = || kept; throw \"discard\"; }}\nholder_();\n", build),
                        "variable_of_frame_waiting_for_failed_fiber" => format!("fn holder_() {{ var kept = {}; root = || kept; Fiber.new(|| {{ throw \"discard\"; }}).call(); }}\nholder_();\n", build),
                        _ => format!("var outer_ = Fiber.new(|| {{ var kept = {}; root = || kept; Fiber.new(|| {{ throw \"discard\"; }}).call(); }});\nouter_.call();\n", build),
                    };
                    let second = format!("garbage();\nvar junk = [[1], (2, 3), {{\"a\": 1}}, \"p\" + \"q\"];\nvar x = {};\ngarbage();\n{}\nprint(\"done\");\n", access, touch);
                    format!("{}\nvar root = nil;\n{}{}{}", PRELUDE, discard, SNIPPET_SEPARATOR, second)
                } else if root == "global" {
                    format!("{}\n{}", PRELUDE, body)
                } else {
                    format!("{}\nfn main_() {{\n{}}}\nmain_();\n", PRELUDE, body)
                };
                let mut edges: Vec<String> = chain.iter().map(|hi| hs[*hi].name.to_string()).collect();
                edges.push(format!("->{}", r.name));
                out.push(Shape {
                    source,
                    describe: format!("root={} chain={:?} referent={}", root, chain.iter().map(|hi| hs[*hi].name).collect::<Vec<_>>(), r.name),
                    edges,
                    abandoned_fiber: chain.iter().any(|hi| hs[*hi].name == "open_variable_of_abandoned_fiber"),
                });
            }
        }
    }
    out
}

/// the heap-shape programs with holder chains of length <= 1 (for C10: the build configurations differ
/// most in when collections happen)
pub fn shape_sources_for_c10() -> Vec<String> {
    shapes(1, true).into_iter().filter(|s| !s.abandoned_fiber && !s.source.contains(SNIPPET_SEPARATOR)).map(|s| s.source).collect()
}

fn run_with(runner: &mut Runner, src: &str, gc: GcSpec) -> (Obs, Option<SnippetResult>, Vec<String>, usize) {
    run_with_modules(runner, src, &BTreeMap::new(), gc)
}

/// separates the runs of a program that is fed to one interpreter in several pieces
const SNIPPET_SEPARATOR: &str = "\u{1}next run on the same interpreter\u{1}\n";

fn run_with_modules(runner: &mut Runner, src: &str, modules: &BTreeMap<String, String>, gc: GcSpec) -> (Obs, Option<SnippetResult>, Vec<String>, usize) {
    let snippets: Vec<String> = src.split(SNIPPET_SEPARATOR).map(|s| s.to_string()).collect();
    let mut req = Request { op: "run".into(), snippets, modules: modules.clone(), gc: Some(gc), fuel: Some(3_000_000), want: vec!["uaf".into(), "heap".into()], ..Default::default() };
    let obs = runner.call(&mut req);
    let (res, uaf, allocs) = match obs.resp() {
        // the last run is the one that is compared (earlier ones end in the uncaught error they are meant to)
        Some(r) => (r.results.last().cloned(), r.uaf.clone(), r.allocs),
        None => (None, vec![], 0),
    };
    (obs, res, uaf, allocs)
}

fn gc(mode: &str, only: Vec<usize>, quarantine: bool) -> GcSpec {
    GcSpec { mode: mode.into(), only, quarantine }
}

fn same(a: &Option<SnippetResult>, b: &Option<SnippetResult>) -> bool {
    match (a, b) {
        (Some(x), Some(y)) => {
            x.out.iter().map(|l| crate::diff::normalise(l)).eq(y.out.iter().map(|l| crate::diff::normalise(l))) && std::mem::discriminant(&x.outcome) == std::mem::discriminant(&y.outcome)
        }
        _ => false,
    }
}

#[derive(Default)]
struct Acc {
    programs: usize,
    runs: usize,
    schedules: usize,
    alloc_points: usize,
    edges: BTreeSet<String>,
    freed_something: usize,
    violations: Vec<(String, serde_json::Value)>,
    attributed: BTreeMap<String, usize>,
    dominance_failures: usize,
    samples: Vec<serde_json::Value>,
}

/// is this failing case the listed finding "open captured variable of an abandoned suspended fiber"?
fn attributable(abandoned_fiber: bool, uaf: &[String], active: &[Finding]) -> Option<String> {
    if !abandoned_fiber || !active.iter().any(|f| f.id == "KF-C01-01") {
        return None;
    }
    // the first event must be the dangling captured variable itself; what follows (touching values that
    // only the dead fiber's stack kept alive) is its consequence
    if uaf.first().map(|e| e.contains("freed fiber stack")).unwrap_or(false) {
        return Some("KF-C01-01".into());
    }
    None
}

/// The list of open captured variables of one activation.  Three locals, each never captured / captured
/// only by a closure that has died / captured by a closure that is kept, the closures made in ascending or
/// descending order of the variables, in a function, a fiber body or a top-level block; then garbage is
/// made (collections), every variable is captured again, read through old and new closures, written, and
/// read again.  A captured variable whose every closure is gone is still a variable of a live scope.
fn open_upvalue_lists() -> Vec<String> {
    let mut out = Vec::new();
    for combo in 0..27usize {
        let states = [combo % 3, combo / 3 % 3, combo / 9];
        if states.iter().all(|s| *s == 0) {
            continue;
        }
        for descending in [false, true] {
            for context in 0..3 {
                let mut body = String::new();
                for i in 0..3 {
                    body.push_str(&format!("  var v{} = [\"v{}\", [{}]];\n", i, i, i));
                }
                let order: Vec<usize> = if descending { vec![2, 1, 0] } else { vec![0, 1, 2] };
                for &i in &order {
                    match states[i] {
                        1 => body.push_str(&format!("  {{ var dies = || v{}; print(dies()); }}\n", i)),
                        2 => body.push_str(&format!("  var keep{} = || v{};\n", i, i)),
                        _ => {}
                    }
                }
                body.push_str("  var junk = [];\n  for k in 0..6 { junk.push([k, \"j${k}\"]); }\n  junk = nil;\n");
                for i in 0..3 {
                    body.push_str(&format!("  var again{} = || v{};\n  print(again{}());\n", i, i, i));
                    if states[i] == 2 {
                        body.push_str(&format!("  print(keep{}());\n", i));
                    }
                }
                for i in 0..3 {
                    body.push_str(&format!("  v{} = (\"new{}\", [{}, {}]);\n  print(again{}());\n", i, i, i, i, i));
                    if states[i] == 2 {
                        body.push_str(&format!("  print(keep{}());\n", i));
                    }
                    body.push_str(&format!("  print(v{});\n", i));
                }
                let src = match context {
                    0 => format!("fn scope() {{\n{}  return again0;\n}}\nvar escaped = scope();\nprint(escaped());\n", body),
                    1 => format!("var f = Fiber.new(|| {{\n{}  Fiber.yield(again1);\n  print(v0);\n  return again2;\n}});\nvar first = f.call();\nprint(first());\nvar second = f.call();\nprint(second());\nprint(first());\n", body),
                    _ => format!("{{\n{}}}\nprint(\"end\");\n", body),
                };
                out.push(src);
            }
        }
    }
    out
}


/// Values an embedding holds on to across `Vm::reset()`: whatever such a value can still reach - the module
/// whose code it runs and that module's globals, its class, its captured variables, a suspended fiber's
/// stack - stays intact although the interpreter has forgotten every module and global.  One history per
/// kind of value: import a module, read the value into a global, keep it (rooted by the host), reset, hand
/// it back, allocate garbage, use it.  (source pieces joined by SNIPPET_SEPARATOR, module table)
fn kept_across_reset() -> Vec<(String, BTreeMap<String, String>)> {
    let module = "var secret = [\"module\", \"global\"];\nvar counter = 0;\nfn f() { counter += 1; return [secret, counter]; }\nfn mk() { var loc = [\"captured\", \"local\"]; return || { loc.push(secret[0]); return loc; }; }\n#[constructor(new)]\nclass C { fn m(self) { return secret; } #[static] fn s() { return secret; } }\nfn fib() { var fb = Fiber.new(|| { var keep = [\"fiber\", \"local\"]; Fiber.yield(keep[0]); return [keep, secret]; }); fb.call(); return fb; }\nfn gen() { return [1, 2, 3].iter().map(|e| [e, secret[1]]); }\n";
    let kinds: Vec<(&str, &str, &str)> = vec![
        ("function of the module", "zm.f", "h()"),
        ("closure made by a function of the module", "zm.mk()", "h()"),
        ("instance of a class of the module", "zm.C.new()", "h.m()"),
        ("bound method of such an instance", "zm.C.new().m", "h()"),
        ("class of the module", "zm.C", "h.s()"),
        ("static method of a class of the module", "zm.C.s", "h()"),
        ("fiber suspended in code of the module", "zm.fib()", "h.call()"),
        ("lazy iterator whose callback is code of the module", "zm.gen()", "h.collect()"),
        ("vec holding a function of the module", "[zm.f, zm.mk()]", "[h[0](), h[1]()]"),
        ("map holding a function of the module", "{\"k\": zm.f}", "h.get(\"k\")()"),
        ("closure of the main program over a function of the module", "(|g| || g())(zm.f)", "h()"),
        ("the module object itself", "zm", "h.f()"),
    ];
    let garbage = "var zz_junk = [];\nfor i in 0..30 { zz_junk.push([i, \"s${i}\", (i, i), {i: i}]); }\nzz_junk = nil;\n";
    let mut out = Vec::new();
    for (what, make, use_) in kinds {
        for resets in [1usize, 2] {
            let mut pieces: Vec<String> = vec![format!("import \"zz_kept\" as zm;\nvar h = {};\nprint(\"{}\");\n", make, what), "\u{0}host:keep_global:h".into()];
            for _ in 0..resets {
                pieces.push("\u{0}reset".into());
                pieces.push(garbage.to_string());
            }
            pieces.push("\u{0}host:restore_global:h".into());
            pieces.push(format!("{}print({});\n{}print({});\n", garbage, use_, garbage, if what.starts_with("fiber") { "h.has_finished()" } else { use_ }));
            let mut modules = BTreeMap::new();
            modules.insert("zz_kept".to_string(), module.to_string());
            out.push((pieces.join(SNIPPET_SEPARATOR), modules));
        }
    }
    out
}

/// What an embedding makes through the public interface stays alive as long as it is reachable: a native
/// function defined in, or an object (string, vec, tuple, range, map, error instance, StopIter instance) made
/// with the public constructors and stored as a global of, a module that does not exist yet, of `main`, or of
/// a module that existed before a reset - then garbage, a second definition in the same module, a program
/// run in that module that copies and (for natives) calls the value, more garbage, and the host reading
/// everything back.  (source pieces joined by SNIPPET_SEPARATOR, module table)
fn made_by_the_embedding() -> Vec<(String, BTreeMap<String, String>)> {
    let h = "\u{0}host:";
    let garbage = "var zz_junk = [];\nfor i in 0..30 { zz_junk.push([i, \"s${i}\", (i, i), {i: i}]); }\nzz_junk = nil;\n";
    let kinds = ["native", "string", "vec", "tuple", "range", "hash_map", "error", "stop_iter"];
    let mut out = Vec::new();
    for kind in kinds {
        for other in ["native", "vec"] {
            for (module, reset_first) in [("plug", false), ("main", false), ("plug", true), ("main", true)] {
                let make = |name: &str, k: &str| -> String {
                    if k == "native" { format!("{}define_native_in:{}:{}", h, module, name) } else { format!("{}set_global_in:{}:{}:{}", h, module, name, k) }
                };
                let mut pieces: Vec<String> = Vec::new();
                if reset_first {
                    // the module exists, is used, and is forgotten by a reset before the host defines into it
                    pieces.push(format!("{}run_in:{}:var early = [1, 2, 3];", h, module));
                    pieces.push("\u{0}reset".into());
                }
                pieces.push(make("thing", kind));
                pieces.push(garbage.to_string());
                pieces.push(make("other", other));
                pieces.push(garbage.to_string());
                let use_ = if kind == "native" { "var copy = thing;\nvar r = thing();\nvar both = [thing, other];" } else { "var copy = thing;\nvar both = [thing, other, [thing]];" };
                pieces.push(format!("{}run_in:{}:{}", h, module, use_));
                pieces.push(garbage.to_string());
                for name in ["thing", "other", "copy", "both", "r"] {
                    pieces.push(format!("{}show_global:{}:{}", h, module, name));
                }
                out.push((pieces.join(SNIPPET_SEPARATOR), BTreeMap::new()));
            }
        }
    }
    out
}


/// Answers that depend on *which object* something is - `derives`, `type(x) == C`, `==` on instances, classes
/// and closures, a class used as a map key - asked about short-lived objects in a loop: every round makes a
/// fresh local class (alternately derived from a base class or not), fresh instances and closures, asks, and
/// lets them die, with 0-3 further objects of the same sizes allocated per round so that a freed address is
/// handed out again in every pattern.  Run with real reclamation (collect at every allocation, swept objects
/// *not* quarantined, so addresses are reused at once) the output must equal the never-collect run's: what a
/// program prints does not depend on an address having had an earlier tenant.
fn identity_after_address_reuse() -> Vec<String> {
    let mut out = Vec::new();
    for extras in 0..4usize {
        for pattern in 0..3usize {
            let cond = match pattern {
                0 => "i % 2 == 0",
                1 => "i % 3 == 0",
                _ => "i % 4 < 2",
            };
            let extra_decl: String = (0..extras).map(|k| format!("  class Extra{} {{}}\n", k)).collect();
            let src = format!(
                "class Shape {{}}\n#[constructor(new)]\nclass Plain {{}}\nfn make(i) {{\n{extra}  if {cond} {{\n    #[constructor(new), derive(Shape)]\n    class Local {{ fn who(self) {{ return \"derived\"; }} }}\n    return Local.new();\n  }}\n  #[constructor(new)]\n  class Local {{ fn who(self) {{ return \"plain\"; }} }}\n  return Local.new();\n}}\nvar wrong = 0;\nfor i in 0..40 {{\n  var x = make(i);\n  var expect = {cond};\n  var y = make(i);\n  var c = || x;\n  var d = || x;\n  var m = {{type(x): \"mine\"}};\n  var line = [x.derives(Shape), y.derives(Shape), x.derives(Object), type(x) == type(y), type(x) == Shape, x == y, x == x, c == d, c == c, m.get(type(y)), m.get(type(x)), x.who()];\n  if x.derives(Shape) != expect {{ wrong += 1; }}\n  print(line);\n}}\nprint(wrong);\n",
                extra = extra_decl,
                cond = cond
            );
            out.push(src);
        }
    }
    out
}

pub fn run(ctx: &Ctx) -> Report {
    let mut report = Report::new();
    let active = active_findings(ctx, &mut report);
    let thorough = ctx.thorough();
    let sh = shapes(2, thorough);
    let n_shapes = sh.len();
    let active_ref = &active;
    // allocations performed by the shared prelude alone
    let prelude_allocs = {
        let mut r = Runner::new(ctx.runner_checked.clone());
        let (_, _, _, n) = run_with(&mut r, &format!("{}\nfn main_() {{\n}}\nmain_();\n", PRELUDE), gc("never", vec![], false));
        n.saturating_sub(4)
    };
    // ---- heap-shape programs x schedules ----------------------------------------------------------
    let shape_accs = par_map(&ctx.runner_checked, ctx.workers, sh.into_iter().enumerate(), |runner, _i, (idx, s)| {
        runner.timeout = std::time::Duration::from_secs(60);
        let mut acc = Acc::default();
        acc.programs += 1;
        acc.edges.extend(s.edges.iter().cloned());
        let (_, never, _, allocs) = run_with(runner, &s.source, gc("never", vec![], false));
        let (oa, always, uaf, _) = run_with(runner, &s.source, gc("default", vec![], true));
        acc.runs += 2;
        acc.schedules += 2;
        acc.alloc_points += allocs;
        if acc.samples.is_empty() && idx % 997 == 0 {
            acc.samples.push(json!({"shape": s.describe, "allocations": allocs, "source_tail": s.source[PRELUDE.len()..].to_string()}));
        }
        let never_ok = matches!(never.as_ref().map(|r| &r.outcome), Some(proto::Outcome::Ok));
        if !never_ok {
            acc.violations.push((format!("heap-shape program does not run cleanly even without collections: {:?}", never), json!({"shape": s.describe, "source": s.source})));
            return acc;
        }
        if let Some(h) = oa.resp().and_then(|r| r.heap.as_ref()) {
            if h.quarantined > 0 {
                acc.freed_something += 1;
            }
        }
        let bad_always = !uaf.is_empty() || !same(&never, &always);
        if bad_always {
            match attributable(s.abandoned_fiber, &uaf, active_ref) {
                Some(f) => {
                    *acc.attributed.entry(f).or_insert(0) += 1;
                }
                None => acc.violations.push((
                    format!("[{}] under collect-at-every-allocation: {} use-after-free events {:?}; output {:?} vs never-collect output {:?}", s.describe, uaf.len(), uaf.iter().take(3).collect::<Vec<_>>(), always.as_ref().map(|r| (&r.out, &r.outcome)), never.as_ref().map(|r| &r.out)),
                    json!({"shape": s.describe, "request": {"op": "run", "snippets": s.source.split(SNIPPET_SEPARATOR).collect::<Vec<_>>(), "gc": {"mode": "default", "quarantine": true}, "want": ["uaf"]}, "uaf": uaf, "observed": always, "never_collect_run": never}),
                )),
            }
        }
        // single-collection schedules: only{i} for every allocation index (chain length <= 1 in the quick
        // tier); validates on this code that `always` dominates and pinpoints the breaking collection
        let chain_len = s.edges.len() - 1;
        // (allocation indices below `prelude_allocs` belong to compiling and defining the shared prelude)
        let first = prelude_allocs.min(allocs);
        if allocs - first <= 80 && (thorough || chain_len <= 1) {
            for i in first..allocs {
                let (_, r, u, _) = run_with(runner, &s.source, gc("only", vec![i], true));
                acc.runs += 1;
                acc.schedules += 1;
                let bad = !u.is_empty() || !same(&never, &r);
                if bad && !bad_always {
                    acc.dominance_failures += 1;
                    acc.violations.push((format!("[{}] a single collection at allocation {} breaks the program although collecting at every allocation does not: {:?}", s.describe, i, u), json!({"shape": s.describe, "source": s.source, "only": i, "uaf": u})));
                }
            }
            if thorough && allocs - first <= 40 && chain_len <= 1 {
                for i in first..allocs {
                    for j in (i + 1)..allocs {
                        let (_, r, u, _) = run_with(runner, &s.source, gc("only", vec![i, j], true));
                        acc.runs += 1;
                        acc.schedules += 1;
                        if (!u.is_empty() || !same(&never, &r)) && !bad_always {
                            acc.dominance_failures += 1;
                            acc.violations.push((format!("[{}] collections at allocations {} and {} break the program although collecting at every allocation does not: {:?}", s.describe, i, j, u), json!({"shape": s.describe, "source": s.source, "only": [i, j], "uaf": u})));
                        }
                    }
                }
            }
        }
        acc
    });
    // ---- the threshold-paced path of the optimised build ---------------------------------------------
    // Checked builds collect before an allocation on their own path; optimised builds decide in
    // `collect_if_required`.  With the pacing hook that decision is "now" at every allocation: the
    // heap-shape programs with chains up to length 1 (all of them in the thorough tier) run on the optimised
    // runner without collections and with a paced collection at every allocation, swept objects quarantined.
    let paced: Vec<Shape> = shapes(if thorough { 2 } else { 1 }, thorough);
    let n_paced = paced.len();
    let paced_accs = par_map(&ctx.runner_opt, ctx.workers, paced.into_iter(), |runner, _i, s| {
        runner.timeout = std::time::Duration::from_secs(60);
        let mut acc = Acc::default();
        let (o, never, _, _) = run_with(runner, &s.source, gc("never", vec![], false));
        if let Some(r) = o.resp() {
            if !r.config.starts_with("opt") {
                crate::pool::machinery_failure("C01's paced pass must run on the optimised runner");
            }
        }
        let (oa, always, uaf, _) = run_with(runner, &s.source, gc("paced_always", vec![], true));
        acc.runs += 2;
        acc.schedules += 2;
        if !matches!(never.as_ref().map(|r| &r.outcome), Some(proto::Outcome::Ok)) {
            acc.violations.push((format!("heap-shape program does not run cleanly on the optimised runner even without collections: {:?}", never), json!({"shape": s.describe, "source": s.source})));
            return acc;
        }
        if let Some(h) = oa.resp().and_then(|r| r.heap.as_ref()) {
            if h.quarantined > 0 {
                acc.freed_something += 1;
            }
        }
        if !uaf.is_empty() || !same(&never, &always) {
            match attributable(s.abandoned_fiber, &uaf, active_ref) {
                Some(f) => {
                    *acc.attributed.entry(f).or_insert(0) += 1;
                }
                None => acc.violations.push((
                    format!("[{}] optimised build, a paced collection at every allocation: {} use-after-free events {:?}; output {:?} vs never-collect output {:?}", s.describe, uaf.len(), uaf.iter().take(3).collect::<Vec<_>>(), always.as_ref().map(|r| (&r.out, &r.outcome)), never.as_ref().map(|r| &r.out)),
                    json!({"shape": s.describe, "runner": "release", "request": {"op": "run", "snippets": s.source.split(SNIPPET_SEPARATOR).collect::<Vec<_>>(), "gc": {"mode": "paced_always", "quarantine": true}, "want": ["uaf"]}, "uaf": uaf, "observed": always, "never_collect_run": never}),
                )),
            }
        }
        acc
    });
    let paced_freed: usize = paced_accs.iter().map(|a| a.freed_something).sum();
    if paced_freed * 2 < n_paced && paced_accs.iter().all(|a| a.violations.is_empty()) {
        crate::pool::machinery_failure(&format!("C01: paced collections freed something in only {} of {} programs on the optimised runner", paced_freed, n_paced));
    }
    // ---- the other profiles' corpora: any program that holds temporaries across an allocation --------
    let mut corpus: Vec<(String, BTreeMap<String, String>)> = Vec::new();
    for c in c05::cases_for_c04(false).into_iter().chain(c06::cases_for_c04(false)).chain(c07::cases_for_c04(false)).chain(c08::cases_for_c04(false)).chain(c18::cases_for_c04(thorough)) {
        corpus.push((print_program(&c.prog, false), BTreeMap::new()));
    }
    // quick: every 3rd program of the (large) statement-tree and exception-nest corpora
    let mut corpus: Vec<(String, BTreeMap<String, String>)> = if thorough { corpus } else { corpus.into_iter().enumerate().filter(|(i, _)| i % 3 == 0).map(|(_, s)| s).collect() };
    // programs with modules (compilation and module bodies run in the middle of the importing program) and
    // error paths through every kind of call link
    for c in crate::c14::cases_for_c01(thorough).into_iter().chain(crate::c17::cases_for_c01(thorough)) {
        let modules = crate::mcheck::module_sources(&c);
        corpus.push((print_program(&c.prog, false), modules));
    }
    // the standard corpus with every call made through a wrapper lambda (metamorph.rs): every call site makes
    // a closure over the variables in scope and drops it - with a collection at every allocation
    let n_wrapped = {
        let std_corpus = crate::metamorph::standard_corpus(if thorough { 2 } else { 8 });
        let v = crate::metamorph::wrapper_cases("calls_through_wrappers", &std_corpus);
        let n = v.len();
        for c in v {
            let modules = crate::mcheck::module_sources(&c);
            corpus.push((print_program(&c.prog, false), modules));
        }
        n
    };
    corpus.extend(open_upvalue_lists().into_iter().map(|s| (s, BTreeMap::new())));
    corpus.extend(kept_across_reset());
    let n_embed = { let v = made_by_the_embedding(); let n = v.len(); corpus.extend(v); n };
    let n_corpus = corpus.len();
    let corpus_accs = par_map(&ctx.runner_checked, ctx.workers, corpus.into_iter(), |runner, _i, (src, modules)| {
        runner.timeout = std::time::Duration::from_secs(60);
        let mut acc = Acc::default();
        acc.programs += 1;
        let (_, never, _, allocs) = run_with_modules(runner, &src, &modules, gc("never", vec![], false));
        let (_, always, uaf, _) = run_with_modules(runner, &src, &modules, gc("default", vec![], true));
        acc.runs += 2;
        acc.schedules += 2;
        acc.alloc_points += allocs;
        if never.is_none() {
            return acc; // the program crashes the runner even without collections: C02's verdict, not C01's
        }
        if matches!(never.as_ref().map(|r| &r.outcome), Some(proto::Outcome::Panic { .. })) {
            return acc;
        }
        if !uaf.is_empty() || !same(&never, &always) {
            acc.violations.push((
                format!("[corpus program] under collect-at-every-allocation: use-after-free events {:?}; output {:?} vs never-collect output {:?}", uaf.iter().take(3).collect::<Vec<_>>(), always.as_ref().map(|r| (&r.out, &r.outcome)), never.as_ref().map(|r| (&r.out, &r.outcome))),
                json!({"family": "corpus", "request": {"op": "run", "snippets": src.split(SNIPPET_SEPARATOR).collect::<Vec<_>>(), "modules": modules, "gc": {"mode": "default", "quarantine": true}, "want": ["uaf"]}, "uaf": uaf, "observed": always, "never_collect_run": never}),
            ));
        }
        acc
    });
    // identity answers after address reuse: never-collect against collect-at-every-allocation with real
    // reclamation (no quarantine)
    let mut reuse_violations: Vec<(String, serde_json::Value)> = Vec::new();
    let n_reuse;
    {
        let progs = identity_after_address_reuse();
        n_reuse = progs.len();
        let res = par_map(&ctx.runner_checked, ctx.workers.min(12), progs.into_iter(), |runner, _i, src| {
            runner.timeout = std::time::Duration::from_secs(60);
            let (_, never, _, _) = run_with(runner, &src, gc("never", vec![], false));
            let (_, reclaimed, _, _) = run_with(runner, &src, gc("default", vec![], false));
            let (_, quarantined, uaf, _) = run_with(runner, &src, gc("default", vec![], true));
            (src, never, reclaimed, quarantined, uaf)
        });
        for (src, never, reclaimed, quarantined, uaf) in res {
            let ok = matches!(never.as_ref().map(|r| &r.outcome), Some(proto::Outcome::Ok)) && never.as_ref().map(|r| r.out.last().map(|l| l == "0").unwrap_or(false)).unwrap_or(false);
            if !ok {
                reuse_violations.push((format!("[identity after address reuse] the program does not run as expected even without collections: {:?}", never.as_ref().map(|r| (r.out.last().cloned(), r.outcome.clone()))), json!({"family": "identity_after_address_reuse", "request": {"op": "run", "snippets": [src], "gc": {"mode": "never", "quarantine": false}}})));
                continue;
            }
            if !same(&never, &reclaimed) || !same(&never, &quarantined) || !uaf.is_empty() {
                let first_diff = never.as_ref().and_then(|n| reclaimed.as_ref().map(|r| n.out.iter().zip(r.out.iter()).position(|(a, b)| a != b)));
                reuse_violations.push((
                    format!("[identity after address reuse] output with collections differs from the never-collect run (first differing line {:?}; with reclamation the last line is {:?}, use-after-free events {:?})", first_diff, reclaimed.as_ref().and_then(|r| r.out.last()), uaf.iter().take(2).collect::<Vec<_>>()),
                    json!({"family": "identity_after_address_reuse", "request": {"op": "run", "snippets": [src], "gc": {"mode": "default", "quarantine": false}, "want": ["uaf"]}, "observed": reclaimed, "never_collect_run": never}),
                ));
            }
        }
    }
    let mut acc = Acc::default();
    let mut paced_runs = 0usize;
    let mut paced_violations: Vec<(String, serde_json::Value)> = Vec::new();
    let mut paced_attributed: BTreeMap<String, usize> = BTreeMap::new();
    for a in paced_accs {
        paced_runs += a.runs;
        paced_violations.extend(a.violations);
        for (k, v) in a.attributed {
            *paced_attributed.entry(k).or_insert(0) += v;
        }
    }
    for a in shape_accs.into_iter().chain(corpus_accs) {
        acc.programs += a.programs;
        acc.runs += a.runs;
        acc.schedules += a.schedules;
        acc.alloc_points += a.alloc_points;
        acc.edges.extend(a.edges);
        acc.freed_something += a.freed_something;
        acc.violations.extend(a.violations);
        for (k, v) in a.attributed {
            *acc.attributed.entry(k).or_insert(0) += v;
        }
        acc.dominance_failures += a.dominance_failures;
        if acc.samples.len() < 4 {
            acc.samples.extend(a.samples);
        }
    }
    acc.runs += paced_runs;
    acc.violations.extend(paced_violations);
    acc.violations.extend(reuse_violations);
    report.cov("identity_after_address_reuse_programs", json!(n_reuse));
    for (k, v) in paced_attributed {
        *acc.attributed.entry(k).or_insert(0) += v;
    }
    // vacuity guards
    if acc.violations.is_empty() {
        if acc.freed_something * 10 < n_shapes * 9 {
            crate::pool::machinery_failure(&format!("C01: collections freed something in only {} of {} heap-shape programs", acc.freed_something, n_shapes));
        }
        let want_edges = holders().len() + referents().len();
        if acc.edges.len() < want_edges {
            crate::pool::machinery_failure(&format!("C01: only {} of {} holder/referent kinds were exercised", acc.edges.len(), want_edges));
        }
    }
    report.cov("evaluations", json!(acc.runs));
    report.cov("states", json!(acc.programs));
    report.cov("transitions", json!(acc.runs));
    report.cov("traces_validated_against_impl", json!(acc.runs));
    report.cov("distinct_nontrivial", json!(n_shapes + n_corpus));
    report.cov("exhaustive", json!(true));
    report.cov("rule", json!("programs: every heap-shape program root -> holder chain (length <= 2 over 29 holder kinds: vec/tuple element, map key, map value, field, captured variable, bound-method receiver, iterators, map adapter, suspended fiber local, method and static-method captures, error context, superclass link, open variable of an abandoned fiber, and six kinds of transient interpreter state - a return waiting for a finally block, an exception in flight through a finally block, a fiber call argument, a yielded and resumed value, an operand of an unfinished literal, an argument of an unfinished call - and six operations on temporaries: slice / index / collect of a temporary vec, slice of a temporary tuple, items / values of a temporary map) -> referent (20 kinds), the root being a global, a local, a closed variable, or - with one interpreter and two runs - a variable of a frame that an uncaught error discarded in the first run (the frame that threw, a frame or a fiber that was waiting for the fiber that threw), reached in the second run through an escaped closure; after construction every other reference is dropped, garbage of six kinds is allocated, the referent is reached through the chain and touched in every way its kind allows; plus the C05/C06/C07/C08/C18 generator corpora and the C14 (modules) and C17 (error paths through every call link) corpora with their module tables. plus the open-variable lists: three locals of one activation (function, fiber body, top-level block), each never captured / captured only by a closure that has died / captured by a kept closure, closures made in either order, then collections, every variable captured again, read and written through old and new closures (156 programs). schedules: never (comparison), always (collect at every allocation, swept objects quarantined and every later touch reported), only{i} for every allocation index of the small programs (all pairs in the thorough tier); and on the optimised runner, whose collections are decided on the threshold-paced path, never and a paced collection at every allocation (pacing hook) for the heap-shape programs with chains up to 1 (2 in the thorough tier). oracle: no use-after-free event, no object swept while borrowed, output identical to the never-collect run."));
    report.cov("bounds", json!({"chain_length": 2, "outer_holders_of_chains_of_two": if thorough { "all 29" } else { "7 representatives" }, "only_i_for_program_allocations_up_to": 80, "pairs_for_program_allocations_up_to": if thorough { 40 } else { 0 }}));
    report.cov("heap_shape_programs", json!(n_shapes));
    report.cov("corpus_programs", json!(n_corpus));
    report.cov("histories_of_values_made_by_the_embedding", json!(n_embed));
    report.cov("programs_with_every_call_through_a_wrapper_lambda", json!(n_wrapped));
    report.cov("programs_run_on_the_optimised_runner_with_paced_collections", json!(n_paced));
    report.cov("schedules_run", json!(acc.schedules));
    report.cov("allocation_points_covered", json!(acc.alloc_points));
    report.cov("holder_and_referent_kinds_exercised", json!(acc.edges.len()));
    report.cov("programs_in_which_a_collection_freed_something", json!(acc.freed_something));
    report.cov("dominance_counterexamples", json!(acc.dominance_failures));
    report.cov("attributed_to_listed_findings", json!(acc.attributed));
    report.cov("samples", json!(acc.samples));
    report.assumptions = vec![
        "dominance: with quarantine on, an object unreachable to the tracer at allocation k under any schedule is unreachable at k under `always` unless already freed, so `always` decides; the only{i} runs validate this on the code".into(),
        "the quarantine makes use-after-free by the collector observable (dereference of a swept box through Gc/Root, open captured variable into a swept fiber's stack, object swept while a RefCell borrow is alive); other forms of undefined behaviour are not decided".into(),
    ];
    record_known(&mut report, &active, &acc.attributed);
    report.violations.extend(acc.violations);
    report
}
