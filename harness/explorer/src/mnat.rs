//! M-str and the rest of the native library model: every built-in method of the value classes, as
//! functions over model values.  Strings are handled byte-exactly over their UTF-8 encoding.
use crate::mval::*;
use std::cell::RefCell;
use std::rc::Rc;

#[derive(Clone, Debug)]
pub struct NErr {
    pub kind: ErrKind,
    /// message text where the model defines it (None: only the class is compared)
    pub msg: Option<String>,
}

pub type NR = Result<V, NErr>;

pub fn nerr(kind: ErrKind) -> NErr {
    NErr { kind, msg: None }
}

fn arity(args: &[V], n: usize) -> Result<(), NErr> {
    if args.len() != n {
        return Err(NErr {
            kind: ErrKind::Type,
            msg: Some(format!("Expected {} parameter{} but found {}.", n, if n == 1 { "" } else { "s" }, args.len())),
        });
    }
    Ok(())
}

/// `validate_integer`: numbers with a fractional part (and NaN) are ValueError, non-numbers TypeError;
/// the conversion to a machine integer saturates.
pub fn validate_integer(v: &V) -> Result<i64, NErr> {
    match v {
        V::Num(n) => {
            if n.trunc() != *n {
                Err(nerr(ErrKind::Value))
            } else if *n >= 9223372036854775807.0 {
                Ok(i64::MAX)
            } else if *n <= -9223372036854775808.0 {
                Ok(i64::MIN)
            } else {
                Ok(*n as i64)
            }
        }
        _ => Err(nerr(ErrKind::Type)),
    }
}

pub fn bounded_index(v: &V, bound: i64) -> Result<usize, NErr> {
    let mut i = validate_integer(v)?;
    if i < 0 {
        i += bound;
    }
    if i < 0 || i >= bound {
        return Err(nerr(ErrKind::Index));
    }
    Ok(i as usize)
}

pub fn bounded_range(b: i64, e: i64, limit: i64) -> Result<(usize, usize), NErr> {
    let begin = if b < 0 { b + limit } else { b };
    if begin < 0 || begin >= limit {
        return Err(nerr(ErrKind::Index));
    }
    let end = if e < 0 { e + limit } else { e };
    if end < 0 || end > limit {
        return Err(nerr(ErrKind::Index));
    }
    Ok((begin as usize, if end >= begin { end } else { begin } as usize))
}

fn boundary(s: &str, i: usize) -> bool {
    // reference definition over bytes: position 0, the end, or a byte that is not a continuation byte
    if i == 0 || i == s.len() {
        return true;
    }
    if i > s.len() {
        return false;
    }
    (s.as_bytes()[i] & 0xC0) != 0x80
}

pub fn string_index(s: &str, idx: &V) -> NR {
    match idx {
        V::Num(_) => {
            let begin = bounded_index(idx, s.len() as i64)?;
            if !boundary(s, begin) {
                return Err(nerr(ErrKind::Index));
            }
            let mut end = begin + 1;
            while end < s.len() && !boundary(s, end) {
                end += 1;
            }
            Ok(vstr(&s[begin..end]))
        }
        V::Range(b, e) => {
            let (begin, end) = bounded_range(*b, *e, s.len() as i64)?;
            if !boundary(s, begin) || !boundary(s, end) {
                return Err(nerr(ErrKind::Index));
            }
            Ok(vstr(&s[begin..end]))
        }
        _ => Err(nerr(ErrKind::Type)),
    }
}

pub fn seq_index(items: &[V], idx: &V, make: &dyn Fn(Vec<V>) -> V) -> NR {
    match idx {
        V::Num(_) => {
            let i = bounded_index(idx, items.len() as i64)?;
            Ok(items[i].clone())
        }
        V::Range(b, e) => {
            let (begin, end) = bounded_range(*b, *e, items.len() as i64)?;
            Ok(make(items[begin..end].to_vec()))
        }
        _ => Err(nerr(ErrKind::Type)),
    }
}

fn want_str<'a>(v: &'a V) -> Result<&'a str, NErr> {
    match v {
        V::Str(s) => Ok(s),
        _ => Err(nerr(ErrKind::Type)),
    }
}

fn new_vec(items: Vec<V>) -> V {
    V::Vec(Rc::new(RefCell::new(items)))
}

fn byte_vec(arg: &V, limit: f64) -> Result<Vec<f64>, NErr> {
    let items = match arg {
        V::Vec(v) => v.borrow().clone(),
        _ => return Err(nerr(ErrKind::Type)),
    };
    let mut out = Vec::new();
    for e in items {
        match e {
            V::Num(n) => {
                if n < 0.0 || n > limit || n.trunc() != n {
                    return Err(nerr(ErrKind::Value));
                }
                out.push(n);
            }
            _ => return Err(nerr(ErrKind::Type)),
        }
    }
    Ok(out)
}

pub fn string_static(name: &str, args: &[V]) -> NR {
    match name {
        "from" => {
            arity(args, 1)?;
            Ok(vstr(&display(&args[0])))
        }
        "from_ascii" => {
            arity(args, 1)?;
            let nums = byte_vec(&args[0], 255.0)?;
            let mut bytes = Vec::new();
            for n in nums {
                if n > 127.0 {
                    // (Q) bytes above 127 become the two-byte sequence C3, b & BF
                    bytes.push(0xC3u8);
                    bytes.push((n as u8) & 0xBF);
                } else {
                    bytes.push(n as u8);
                }
            }
            String::from_utf8(bytes).map(|s| vstr(&s)).map_err(|_| nerr(ErrKind::Value))
        }
        "from_utf8" => {
            arity(args, 1)?;
            let nums = byte_vec(&args[0], 255.0)?;
            let bytes: Vec<u8> = nums.iter().map(|n| *n as u8).collect();
            match utf8_decode(&bytes) {
                Some(s) => Ok(vstr(&s)),
                None => Err(nerr(ErrKind::Value)),
            }
        }
        "from_code_points" => {
            arity(args, 1)?;
            let nums = byte_vec(&args[0], 4294967295.0)?;
            let mut s = String::new();
            for n in nums {
                let cp = n as u64;
                if cp > 0x10FFFF || (0xD800..=0xDFFF).contains(&cp) {
                    return Err(nerr(ErrKind::Value));
                }
                s.push(char::from_u32(cp as u32).unwrap());
            }
            Ok(vstr(&s))
        }
        _ => Err(nerr(ErrKind::Attribute)),
    }
}

/// Reference UTF-8 decoder (RFC 3629: shortest form, no surrogates, at most U+10FFFF).
pub fn utf8_decode(bytes: &[u8]) -> Option<String> {
    let mut out = String::new();
    let mut i = 0;
    while i < bytes.len() {
        let b0 = bytes[i];
        let (len, min, init) = if b0 < 0x80 {
            (1, 0u32, b0 as u32)
        } else if b0 & 0xE0 == 0xC0 {
            (2, 0x80, (b0 & 0x1F) as u32)
        } else if b0 & 0xF0 == 0xE0 {
            (3, 0x800, (b0 & 0x0F) as u32)
        } else if b0 & 0xF8 == 0xF0 {
            (4, 0x10000, (b0 & 0x07) as u32)
        } else {
            return None;
        };
        if i + len > bytes.len() {
            return None;
        }
        let mut cp = init;
        for k in 1..len {
            let b = bytes[i + k];
            if b & 0xC0 != 0x80 {
                return None;
            }
            cp = (cp << 6) | (b & 0x3F) as u32;
        }
        if cp < min || cp > 0x10FFFF || (0xD800..=0xDFFF).contains(&cp) {
            return None;
        }
        out.push(char::from_u32(cp)?);
        i += len;
    }
    Some(out)
}

fn chars_of(s: &str) -> Vec<&str> {
    // split into characters by the boundary rule
    let mut out = Vec::new();
    let mut start = 0;
    for i in 1..=s.len() {
        if boundary(s, i) {
            out.push(&s[start..i]);
            start = i;
        }
    }
    out
}

pub fn string_method(s: &Rc<str>, name: &str, args: &[V]) -> NR {
    let st: &str = s;
    match name {
        "len" => {
            arity(args, 0)?;
            Ok(V::Num(st.len() as f64))
        }
        "iter" => {
            arity(args, 0)?;
            Ok(V::Iter(Rc::new(RefCell::new(NativeIter::Str(s.clone(), 0)))))
        }
        "count_chars" => {
            arity(args, 0)?;
            Ok(V::Num(chars_of(st).len() as f64))
        }
        "is_alpha" | "is_digit" | "is_hexdigit" => {
            arity(args, 0)?;
            let ok = !st.is_empty()
                && st.bytes().all(|b| match name {
                    "is_alpha" => (b'a'..=b'z').contains(&b) || (b'A'..=b'Z').contains(&b),
                    "is_digit" => (b'0'..=b'9').contains(&b),
                    _ => (b'0'..=b'9').contains(&b) || (b'a'..=b'f').contains(&b) || (b'A'..=b'F').contains(&b),
                });
            Ok(V::Bool(ok))
        }
        "char_byte_index" => {
            arity(args, 1)?;
            let cs = chars_of(st);
            let i = bounded_index(&args[0], cs.len() as i64)?;
            let off: usize = cs[..i].iter().map(|c| c.len()).sum();
            Ok(V::Num(off as f64))
        }
        "find" => {
            arity(args, 2)?;
            let sub = want_str(&args[0])?;
            if sub.is_empty() {
                return Err(nerr(ErrKind::Value));
            }
            let len = st.len() as i64;
            let mut start = validate_integer(&args[1])?;
            if start < 0 {
                start += len;
            }
            if start < 0 || start >= len {
                return Err(nerr(ErrKind::Index));
            }
            let start = start as usize;
            if !boundary(st, start) {
                return Err(nerr(ErrKind::Index));
            }
            let hay = st.as_bytes();
            let needle = sub.as_bytes();
            for i in start..hay.len() {
                if i + needle.len() <= hay.len() && &hay[i..i + needle.len()] == needle {
                    // both strings are valid UTF-8, so a byte match starts and ends on boundaries
                    return Ok(V::Num(i as f64));
                }
            }
            Ok(V::Nil)
        }
        "replace" => {
            arity(args, 2)?;
            let old = want_str(&args[0])?;
            if old.is_empty() {
                return Err(nerr(ErrKind::Value));
            }
            let new = want_str(&args[1])?;
            // leftmost non-overlapping occurrences
            let mut out = String::new();
            let mut i = 0;
            while i < st.len() {
                if st.as_bytes()[i..].starts_with(old.as_bytes()) {
                    out.push_str(new);
                    i += old.len();
                } else {
                    let mut j = i + 1;
                    while !boundary(st, j) {
                        j += 1;
                    }
                    out.push_str(&st[i..j]);
                    i = j;
                }
            }
            Ok(vstr(&out))
        }
        "split" => {
            arity(args, 1)?;
            let d = want_str(&args[0])?;
            if d.is_empty() {
                return Err(nerr(ErrKind::Value));
            }
            let mut parts = Vec::new();
            let mut cur = 0;
            let mut i = 0;
            while i + d.len() <= st.len() {
                if &st.as_bytes()[i..i + d.len()] == d.as_bytes() {
                    parts.push(vstr(&st[cur..i]));
                    i += d.len();
                    cur = i;
                } else {
                    i += 1;
                }
            }
            parts.push(vstr(&st[cur..]));
            Ok(new_vec(parts))
        }
        "starts_with" => {
            arity(args, 1)?;
            let p = want_str(&args[0])?;
            Ok(V::Bool(st.as_bytes().len() >= p.len() && &st.as_bytes()[..p.len()] == p.as_bytes()))
        }
        "ends_with" => {
            arity(args, 1)?;
            let p = want_str(&args[0])?;
            Ok(V::Bool(st.len() >= p.len() && &st.as_bytes()[st.len() - p.len()..] == p.as_bytes()))
        }
        "to_num" => {
            arity(args, 0)?;
            match st.parse::<f64>() {
                Ok(n) => Ok(V::Num(n)),
                Err(_) => Err(nerr(ErrKind::Value)),
            }
        }
        "to_bytes" => {
            arity(args, 0)?;
            Ok(new_vec(st.bytes().map(|b| V::Num(b as f64)).collect()))
        }
        "to_code_points" => {
            arity(args, 0)?;
            Ok(new_vec(st.chars().map(|c| V::Num(c as u32 as f64)).collect()))
        }
        _ => Err(nerr(ErrKind::Attribute)),
    }
}

pub const STRING_METHODS: &[&str] = &[
    "iter", "len", "is_alpha", "is_digit", "is_hexdigit", "count_chars", "char_byte_index", "find", "replace",
    "split", "starts_with", "ends_with", "to_num", "to_bytes", "to_code_points",
];
pub const VEC_METHODS: &[&str] = &["push", "pop", "len", "iter"];
pub const TUPLE_METHODS: &[&str] = &["len", "iter"];
pub const RANGE_METHODS: &[&str] = &["iter"];
pub const MAP_METHODS: &[&str] = &["has_key", "get", "insert", "remove", "clear", "len", "keys", "values", "items"];

pub fn vec_method(v: &Rc<RefCell<Vec<V>>>, name: &str, args: &[V]) -> NR {
    match name {
        "push" => {
            arity(args, 1)?;
            v.borrow_mut().push(args[0].clone());
            Ok(V::Vec(v.clone()))
        }
        "pop" => {
            arity(args, 0)?;
            v.borrow_mut().pop().ok_or(NErr { kind: ErrKind::Runtime, msg: Some("Cannot pop from empty Vec instance.".into()) })
        }
        "len" => {
            arity(args, 0)?;
            Ok(V::Num(v.borrow().len() as f64))
        }
        "iter" => {
            arity(args, 0)?;
            Ok(V::Iter(Rc::new(RefCell::new(NativeIter::Vec(v.clone(), 0)))))
        }
        _ => Err(nerr(ErrKind::Attribute)),
    }
}

pub fn tuple_method(t: &Rc<Vec<V>>, name: &str, args: &[V]) -> NR {
    match name {
        "len" => {
            arity(args, 0)?;
            Ok(V::Num(t.len() as f64))
        }
        "iter" => {
            arity(args, 0)?;
            Ok(V::Iter(Rc::new(RefCell::new(NativeIter::Tuple(t.clone(), 0)))))
        }
        _ => Err(nerr(ErrKind::Attribute)),
    }
}

pub fn range_method(b: i64, e: i64, name: &str, args: &[V]) -> NR {
    match name {
        "iter" => {
            arity(args, 0)?;
            Ok(V::Iter(Rc::new(RefCell::new(NativeIter::Range { cur: b, end: e, step: if b < e { 1 } else { -1 } }))))
        }
        _ => Err(nerr(ErrKind::Attribute)),
    }
}

/// `next` of the built-in iterators: Some(element) or None at the end.
pub fn iter_next(it: &Rc<RefCell<NativeIter>>) -> Option<V> {
    let mut b = it.borrow_mut();
    match &mut *b {
        NativeIter::Vec(v, i) => {
            let vb = v.borrow();
            if *i >= vb.len() {
                None
            } else {
                *i += 1;
                Some(vb[*i - 1].clone())
            }
        }
        NativeIter::Tuple(t, i) => {
            if *i >= t.len() {
                None
            } else {
                *i += 1;
                Some(t[*i - 1].clone())
            }
        }
        NativeIter::Range { cur, end, step } => {
            if *cur == *end {
                None
            } else {
                let r = *cur;
                *cur += *step;
                Some(V::Num(r as f64))
            }
        }
        NativeIter::Str(s, pos) => {
            if *pos >= s.len() {
                None
            } else {
                let start = *pos;
                let mut end = start + 1;
                while end < s.len() && !boundary(s, end) {
                    end += 1;
                }
                *pos = end;
                Some(vstr(&s[start..end]))
            }
        }
    }
}

fn key_check(k: &V) -> Result<(), NErr> {
    if k.hashable() {
        Ok(())
    } else {
        Err(nerr(ErrKind::Value))
    }
}

pub fn map_find(m: &[(V, V)], k: &V) -> Option<usize> {
    m.iter().position(|(k2, _)| values_equal(k, k2))
}

pub fn map_insert(m: &mut Vec<(V, V)>, k: V, v: V) -> V {
    match map_find(m, &k) {
        Some(i) => std::mem::replace(&mut m[i].1, v),
        None => {
            m.push((k, v));
            V::Nil
        }
    }
}

pub fn map_method(m: &Rc<RefCell<Vec<(V, V)>>>, name: &str, args: &[V]) -> NR {
    match name {
        "has_key" => {
            arity(args, 1)?;
            key_check(&args[0])?;
            Ok(V::Bool(map_find(&m.borrow(), &args[0]).is_some()))
        }
        "get" => {
            arity(args, 1)?;
            key_check(&args[0])?;
            let b = m.borrow();
            Ok(map_find(&b, &args[0]).map(|i| b[i].1.clone()).unwrap_or(V::Nil))
        }
        "insert" => {
            arity(args, 2)?;
            key_check(&args[0])?;
            Ok(map_insert(&mut m.borrow_mut(), args[0].clone(), args[1].clone()))
        }
        "remove" => {
            arity(args, 1)?;
            key_check(&args[0])?;
            let mut b = m.borrow_mut();
            match map_find(&b, &args[0]) {
                Some(i) => Ok(b.remove(i).1),
                None => Ok(V::Nil),
            }
        }
        "clear" => {
            arity(args, 0)?;
            m.borrow_mut().clear();
            Ok(V::Nil)
        }
        "len" => {
            arity(args, 0)?;
            Ok(V::Num(m.borrow().len() as f64))
        }
        "keys" => {
            arity(args, 0)?;
            Ok(new_vec(m.borrow().iter().map(|(k, _)| k.clone()).collect()))
        }
        "values" => {
            arity(args, 0)?;
            Ok(new_vec(m.borrow().iter().map(|(_, v)| v.clone()).collect()))
        }
        "items" => {
            arity(args, 0)?;
            Ok(new_vec(m.borrow().iter().map(|(k, v)| V::Tuple(Rc::new(vec![k.clone(), v.clone()]))).collect()))
        }
        _ => Err(nerr(ErrKind::Attribute)),
    }
}
