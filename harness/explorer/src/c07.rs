//! C07 — classes: construction, fields, dispatch, inheritance, super, static.
use crate::ast::*;
use crate::c05::operand_pool;
use crate::common::*;
use crate::mcheck::{self, Case, Hooks};
use crate::meval::Outcome;
use serde_json::json;

fn ret(e: Expr) -> Stmt {
    st(StmtKind::Return(Some(e)))
}

/// `try { print(<e>); } catch e { print(type(e)); }` — one use per line, errors do not end the run
fn probe(e: Expr) -> Stmt {
    st(StmtKind::Try(vec![print_stmt(e)], Some(("err".into(), vec![print_stmt(call(var("type"), vec![var("err")]))])), None))
}

#[derive(Clone, Copy, Debug, PartialEq)]
enum MSpec {
    Absent,
    Plain,
    CallsSuper,
    SuperValue,
    /// super.m() inside a lambda nested in the method
    CallsSuperInLambda,
}
#[derive(Clone, Copy, Debug, PartialEq)]
enum Ctor {
    None,
    Default,
    Explicit,
    ExplicitSuper,
}

fn class_decl(name: &str, parent: Option<&str>, m: MSpec, n: bool, ctor: Ctor) -> Stmt {
    let mut methods = Vec::new();
    let tag = |what: &str| s(&format!("{}.{}", name, what));
    match m {
        MSpec::Absent => {}
        // (the method says which receiver it got)
        MSpec::Plain => methods.push(method(FnKind::Method, "m", &[], vec![ret(Expr::Interp(vec![Part::Lit(format!("{}.m on ", name)), Part::Expr(call(var("type"), vec![Expr::SelfRef]))]))])),
        MSpec::CallsSuper => methods.push(method(FnKind::Method, "m", &[], vec![ret(bin(BinOp::Add, tag("m>"), Expr::SuperInvoke("m".into(), vec![])))])),
        MSpec::CallsSuperInLambda => methods.push(method(
            FnKind::Method,
            "m",
            &[],
            vec![var_stmt("via", lambda_expr(&[], Expr::SuperInvoke("m".into(), vec![]))), ret(bin(BinOp::Add, tag("m via lambda>"), call(var("via"), vec![])))],
        )),
        MSpec::SuperValue => methods.push(method(FnKind::Method, "m", &[], vec![var_stmt("sm", Expr::SuperGet("m".into())), ret(bin(BinOp::Add, tag("m via value>"), call(var("sm"), vec![])))])),
    }
    if n {
        methods.push(method(FnKind::Method, "n", &[], vec![ret(bin(BinOp::Add, tag("n>"), invoke(Expr::SelfRef, "m", vec![])))]));
    }
    let mut default_ctor = None;
    match ctor {
        Ctor::None => {}
        Ctor::Default => default_ctor = Some("new"),
        Ctor::Explicit => methods.push(method(FnKind::Ctor, "new", &["v"], vec![expr_stmt(set(Expr::SelfRef, "f", bin(BinOp::Add, tag("f="), var("v"))))])),
        Ctor::ExplicitSuper => methods.push(method(
            FnKind::Ctor,
            "new",
            &["v"],
            vec![expr_stmt(Expr::SuperInvoke("new".into(), vec![var("v")])), expr_stmt(set(Expr::SelfRef, "g", tag("g")))],
        )),
    }
    class_stmt(name, parent, default_ctor, methods)
}

fn uses(var_name: &str, class: &str, ctor: Ctor, names: &[&str]) -> Vec<Stmt> {
    let x = || var(var_name);
    let mut v = Vec::new();
    let make = match ctor {
        Ctor::Explicit | Ctor::ExplicitSuper => invoke(var(class), "new", vec![s("arg")]),
        _ => invoke(var(class), "new", vec![]),
    };
    v.push(st(StmtKind::Try(vec![var_stmt_global(var_name, make)], Some(("err".into(), vec![print_stmt(call(var("type"), vec![var("err")])), var_stmt_global(var_name, Expr::Nil)])), None)));
    v.push(probe(invoke(x(), "m", vec![])));
    v.push(probe(invoke(x(), "n", vec![])));
    v.push(probe(call(get(x(), "m"), vec![])));
    v.push(probe(invoke(x(), "m", vec![num(1.0)])));
    v.push(probe(get(x(), "f")));
    v.push(probe(get(x(), "g")));
    v.push(probe(get(x(), "zz")));
    v.push(probe(invoke(x(), "zz", vec![])));
    v.push(probe(call(var("type"), vec![x()])));
    // the constructor reached through the instance: found like any other member (nearest in the
    // ancestry), initialises that instance again and returns it
    v.push(probe(bin(BinOp::Eq, invoke(x(), "new", vec![]), x())));
    v.push(probe(get(x(), "f")));
    v.push(probe(bin(BinOp::Eq, invoke(x(), "new", vec![s("again")]), x())));
    v.push(probe(get(x(), "f")));
    v.push(probe(bin(BinOp::Eq, call(get(x(), "new"), vec![s("via value")]), x())));
    v.push(probe(get(x(), "f")));
    v.push(probe(get(x(), "g")));
    for n in names {
        v.push(probe(invoke(x(), "derives", vec![var(n)])));
    }
    // a method taken as a value stays bound to the instance it was taken from
    v.push(st(StmtKind::Try(
        vec![
            var_stmt_global("bm", get(x(), "n")),
            expr_stmt(set(x(), "m", lambda_expr(&[], s("field m")))),
            print_stmt(call(var("bm"), vec![])),
            print_stmt(invoke(x(), "m", vec![])),
            print_stmt(invoke(x(), "n", vec![])),
        ],
        Some(("err".into(), vec![print_stmt(call(var("type"), vec![var("err")]))])),
        None,
    )));
    // a field is found first whatever it holds: nil, false and 0 in a field named like a method shadow the
    // method for the fused call, for the plain read and for the call of the value read
    for val in [Expr::Nil, Expr::False, num(0.0)] {
        v.push(st(StmtKind::Try(vec![expr_stmt(set(x(), "m", val.clone()))], Some(("err".into(), vec![print_stmt(call(var("type"), vec![var("err")]))])), None)));
        v.push(probe(invoke(x(), "m", vec![])));
        v.push(probe(get(x(), "m")));
        v.push(probe(call(get(x(), "m"), vec![])));
        v.push(probe(invoke(x(), "n", vec![])));
    }
    v
}

/// top-level `var`: a global definition (the name keeps the statement readable)
fn var_stmt_global(name: &str, e: Expr) -> Stmt {
    // inside a try block a `var` would be a local; assign to a pre-declared global instead
    expr_stmt(assign(name, e))
}

fn g1(thorough: bool) -> Vec<Case> {
    let mspecs = [MSpec::Absent, MSpec::Plain, MSpec::CallsSuper, MSpec::SuperValue, MSpec::CallsSuperInLambda];
    let ctors = [Ctor::None, Ctor::Default, Ctor::Explicit, Ctor::ExplicitSuper];
    let names = ["A", "B", "C"];
    let mut out = Vec::new();
    for depth in 1..=3usize {
        // mixed-radix enumeration of per-class choices
        let per_class = mspecs.len() * 2 * ctors.len();
        let total = per_class.pow(depth as u32);
        for idx in 0..total {
            let mut k = idx;
            let mut specs = Vec::new();
            let mut ok = true;
            for level in 0..depth {
                let c = k % per_class;
                k /= per_class;
                let m = mspecs[c % 5];
                let n = (c / 5) % 2 == 1;
                let ctor = ctors[c / 10];
                // `super` needs a superclass (otherwise a compile error)
                if level == 0 && (matches!(m, MSpec::CallsSuper | MSpec::SuperValue | MSpec::CallsSuperInLambda) || ctor == Ctor::ExplicitSuper) {
                    ok = false;
                }
                specs.push((m, n, ctor));
            }
            if !ok {
                continue;
            }
            let mut prog = vec![var_stmt("x", Expr::Nil), var_stmt("y", Expr::Nil), var_stmt("bm", Expr::Nil)];
            for (level, (m, n, ctor)) in specs.iter().enumerate() {
                let parent = if level == 0 { None } else { Some(names[level - 1]) };
                prog.push(class_decl(names[level], parent, *m, *n, *ctor));
            }
            let top = depth - 1;
            prog.extend(uses("x", names[top], specs[top].2, &names[..depth]));
            if depth >= 2 {
                prog.extend(uses("y", names[top - 1], specs[top - 1].2, &names[..depth]));
            }
            out.push(Case::new("G1_hierarchies", prog));
        }
    }
    out
}

fn g2() -> Vec<Case> {
    let mut out = Vec::new();
    for later_instance_method in [false, true] {
        for call_through in 0..3 {
            let mut methods = vec![
                method(FnKind::Static, "make", &[], vec![ret(invoke(Expr::CapSelf, "new", vec![]))]),
                method(FnKind::Static, "name", &[], vec![ret(bin(BinOp::Add, s("static name of "), invoke(var("String"), "from", vec![Expr::CapSelf])))]),
                method(FnKind::Static, "both", &[], vec![ret(invoke(Expr::CapSelf, "name", vec![]))]),
                method(FnKind::Method, "who", &[], vec![ret(s("instance of S"))]),
            ];
            if later_instance_method {
                // an instance method defined after a static one of the same name replaces it on the class object
                methods.push(method(FnKind::Method, "name", &[], vec![ret(s("instance name"))]));
            }
            let mut prog = vec![class_stmt("S", None, Some("new"), methods), class_stmt("T", Some("S"), Some("new"), vec![])];
            let recv = match call_through {
                0 => var("S"),
                1 => invoke(var("S"), "new", vec![]),
                _ => invoke(var("T"), "new", vec![]),
            };
            prog.push(probe(invoke(recv.clone(), "name", vec![])));
            prog.push(probe(invoke(recv.clone(), "both", vec![])));
            prog.push(probe(invoke(invoke(recv.clone(), "make", vec![]), "who", vec![])));
            prog.push(probe(call(get(recv.clone(), "name"), vec![])));
            prog.push(probe(invoke(recv.clone(), "name", vec![num(1.0)])));
            prog.push(probe(invoke(var("T"), "name", vec![])));
            prog.push(probe(invoke(recv, "nothing", vec![])));
            out.push(Case::new("G2_static_and_Self", prog));
        }
    }
    out
}

fn g3() -> Vec<Case> {
    let mut out = Vec::new();
    // class returned from a function, capturing a local; superclass local to the function
    for with_super in [false, true] {
        for rebind in [false, true] {
            let mut body = vec![var_stmt("secret", s("captured"))];
            if with_super {
                body.push(class_stmt("Base", None, None, vec![method(FnKind::Method, "hi", &[], vec![ret(s("Base.hi"))])]));
            }
            let mut methods = vec![method(FnKind::Method, "peek", &[], vec![ret(var("secret"))]), method(FnKind::Method, "poke", &["v"], vec![expr_stmt(assign("secret", var("v")))])];
            if with_super {
                methods.push(method(FnKind::Method, "hi", &[], vec![ret(bin(BinOp::Add, s("Local.hi>"), Expr::SuperInvoke("hi".into(), vec![])))]));
            }
            body.push(class_stmt("Local", if with_super { Some("Base") } else { None }, Some("new"), methods));
            if rebind && with_super {
                body.push(expr_stmt(assign("Base", s("not a class any more"))));
            }
            body.push(ret(var("Local")));
            let mut prog = vec![fn_stmt(func("mk", &[], body)), var_stmt("K1", call(var("mk"), vec![])), var_stmt("K2", call(var("mk"), vec![]))];
            prog.push(var_stmt("a", invoke(var("K1"), "new", vec![])));
            prog.push(var_stmt("b", invoke(var("K2"), "new", vec![])));
            prog.push(probe(invoke(var("a"), "peek", vec![])));
            prog.push(expr_stmt(invoke(var("a"), "poke", vec![s("changed")])));
            prog.push(probe(invoke(var("a"), "peek", vec![])));
            prog.push(probe(invoke(invoke(var("K1"), "new", vec![]), "peek", vec![])));
            prog.push(probe(invoke(var("b"), "peek", vec![])));
            prog.push(probe(invoke(var("a"), "hi", vec![])));
            prog.push(probe(bin(BinOp::Eq, var("K1"), var("K2"))));
            prog.push(probe(invoke(var("a"), "derives", vec![var("K2")])));
            out.push(Case::new("G3_local_classes", prog));
        }
    }
    // the superclass *name* rebound after definition changes nothing
    out.push(Case::new(
        "G3_superclass_rebound",
        vec![
            class_stmt("P", None, None, vec![method(FnKind::Method, "m", &[], vec![ret(s("P.m"))])]),
            class_stmt("Q", Some("P"), Some("new"), vec![method(FnKind::Method, "m", &[], vec![ret(bin(BinOp::Add, s("Q.m>"), Expr::SuperInvoke("m".into(), vec![])))])]),
            class_stmt("Other", None, None, vec![method(FnKind::Method, "m", &[], vec![ret(s("Other.m"))])]),
            var_stmt("q", invoke(var("Q"), "new", vec![])),
            probe(invoke(var("q"), "m", vec![])),
            expr_stmt(assign("P", var("Other"))),
            probe(invoke(var("q"), "m", vec![])),
            probe(invoke(invoke(var("Q"), "new", vec![]), "m", vec![])),
            probe(invoke(var("q"), "derives", vec![var("Other")])),
        ],
    ));
    out
}

fn g4() -> Vec<Case> {
    let mut out = Vec::new();
    for (name, prelude, e) in operand_pool() {
        if name == "class" {
            continue;
        }
        let mut prog = prelude.clone();
        prog.push(var_stmt("Sup", e.clone()));
        prog.push(st(StmtKind::Try(vec![class_stmt("Sub", Some("Sup"), Some("new"), vec![]), print_stmt(s("defined"))], Some(("err".into(), vec![print_stmt(call(var("type"), vec![var("err")]))])), None)));
        prog.push(print_stmt(s("after")));
        out.push(Case::new("G4_non_class_superclass", prog.clone()));
        // the failed declaration had members of its own; classes declared afterwards (at once, in a
        // function, deriving one another) have exactly their own members and work
        let mut prog = prelude.clone();
        prog.push(var_stmt("Sup", e.clone()));
        prog.push(st(StmtKind::Try(
            vec![
                class_stmt("Sub", Some("Sup"), Some("new"), vec![method(FnKind::Method, "left_behind", &[], vec![ret(s("a method of the class that failed"))]), method(FnKind::Static, "left_static", &[], vec![ret(s("a static method of the class that failed"))])]),
                print_stmt(s("defined")),
            ],
            Some(("err".into(), vec![print_stmt(call(var("type"), vec![var("err")]))])),
            None,
        )));
        prog.push(class_stmt("Later", None, Some("new"), vec![method(FnKind::Method, "own", &[], vec![ret(s("Later's own method"))])]));
        prog.push(var_stmt("l", invoke(var("Later"), "new", vec![])));
        prog.push(probe(invoke(var("l"), "own", vec![])));
        prog.push(probe(invoke(var("l"), "left_behind", vec![])));
        prog.push(probe(invoke(var("Later"), "left_static", vec![])));
        prog.push(fn_stmt(func("mk", &[], vec![class_stmt("Inner", Some("Later"), Some("new"), vec![method(FnKind::Method, "inner", &[], vec![ret(s("Inner's method"))])]), ret(invoke(var("Inner"), "new", vec![]))])));
        prog.push(var_stmt("i", call(var("mk"), vec![])));
        prog.push(probe(invoke(var("i"), "inner", vec![])));
        prog.push(probe(invoke(var("i"), "own", vec![])));
        prog.push(probe(invoke(var("i"), "left_behind", vec![])));
        prog.push(probe(invoke(var("i"), "derives", vec![var("Later")])));
        out.push(Case::new("G4_classes_declared_after_a_failed_declaration", prog));
    }
    // deriving from the built-in Error hierarchy
    for base in ["Error", "TypeError", "StopIter"] {
        let ctor_body = if base == "StopIter" { vec![expr_stmt(Expr::SuperInvoke("new".into(), vec![]))] } else { vec![expr_stmt(Expr::SuperInvoke("new".into(), vec![var("c")]))] };
        out.push(Case::new(
            "G4_derive_built_in_error",
            vec![
                class_stmt("Mine", Some(base), None, vec![method(FnKind::Ctor, "new", &["c"], ctor_body)]),
                var_stmt("m", invoke(var("Mine"), "new", vec![s("ctx")])),
                probe(get(var("m"), "context")),
                probe(invoke(var("m"), "derives", vec![var("Error")])),
                probe(invoke(var("m"), "derives", vec![var(base)])),
                probe(call(var("type"), vec![var("m")])),
                st(StmtKind::Throw(var("m"))),
            ],
        ));
    }
    out
}

fn g5() -> Vec<Case> {
    let mut out = Vec::new();
    let k = class_stmt(
        "K",
        None,
        None,
        vec![
            method(FnKind::Ctor, "new", &["v"], vec![expr_stmt(set(Expr::SelfRef, "v", var("v"))), st(StmtKind::If(bin(BinOp::Eq, var("v"), num(0.0)), vec![st(StmtKind::Return(None))], None)), expr_stmt(set(Expr::SelfRef, "late", s("set after the early return")))]),
            method(FnKind::Method, "get", &[], vec![ret(get(Expr::SelfRef, "v"))]),
        ],
    );
    let d = class_stmt("D", None, Some("make"), vec![]);
    let mut prog = vec![k.clone(), d.clone(), var_stmt("a", invoke(var("K"), "new", vec![num(1.0)])), var_stmt("z", invoke(var("K"), "new", vec![num(0.0)]))];
    prog.push(probe(invoke(var("a"), "get", vec![])));
    prog.push(probe(get(var("a"), "late")));
    prog.push(probe(get(var("z"), "late")));
    // a constructor invoked on an instance initialises that instance and returns it
    prog.push(probe(bin(BinOp::Eq, invoke(var("a"), "new", vec![num(5.0)]), var("a"))));
    prog.push(probe(invoke(var("a"), "get", vec![])));
    // arity
    prog.push(probe(invoke(var("K"), "new", vec![])));
    prog.push(probe(invoke(var("K"), "new", vec![num(1.0), num(2.0)])));
    prog.push(probe(invoke(var("D"), "make", vec![num(1.0)])));
    prog.push(probe(call(var("type"), vec![invoke(var("D"), "make", vec![])])));
    // the constructor as a value
    prog.push(var_stmt("ctor", get(var("K"), "new")));
    prog.push(probe(invoke(call(var("ctor"), vec![num(9.0)]), "get", vec![])));
    // classes are not callable
    prog.push(probe(call(var("K"), vec![num(1.0)])));
    // two takes of one method are different bound objects; one take equals itself
    prog.push(var_stmt("t", get(var("a"), "get")));
    prog.push(probe(bin(BinOp::Eq, var("t"), var("t"))));
    prog.push(probe(bin(BinOp::Eq, get(var("a"), "get"), get(var("a"), "get"))));
    // fields on anything but instances
    prog.push(probe(set(var("K"), "field", num(1.0))));
    prog.push(probe(set(num(1.0), "field", num(1.0))));
    prog.push(probe(get(var("K"), "field")));
    out.push(Case::new("G5_construction", prog));
    // x.m(a) and (x.m)(a) agree for every arity
    for nargs in 0..=3usize {
        let args: Vec<Expr> = (0..nargs).map(|i| num(i as f64)).collect();
        let two = class_stmt("Two", None, Some("new"), vec![method(FnKind::Method, "m", &["p", "q"], vec![ret(Expr::VecLit(vec![var("p"), var("q")]))])]);
        out.push(Case::new(
            "G5_invoke_equals_get_then_call",
            vec![two, var_stmt("o", invoke(var("Two"), "new", vec![])), probe(invoke(var("o"), "m", args.clone())), probe(call(get(var("o"), "m"), args.clone())), expr_stmt(set(var("o"), "m", lambda_expr(&["only"], var("only")))), probe(invoke(var("o"), "m", args.clone())), probe(call(get(var("o"), "m"), args))],
        ));
    }
    out
}

/// G6: where `super` may sit.  The receiver handed to the superclass's method is the first parameter of
/// the enclosing *method* - `self` in an instance method or constructor, `Self` in a static method -
/// however deeply the expression is nested in lambdas and named functions inside that method, and wherever
/// the class itself was declared (top level, a function, an instance / static method of another class, a
/// lambda inside such a method).
fn g6() -> Vec<Case> {
    let mut out = Vec::new();
    let base = || {
        class_stmt(
            "Base",
            None,
            None,
            vec![
                method(FnKind::Ctor, "make", &["tag"], vec![expr_stmt(set(Expr::SelfRef, "tag", var("tag")))]),
                method(FnKind::Static, "who", &[], vec![ret(Expr::Interp(vec![Part::Lit("Base.who through ".into()), Part::Expr(Expr::CapSelf)]))]),
                method(FnKind::Method, "name", &[], vec![ret(Expr::Interp(vec![Part::Lit("Base.name of ".into()), Part::Expr(call(var("type"), vec![Expr::SelfRef])), Part::Lit(" tagged ".into()), Part::Expr(get(Expr::SelfRef, "tag"))]))]),
            ],
        )
    };
    // the expression, wrapped `nest` times; returns the statements of the method body
    fn nested(nest: usize, e: Expr) -> Vec<Stmt> {
        match nest {
            0 => vec![ret(e)],
            1 => vec![var_stmt("l", lambda_expr(&[], e)), ret(call(var("l"), vec![]))],
            2 => vec![fn_stmt(func("inner", &[], vec![ret(e)])), ret(call(var("inner"), vec![]))],
            3 => vec![var_stmt("l", lambda_expr(&[], lambda_expr(&[], e))), ret(call(call(var("l"), vec![]), vec![]))],
            // the function escapes and is called after the method returned
            _ => vec![ret(lambda_expr(&[], e))],
        }
    }
    for declared_in in 0..5 {
        for nest in 0..5 {
            let late = |e: Expr| if nest == 4 { call(e, vec![]) } else { e };
            let derived = class_stmt(
                "Derived",
                Some("Base"),
                None,
                vec![
                    method(FnKind::Ctor, "make", &["tag"], vec![expr_stmt(Expr::SuperInvoke("make".into(), vec![bin(BinOp::Add, var("tag"), s("!"))]))]),
                    method(FnKind::Static, "who", &[], nested(nest, bin(BinOp::Add, s("Derived.who > "), Expr::SuperInvoke("who".into(), vec![])))),
                    method(FnKind::Static, "who_value", &[], nested(nest, call(Expr::SuperGet("who".into()), vec![]))),
                    method(FnKind::Static, "factory", &["tag"], nested(nest, Expr::SuperInvoke("make".into(), vec![var("tag")]))),
                    method(FnKind::Method, "name", &[], nested(nest, bin(BinOp::Add, s("Derived.name > "), Expr::SuperInvoke("name".into(), vec![])))),
                    method(FnKind::Method, "who_from_instance", &[], nested(nest, Expr::SuperInvoke("who".into(), vec![]))),
                ],
            );
            let sub = class_stmt("Sub", Some("Derived"), None, vec![]);
            let mut prog = vec![base()];
            match declared_in {
                0 => {
                    prog.push(derived);
                    prog.push(sub);
                }
                1 => {
                    prog.push(fn_stmt(func("mk", &[], vec![derived, sub, ret(Expr::VecLit(vec![var("Derived"), var("Sub")]))])));
                    prog.push(var_stmt("pair", call(var("mk"), vec![])));
                    prog.push(var_stmt("Derived", index(var("pair"), num(0.0))));
                    prog.push(var_stmt("Sub", index(var("pair"), num(1.0))));
                }
                _ => {
                    let body = vec![derived, sub, ret(Expr::VecLit(vec![var("Derived"), var("Sub")]))];
                    let (kind, body) = match declared_in {
                        2 => (FnKind::Method, body),
                        3 => (FnKind::Static, body),
                        _ => (FnKind::Method, vec![var_stmt("mk", lambda_block(&[], body)), ret(call(var("mk"), vec![]))]),
                    };
                    prog.push(class_stmt("Workshop", None, Some("new"), vec![method(kind, "build", &[], body)]));
                    prog.push(var_stmt("pair", invoke(if declared_in == 3 { var("Workshop") } else { invoke(var("Workshop"), "new", vec![]) }, "build", vec![])));
                    prog.push(var_stmt("Derived", index(var("pair"), num(0.0))));
                    prog.push(var_stmt("Sub", index(var("pair"), num(1.0))));
                }
            }
            prog.push(var_stmt("d", Expr::Nil));
            prog.push(var_stmt("u", Expr::Nil));
            prog.push(st(StmtKind::Try(vec![expr_stmt(assign("d", invoke(var("Derived"), "make", vec![s("d")]))), expr_stmt(assign("u", invoke(var("Sub"), "make", vec![s("u")])))], Some(("err".into(), vec![print_stmt(call(var("type"), vec![var("err")]))])), None)));
            for recv in ["Derived", "Sub", "d", "u"] {
                prog.push(probe(late(invoke(var(recv), "who", vec![]))));
                prog.push(probe(late(invoke(var(recv), "who_value", vec![]))));
                prog.push(probe(get(late(invoke(var(recv), "factory", vec![s("made")])), "tag")));
                prog.push(probe(call(var("type"), vec![late(invoke(var(recv), "factory", vec![s("made")]))])));
            }
            for recv in ["d", "u"] {
                prog.push(probe(late(invoke(var(recv), "name", vec![]))));
                prog.push(probe(late(invoke(var(recv), "who_from_instance", vec![]))));
            }
            out.push(Case::new("G6_super_receiver_wherever_it_sits", prog));
        }
    }
    out
}

/// G7: the one member every class has from Object - `derives` - is a member like any other: a class may
/// define its own, and then instances of that class and of every class below it, at any depth, find that
/// definition (nearest in the declared ancestry) through a call, through the value taken, and through
/// `super`; classes beside it still find Object's.
fn g7() -> Vec<Case> {
    let mut out = Vec::new();
    for overriding_level in 0..3usize {
        for depth in (overriding_level + 1)..=3usize {
            for leaf_calls_super in [false, true] {
                let names = ["A", "B", "C"];
                let mut prog = Vec::new();
                for level in 0..depth {
                    let mut methods = Vec::new();
                    if level == overriding_level {
                        methods.push(method(FnKind::Method, "derives", &["k"], vec![ret(Expr::Interp(vec![Part::Lit(format!("{}'s own derives asked about ", names[level])), Part::Expr(var("k"))]))]));
                    } else if level == depth - 1 && leaf_calls_super && level > overriding_level {
                        methods.push(method(FnKind::Method, "derives", &["k"], vec![ret(bin(BinOp::Add, s(&format!("{} then ", names[level])), Expr::SuperInvoke("derives".into(), vec![var("k")])))]));
                    }
                    methods.push(method(FnKind::Method, "ask", &["k"], vec![ret(invoke(Expr::SelfRef, "derives", vec![var("k")]))]));
                    prog.push(class_stmt(names[level], if level == 0 { None } else { Some(names[level - 1]) }, Some("new"), methods));
                }
                prog.push(class_stmt("Beside", None, Some("new"), vec![]));
                for level in 0..depth {
                    let x = invoke(var(names[level]), "new", vec![]);
                    prog.push(var_stmt_local_or_global(&format!("x{}", level), x));
                    let xv = var(&format!("x{}", level));
                    prog.push(probe(invoke(xv.clone(), "derives", vec![var(names[0])])));
                    prog.push(probe(call(get(xv.clone(), "derives"), vec![var("Beside")])));
                    prog.push(probe(invoke(xv.clone(), "ask", vec![var(names[level])])));
                }
                prog.push(probe(invoke(invoke(var("Beside"), "new", vec![]), "derives", vec![var("Beside")])));
                prog.push(probe(invoke(invoke(var("Beside"), "new", vec![]), "derives", vec![var("A")])));
                out.push(Case::new("G7_a_member_of_Object_overridden", prog));
            }
        }
    }
    out
}

fn var_stmt_local_or_global(name: &str, e: Expr) -> Stmt {
    var_stmt(name, e)
}


/// G8: callables of every kind held in an instance field (named like a method of the class, or not) or in a
/// module attribute, called with method-call syntax, after taking the member as a value, and through a
/// variable - with 0-2 arguments.  `x.f(a)` is `(x.f)(a)` whatever `f` holds: a function, a lambda, a
/// closure, a bound method of this or another instance, a built-in function, a bound built-in method, a
/// constructor or static method taken as a value; things that cannot be called report TypeError.
fn g8() -> Vec<Case> {
    use crate::meval::ModuleSource;
    let mut out = Vec::new();
    let callables: Vec<(&str, Expr)> = vec![
        ("named function", var("named")),
        ("lambda", lambda_expr(&["p"], Expr::VecLit(vec![s("lambda got"), var("p")]))),
        ("closure", var("counter")),
        ("bound method of another instance", get(var("other"), "who")),
        ("bound method of the same instance", get(var("x"), "who")),
        ("built-in function type", var("type")),
        ("built-in function print", var("print")),
        ("bound built-in method of a vec", get(Expr::VecLit(vec![num(1.0), num(2.0)]), "len")),
        ("bound built-in method of a string", get(s("abc"), "starts_with")),
        ("static built-in taken as a value", get(var("String"), "from")),
        ("constructor taken as a value", get(var("K"), "new")),
        ("static method taken as a value", get(var("K"), "stat")),
        ("a class", var("K")),
        ("an instance", var("other")),
        ("a number", num(5.0)),
        ("nil", Expr::Nil),
    ];
    let decls = || -> Vec<Stmt> {
        vec![
            fn_stmt(func("named", &["p"], vec![ret(Expr::VecLit(vec![s("named got"), var("p")]))])),
            var_stmt("count", num(0.0)),
            var_stmt("counter", lambda_block(&["p"], vec![expr_stmt(Expr::CompoundAssign("count".into(), BinOp::Add, Box::new(num(1.0)))), ret(Expr::VecLit(vec![s("closure call number"), var("count"), var("p")]))])),
            class_stmt(
                "K",
                None,
                None,
                vec![
                    method(FnKind::Ctor, "new", &["tag"], vec![expr_stmt(set(Expr::SelfRef, "tag", var("tag")))]),
                    method(FnKind::Method, "who", &["p"], vec![ret(Expr::VecLit(vec![s("who of"), get(Expr::SelfRef, "tag"), var("p")]))]),
                    method(FnKind::Method, "m", &["p"], vec![ret(Expr::VecLit(vec![s("the class's own m"), get(Expr::SelfRef, "tag"), var("p")]))]),
                    method(FnKind::Static, "stat", &["p"], vec![ret(Expr::VecLit(vec![s("static got"), var("p")]))]),
                ],
            ),
            var_stmt("x", invoke(var("K"), "new", vec![s("x")])),
            var_stmt("other", invoke(var("K"), "new", vec![s("other")])),
        ]
    };
    for (what, callable) in &callables {
        for field in ["m", "fresh"] {
            let mut prog = decls();
            prog.push(print_stmt(s(&format!("{} in field {}", what, field))));
            prog.push(expr_stmt(set(var("x"), field, callable.clone())));
            for nargs in 0..=2usize {
                let args: Vec<Expr> = (0..nargs).map(|i| s(&format!("arg{}", i))).collect();
                prog.push(probe(invoke(var("x"), field, args.clone())));
                prog.push(probe(call(Expr::Paren(Box::new(get(var("x"), field))), args.clone())));
                prog.push(var_stmt(&format!("g{}", nargs), get(var("x"), field)));
                prog.push(probe(call(var(&format!("g{}", nargs)), args.clone())));
                // the instance and its other members are untouched by the call
                prog.push(probe(invoke(var("x"), "who", vec![s("after")])));
            }
            out.push(Case::new("G8_callables_held_in_fields", prog));
        }
        // the same through a module attribute
        let mut prog = decls();
        prog.push(st(StmtKind::Import("holder".into(), None)));
        prog.push(print_stmt(s(&format!("{} in a module attribute", what))));
        prog.push(expr_stmt(set(var("holder"), "slot", callable.clone())));
        for nargs in 0..=2usize {
            let args: Vec<Expr> = (0..nargs).map(|i| s(&format!("arg{}", i))).collect();
            prog.push(probe(invoke(var("holder"), "slot", args.clone())));
            prog.push(probe(call(Expr::Paren(Box::new(get(var("holder"), "slot"))), args.clone())));
            prog.push(probe(invoke(var("holder"), "own", args.clone())));
        }
        let mut c = Case::new("G8_callables_held_in_module_attributes", prog);
        c.modules.insert(
            "holder".into(),
            ModuleSource { program: Some(vec![var_stmt("slot", Expr::Nil), fn_stmt(func("own", &["p"], vec![ret(Expr::VecLit(vec![s("the module's own function got"), var("p")]))]))]), compile_error: false },
        );
        out.push(c);
    }
    out
}

/// every family (C10, C02: programs that end in errors belong to the comparison)
/// G10: the members the interpreter looks up by itself obey the same rule as every other member access - own
/// fields first, then the class's methods.  `for` asks its iterable for `iter` and the iterator for `next`;
/// the library's collect / reduce / map do the same.  A class that is a complete iterator of its own (methods
/// `iter` and `next`), one derived from Iter with a `next` of its own, and one derived from Iter with no
/// `next` at all get an own field `next` (a closure over a counter, a bound built-in method of another
/// iterator, a bound method of another instance) or an own field `iter`, and are consumed by `for`, an
/// explicit `next()` loop, collect, reduce, map, and by taking the member as a value.  The elements are the
/// field's, by construction.
fn g10() -> Vec<crate::expect::Expect> {
    use crate::expect::Expect;
    let mut out = Vec::new();
    let classes = [
        ("own_methods", "#[constructor(new)]\nclass It {\n  fn iter(self) { return self; }\n  fn next(self) { return StopIter.new(); }\n}\n"),
        ("derived_from_Iter", "#[constructor(new), derive(Iter)]\nclass It {\n  fn next(self) { return StopIter.new(); }\n}\n"),
        ("only_iter", "#[constructor(new), derive(Iter)]\nclass It {}\n"),
    ];
    let fields: [(&str, &str, Vec<&str>); 4] = [
        ("closure over a counter", "var n = 0;\nit.next = || { n += 1; if n > 3 { return StopIter.new(); } return n * 10; };\n", vec!["10", "20", "30"]),
        ("bound built-in method of another iterator", "var src = [7, 8, 9].iter();\nit.next = src.next;\n", vec!["7", "8", "9"]),
        ("bound method of another instance", "#[constructor(new)]\nclass Src { fn next(self) { self.k += 1; if self.k > 2 { return StopIter.new(); } return \"s${self.k}\"; } }\nvar other = Src.new();\nother.k = 0;\nit.next = other.next;\n", vec!["s1", "s2"]),
        ("field iter returning another iterator", "it.iter = || [4, 5].iter();\n", vec!["4", "5"]),
    ];
    let consumers = ["for", "explicit next", "collect", "reduce", "map", "taken as a value"];
    for (cname, class) in classes {
        for (fname, field, elems) in &fields {
            for kname in consumers {
                if cname == "own_methods" && ["collect", "reduce", "map"].contains(&kname) {
                    continue;
                }
                if fname.starts_with("field iter") && kname == "taken as a value" {
                    continue;
                }
                let (consumer, mut expected): (&str, Vec<String>) = match kname {
                    "for" => ("for x in it { print(x); }\n", elems.iter().map(|e| e.to_string()).collect()),
                    "explicit next" => ("var i = it.iter();\nvar v = i.next();\nvar guard = 0;\nwhile !v.derives(StopIter) && guard < 10 { print(v); v = i.next(); guard += 1; }\n", elems.iter().map(|e| e.to_string()).collect()),
                    "collect" => ("print(it.collect());\n", vec![format!("[{}]", elems.join(", "))]),
                    "reduce" => ("print(it.reduce(|a, e| [a, e], nil));\n", vec![elems.iter().fold("nil".to_string(), |a, e| format!("[{}, {}]", a, e))]),
                    "map" => ("print(it.map(|e| [e]).collect());\n", vec![format!("[{}]", elems.iter().map(|e| format!("[{}]", e)).collect::<Vec<_>>().join(", "))]),
                    _ => ("var f = it.next;\nprint(f());\nprint(it.next());\n", vec![elems[0].to_string(), elems[1].to_string()]),
                };
                expected.push("end".into());
                let src = format!("{}var it = It.new();\n{}{}print(\"end\");\n", class, field, consumer);
                out.push(Expect {
                    family: "G10_members_the_interpreter_looks_up_itself",
                    request: proto::Request { op: "run".into(), snippets: vec![src], fuel: Some(1_000_000), ..Default::default() },
                    out: vec![expected],
                    end: vec!["ok".into()],
                    describe: json!({"class": cname, "field": fname, "consumer": kname}),
                    nontrivial: true,
                });
            }
        }
    }
    out
}

pub fn cases_all(thorough: bool) -> Vec<Case> {
    g1(thorough).into_iter().chain(g2()).chain(g3()).chain(g4()).chain(g5()).chain(g6()).chain(g7()).chain(g8()).collect()
}


/// G9: `x.m(a)` is `(x.m)(a)` also where `m` is a built-in method that a program-declared class inherits
/// from a built-in class: an instance of such a class is not a value the built-in can work on, and every way
/// of reaching the method - call syntax, the member taken as a value, the value kept in a variable or in a
/// field of another object, `super.m` - reports the same TypeError to the same handler.
fn g9() -> Vec<crate::expect::Expect> {
    use crate::expect::Expect;
    let bases: [(&str, &str, &str); 8] = [
        ("[1, 2]", "push", "3"),
        ("[1, 2]", "len", ""),
        ("[1, 2]", "pop", ""),
        ("\"abc\"", "len", ""),
        ("\"abc\"", "starts_with", "\"a\""),
        ("(1, 2)", "len", ""),
        ("{1: 2}", "insert", "3, 4"),
        ("{1: 2}", "keys", ""),
    ];
    let mut out = Vec::new();
    // `self` does not exist in a static method - nor in a function or lambda nested in one (it would have to
    // come from somewhere: there is no receiver); the program is rejected.  In an instance method the same
    // nestings see the receiver.
    for nesting in ["return self;", "return || self;", "fn inner() { return self; } return inner;", "return || || self;", "var f = || { return self; }; return f;"] {
        for (attr, is_static) in [("#[static] fn probe()", true), ("fn probe(self)", false)] {
            let src = format!("#[constructor(new)]\nclass K {{\n  {} {{ {} }}\n}}\nprint(\"compiled\");\n", attr, nesting);
            out.push(Expect {
                family: "G9_self_in_static_methods",
                request: proto::Request { op: "run".into(), snippets: vec![src], fuel: Some(1_000_000), ..Default::default() },
                out: vec![if is_static { vec![] } else { vec!["compiled".to_string()] }],
                end: vec![if is_static { "[module \"main\", line 3] Error at 'self': Cannot use 'self' in a static method.".to_string() } else { "ok".to_string() }],
                describe: json!({"nesting": nesting, "static": is_static}),
                nontrivial: true,
            });
        }
    }
    for (base, m, args) in bases {
        let src = format!(
            "var D = type({base});\n#[constructor(new), derive(D)]\nclass Own {{\n  fn via_super(self) {{ return super.{m}({args}); }}\n  fn via_super_value(self) {{ var b = super.{m}; return b({args}); }}\n}}\n#[constructor(new)]\nclass Holder {{}}\nvar x = Own.new();\nfn show(f) {{ try {{ f(); print(\"completed\"); }} catch e {{ print(type(e)); }} }}\nshow(|| x.{m}({args}));\nshow(|| (x.{m})({args}));\nshow(|| {{ var b = x.{m}; return b({args}); }});\nshow(|| {{ var h = Holder.new(); h.f = x.{m}; return h.f({args}); }});\nshow(|| x.via_super());\nshow(|| x.via_super_value());\nprint(x.derives(D));\n",
            base = base, m = m, args = args
        );
        out.push(Expect {
            family: "G9_inherited_built_in_methods_by_every_route",
            request: proto::Request { op: "run".into(), snippets: vec![src], fuel: Some(1_000_000), ..Default::default() },
            out: vec![vec!["<class TypeError>".to_string(); 6].into_iter().chain(std::iter::once("true".to_string())).collect()],
            end: vec!["ok".into()],
            describe: json!({"built_in_value": base, "method": m}),
            nontrivial: true,
        });
    }
    out
}

pub fn cases_for_c04(thorough: bool) -> Vec<Case> {
    g1(thorough).into_iter().chain(g2()).chain(g3()).chain(g5()).chain(g6()).collect()
}

pub fn run(ctx: &Ctx) -> Report {
    let mut report = Report::new();
    let thorough = ctx.thorough();
    let cases = g1(thorough).into_iter().chain(g2()).chain(g3()).chain(g4()).chain(g5()).chain(g6()).chain(g7()).chain(g8());
    let hooks = Hooks { attribute: &|_c, _m, _o, _mm| None, nontrivial: &|_c, m| m.out.len() >= 4 || matches!(m.outcome, Outcome::Uncaught(_)), fuel: 2_000_000 };
    let stats = mcheck::run(ctx, cases, &hooks);
    mcheck::fill_report(
        &mut report,
        &stats,
        "G1: every hierarchy of depth 1-3 where each class independently has method m absent / plain / overriding through super.m() / through super.m taken as a value / through super.m() inside a lambda nested in the method, optionally n calling self.m(), and one of four constructor forms; probed with calls, bound values, wrong arity, unknown members, fields shadowing methods, type and derives on instances of the two most derived classes. G2: static methods and Self through class, instance and subclass instance. G3: classes in local scopes, captured variables, rebound superclass names. G4: every non-class value as superclass, and after each such failed declaration (which had methods of its own) further classes declared at top level and in a function, which have exactly their own and their ancestors' members; deriving built-in error classes. G5: construction, arity, invoke == get-then-call. G6: the receiver of super in instance, static and constructor methods under 5 nestings of the expression and 5 places the class can be declared in, through class, subclass and instances. G7: `derives`, the member every class has from Object, defined anew at each level of a hierarchy of depth 1-3 and found (call, value, super, self call) from that level and every level below. G8: sixteen kinds of value (named function, lambda, closure, bound methods, built-in functions, bound built-in methods, constructor and static method as values, class, instance, number, nil) stored in an instance field named like a method, in a fresh field and in a module attribute, and called with 0-2 arguments by method-call syntax, after taking the member, and through a variable. G9: a built-in method inherited by a program-declared class from a built-in class (eight methods of Vec, String, Tuple, HashMap), reached by call syntax, as a value, through a variable, through a field of another object, through super and through super taken as a value: the same TypeError every way; and `self` in five nestings of functions and lambdas inside a static method (rejected) and inside an instance method (accepted). non-trivial = at least four observations.",
        json!({"hierarchy_depth": 3, "per_class_choices": 40}),
    );
    report.assumptions = vec!["static methods and constructors are looked up on the class they were defined in and on instances, not through subclasses' class objects (Appendix A)".into()];
    report.violations = stats.violations;
    {
        let cases = g9();
        let n = cases.len();
        let st = crate::expect::run_expect(ctx, &ctx.runner_checked, cases.into_iter(), &|_e, _r| None, &|_e, _p| None);
        report.cov("G9_programs", json!(n));
        report.violations.extend(st.violations);
    }
    {
        let cases = g10();
        let n = cases.len();
        let st = crate::expect::run_expect(ctx, &ctx.runner_checked, cases.into_iter(), &|_e, _r| None, &|_e, _p| None);
        report.cov("G10_programs", json!(n));
        report.violations.extend(st.violations);
    }
    report
}
