//! C06 — lexical scoping; closures capture variables, not values.
use crate::ast::*;
use crate::common::*;
use crate::mcheck::{self, Case, Hooks};
use serde_json::json;

fn pr(label: &str, e: Expr) -> Stmt {
    print_stmt(Expr::Interp(vec![Part::Lit(format!("{}=", label)), Part::Expr(e)]))
}

#[derive(Clone, Copy, Debug, PartialEq)]
enum Act {
    ReadA,
    WriteA,
    ReadB,
    WriteB,
    ReadAWriteB,
    WriteAReadB,
}
const ACTS: [Act; 6] = [Act::ReadA, Act::WriteA, Act::ReadB, Act::WriteB, Act::ReadAWriteB, Act::WriteAReadB];

fn act_body(a: Act, tag: &str) -> Vec<Stmt> {
    let inc = |v: &str, k: f64| expr_stmt(assign(v, bin(BinOp::Add, var(v), num(k))));
    match a {
        Act::ReadA => vec![pr(&format!("{}.a", tag), var("a"))],
        Act::WriteA => vec![inc("a", 100.0), pr(&format!("{}.a", tag), var("a"))],
        Act::ReadB => vec![pr(&format!("{}.b", tag), var("b"))],
        Act::WriteB => vec![inc("b", 1000.0), pr(&format!("{}.b", tag), var("b"))],
        Act::ReadAWriteB => vec![pr(&format!("{}.a", tag), var("a")), inc("b", 1000.0)],
        Act::WriteAReadB => vec![inc("a", 100.0), pr(&format!("{}.b", tag), var("b"))],
    }
}

/// `var <name> = <closure>` where the closure is created through `level` intermediate function levels
fn make_closure(name: &str, a: Act, level: u8) -> Vec<Stmt> {
    let body = act_body(a, name);
    match level {
        0 => vec![var_stmt(name, lambda_block(&[], body))],
        1 => {
            // fn mk() { return || {...}; }  var c = mk();
            let mk = format!("mk_{}", name);
            vec![fn_stmt(func(&mk, &[], vec![st(StmtKind::Return(Some(lambda_block(&[], body))))])), var_stmt(name, call(var(&mk), vec![]))]
        }
        _ => {
            let mk = format!("mk_{}", name);
            let inner = format!("in_{}", name);
            vec![
                fn_stmt(func(
                    &mk,
                    &[],
                    vec![fn_stmt(func(&inner, &[], vec![st(StmtKind::Return(Some(lambda_block(&[], body))))])), st(StmtKind::Return(Some(call(var(&inner), vec![]))))],
                )),
                var_stmt(name, call(var(&mk), vec![])),
            ]
        }
    }
}

#[derive(Clone, Copy, Debug, PartialEq)]
enum ScopeKind {
    Block,
    Function,
    Lambda,
    Method,
    WhileBody,
    ForBody,
    TryBody,
}
const SCOPES: [ScopeKind; 7] = [ScopeKind::Block, ScopeKind::Function, ScopeKind::Lambda, ScopeKind::Method, ScopeKind::WhileBody, ScopeKind::ForBody, ScopeKind::TryBody];

#[derive(Clone, Copy, Debug, PartialEq)]
enum Exit {
    Fall,
    Return,
    Break,
    Continue,
    Throw,
}

fn exits_for(s: ScopeKind) -> Vec<Exit> {
    match s {
        ScopeKind::Block => vec![Exit::Fall],
        ScopeKind::Function | ScopeKind::Lambda | ScopeKind::Method => vec![Exit::Fall, Exit::Return],
        ScopeKind::WhileBody | ScopeKind::ForBody => vec![Exit::Fall, Exit::Break, Exit::Continue],
        ScopeKind::TryBody => vec![Exit::Fall, Exit::Throw],
    }
}

/// F1: one scope declaring a, b; two closures; calls inside; escape; exit; calls after the scope is gone
fn f1(thorough: bool) -> Vec<Case> {
    let mut out = Vec::new();
    let orders: Vec<Vec<&str>> = vec![vec!["c1", "c2"], vec!["c2", "c1"], vec!["c1", "c1", "c2"], vec!["c2", "c2", "c1"]];
    let levels: &[u8] = if thorough { &[0, 1, 2] } else { &[0, 2] };
    for scope in SCOPES {
        for exit in exits_for(scope) {
            for a1 in ACTS {
                for &l1 in levels {
                    for a2 in ACTS {
                        for &l2 in levels {
                            if !thorough && l1 == 2 && l2 == 2 && a1 != a2 {
                                continue;
                            }
                            for (oi, order) in orders.iter().enumerate() {
                                if !thorough && oi >= 2 && (l1 != 0 || l2 != 0) {
                                    continue;
                                }
                                // body of the scope
                                let mut body = vec![var_stmt("a", num(1.0)), var_stmt("b", num(2.0))];
                                body.extend(make_closure("c1", a1, l1));
                                body.extend(make_closure("c2", a2, l2));
                                body.push(expr_stmt(call(var("c1"), vec![])));
                                body.push(expr_stmt(invoke(var("keep"), "push", vec![var("c1")])));
                                body.push(expr_stmt(invoke(var("keep"), "push", vec![var("c2")])));
                                body.push(pr("in.a", var("a")));
                                body.push(pr("in.b", var("b")));
                                match exit {
                                    Exit::Fall => {}
                                    Exit::Return => body.push(st(StmtKind::Return(Some(s("ret"))))),
                                    Exit::Break => body.push(st(StmtKind::Break)),
                                    Exit::Continue => body.push(st(StmtKind::Continue)),
                                    Exit::Throw => body.push(st(StmtKind::Throw(s("exc")))),
                                }
                                if exit != Exit::Fall {
                                    body.push(print_stmt(s("unreachable")));
                                }
                                let mut main: Vec<Stmt> = vec![var_stmt("keep", Expr::VecLit(vec![]))];
                                match scope {
                                    ScopeKind::Block => main.push(block(body)),
                                    ScopeKind::Function => {
                                        main.push(fn_stmt(func("scope_fn", &[], body)));
                                        main.push(print_stmt(call(var("scope_fn"), vec![])));
                                    }
                                    ScopeKind::Lambda => {
                                        main.push(var_stmt("scope_l", lambda_block(&[], body)));
                                        main.push(print_stmt(call(var("scope_l"), vec![])));
                                    }
                                    ScopeKind::Method => {
                                        main.push(class_stmt("S", None, Some("new"), vec![method(FnKind::Method, "m", &[], body)]));
                                        main.push(print_stmt(invoke(invoke(var("S"), "new", vec![]), "m", vec![])));
                                    }
                                    ScopeKind::WhileBody => {
                                        let mut b = vec![expr_stmt(Expr::CompoundAssign("n".into(), BinOp::Add, Box::new(num(1.0))))];
                                        b.extend(body);
                                        main.push(var_stmt("n", num(0.0)));
                                        main.push(st(StmtKind::While(bin(BinOp::Lt, var("n"), num(2.0)), b)));
                                    }
                                    ScopeKind::ForBody => main.push(st(StmtKind::For("it".into(), bin(BinOp::Range, num(0.0), num(2.0)), body))),
                                    ScopeKind::TryBody => main.push(st(StmtKind::Try(body, Some(("e".into(), vec![pr("caught", var("e"))])), None))),
                                }
                                // the scope is gone: call what escaped
                                for (k, name) in order.iter().enumerate() {
                                    let idx = if *name == "c1" { 0.0 } else { 1.0 };
                                    let _ = k;
                                    main.push(expr_stmt(call(index(var("keep"), num(idx)), vec![])));
                                }
                                // closures from the second loop iteration, if any
                                main.push(st(StmtKind::If(bin(BinOp::Gt, invoke(var("keep"), "len", vec![]), num(2.0)), vec![expr_stmt(call(index(var("keep"), num(2.0)), vec![])), expr_stmt(call(index(var("keep"), num(0.0)), vec![]))], None)));
                                out.push(wrapable("F1_scope_closures_exit", main));
                            }
                        }
                    }
                }
            }
        }
    }
    out
}

fn wrapable(family: &'static str, main: Vec<Stmt>) -> Case {
    Case::new(family, main)
}

/// F2: fresh variables per loop iteration / per call; the for variable is one variable per loop
fn f2() -> Vec<Case> {
    let mut out = Vec::new();
    for looptype in 0..3 {
        for capture in 0..4 {
            // capture: 0 body local, 1 loop variable, 2 both, 3 body local written by closure
            let mut body: Vec<Stmt> = vec![var_stmt("x", bin(BinOp::Mul, var("i"), num(10.0)))];
            let clo = match capture {
                0 => lambda_expr(&[], var("x")),
                1 => lambda_expr(&[], var("i")),
                2 => lambda_expr(&[], bin(BinOp::Add, var("x"), var("i"))),
                _ => lambda_block(&[], vec![expr_stmt(assign("x", bin(BinOp::Add, var("x"), num(1.0)))), st(StmtKind::Return(Some(var("x"))))]),
            };
            body.push(expr_stmt(invoke(var("fns"), "push", vec![clo])));
            let mut main = vec![var_stmt("fns", Expr::VecLit(vec![]))];
            match looptype {
                0 => main.push(st(StmtKind::For("i".into(), bin(BinOp::Range, num(0.0), num(3.0)), body))),
                1 => {
                    let mut b = body.clone();
                    b.push(expr_stmt(assign("i", bin(BinOp::Add, var("i"), num(1.0)))));
                    main.push(block(vec![var_stmt("i", num(0.0)), st(StmtKind::While(bin(BinOp::Lt, var("i"), num(3.0)), b))]));
                }
                _ => {
                    // recursion: each call has fresh variables
                    let mut b = body.clone();
                    b.push(st(StmtKind::If(bin(BinOp::Lt, var("i"), num(2.0)), vec![expr_stmt(call(var("rec"), vec![bin(BinOp::Add, var("i"), num(1.0))]))], None)));
                    main.push(fn_stmt(func("rec", &["i"], b)));
                    main.push(expr_stmt(call(var("rec"), vec![num(0.0)])));
                }
            }
            main.push(st(StmtKind::For("f".into(), var("fns"), vec![print_stmt(call(var("f"), vec![]))])));
            main.push(st(StmtKind::For("f".into(), var("fns"), vec![print_stmt(call(var("f"), vec![]))])));
            out.push(wrapable("F2_fresh_per_iteration", main));
        }
    }
    out
}

/// F3: shadowing never disturbs the shadowed variable; closures over each
fn f3() -> Vec<Case> {
    let mut out = Vec::new();
    for depth in 1..=3usize {
        for write_level in 0..=depth {
            for closure_level in 0..=depth {
                // nested blocks each declaring `v`; a closure made at closure_level; a write at write_level
                fn build(level: usize, depth: usize, write_level: usize, closure_level: usize) -> Vec<Stmt> {
                    let mut b = vec![var_stmt("v", num((level * 10) as f64))];
                    if level == closure_level {
                        b.push(expr_stmt(invoke(var("keep"), "push", vec![lambda_block(&[], vec![expr_stmt(assign("v", bin(BinOp::Add, var("v"), num(1.0)))), st(StmtKind::Return(Some(var("v"))))])])));
                    }
                    if level < depth {
                        b.push(block(build(level + 1, depth, write_level, closure_level)));
                    }
                    if level == write_level {
                        b.push(expr_stmt(assign("v", bin(BinOp::Add, var("v"), num(5.0)))));
                    }
                    b.push(pr(&format!("v@{}", level), var("v")));
                    b
                }
                let mut main = vec![var_stmt("keep", Expr::VecLit(vec![]))];
                main.push(fn_stmt(func("outer", &[], build(0, depth, write_level, closure_level))));
                main.push(expr_stmt(call(var("outer"), vec![])));
                main.push(st(StmtKind::For("f".into(), var("keep"), vec![print_stmt(call(var("f"), vec![])), print_stmt(call(var("f"), vec![]))])));
                out.push(wrapable("F3_shadowing", main));
            }
        }
    }
    out
}

/// F4: resolution is textual: innermost enclosing declaration that precedes the use, else the global
/// looked up when the use executes
fn f4() -> Vec<Case> {
    let mut out = Vec::new();
    // closure declared before a later local of the same name refers to the global
    out.push(Case::new(
        "F4_textual_resolution",
        vec![
            var_stmt("g", s("global")),
            block(vec![fn_stmt(func("show", &[], vec![print_stmt(var("g"))])), expr_stmt(call(var("show"), vec![])), var_stmt("g", s("local")), expr_stmt(call(var("show"), vec![])), print_stmt(var("g"))]),
        ],
    ));
    // a global defined after the function that uses it (late binding), redefined later
    out.push(Case::new(
        "F4_textual_resolution",
        vec![
            fn_stmt(func("use_late", &[], vec![st(StmtKind::Return(Some(var("late"))))])),
            st(StmtKind::Try(vec![print_stmt(call(var("use_late"), vec![]))], Some(("e".into(), vec![print_stmt(call(var("type"), vec![var("e")]))])), None)),
            var_stmt("late", num(1.0)),
            print_stmt(call(var("use_late"), vec![])),
            var_stmt("late", num(2.0)),
            print_stmt(call(var("use_late"), vec![])),
        ],
    ));
    // parameter shadows global; inner block shadows parameter; closure over the parameter
    out.push(Case::new(
        "F4_textual_resolution",
        vec![
            var_stmt("p", s("global p")),
            fn_stmt(func(
                "f",
                &["p"],
                vec![
                    var_stmt("get", lambda_expr(&[], var("p"))),
                    block(vec![var_stmt("p", s("inner p")), print_stmt(var("p")), print_stmt(call(var("get"), vec![]))]),
                    expr_stmt(assign("p", s("changed"))),
                    st(StmtKind::Return(Some(var("get")))),
                ],
            )),
            var_stmt("h", call(var("f"), vec![s("arg p")])),
            print_stmt(call(var("h"), vec![])),
            print_stmt(var("p")),
        ],
    ));
    // assignment to an undeclared name inside a function is a NameError at run time
    out.push(Case::new("F4_textual_resolution", vec![fn_stmt(func("f", &[], vec![expr_stmt(assign("nowhere", num(1.0)))])), expr_stmt(call(var("f"), vec![]))]));
    // local function recursion and mutual reference through a captured variable
    out.push(Case::new(
        "F4_textual_resolution",
        vec![block(vec![
            fn_stmt(func("fact", &["n"], vec![st(StmtKind::If(bin(BinOp::Le, var("n"), num(1.0)), vec![st(StmtKind::Return(Some(num(1.0))))], None)), st(StmtKind::Return(Some(bin(BinOp::Mul, var("n"), call(var("fact"), vec![bin(BinOp::Sub, var("n"), num(1.0))])))))])),
            print_stmt(call(var("fact"), vec![num(5.0)])),
        ])],
    ));
    out
}

/// F5: many closures over one variable, one closure over many, slot reuse after a scope closed
fn f5() -> Vec<Case> {
    let mut out = Vec::new();
    for nclos in 1..=3usize {
        for nvars in 1..=3usize {
            let names = ["a", "b", "c"];
            let mut body: Vec<Stmt> = Vec::new();
            for v in 0..nvars {
                body.push(var_stmt(names[v], num((v + 1) as f64)));
            }
            for k in 0..nclos {
                // closure k increments every variable by 10^k and returns their sum; capture order reversed
                let mut stmts = Vec::new();
                for v in (0..nvars).rev() {
                    stmts.push(expr_stmt(assign(names[v], bin(BinOp::Add, var(names[v]), num(10f64.powi(k as i32 + 1))))));
                }
                let mut sum = var(names[0]);
                for v in 1..nvars {
                    sum = bin(BinOp::Add, sum, var(names[v]));
                }
                stmts.push(st(StmtKind::Return(Some(sum))));
                body.push(expr_stmt(invoke(var("keep"), "push", vec![lambda_block(&[], stmts)])));
            }
            body.push(print_stmt(call(index(var("keep"), num(0.0)), vec![])));
            body.push(pr("a", var("a")));
            let mut main = vec![var_stmt("keep", Expr::VecLit(vec![]))];
            main.push(fn_stmt(func("mk", &[], body)));
            main.push(expr_stmt(call(var("mk"), vec![])));
            // a second activation has its own variables; slots are reused
            main.push(expr_stmt(call(var("mk"), vec![])));
            main.push(st(StmtKind::For("f".into(), var("keep"), vec![print_stmt(call(var("f"), vec![]))])));
            main.push(st(StmtKind::For("f".into(), var("keep"), vec![print_stmt(call(var("f"), vec![]))])));
            out.push(wrapable("F5_many_closures_many_variables", main));
        }
    }
    // slot reuse: two sibling blocks in one function
    out.push(wrapable(
        "F5_slot_reuse",
        vec![
            var_stmt("keep", Expr::VecLit(vec![])),
            fn_stmt(func(
                "f",
                &[],
                vec![
                    block(vec![var_stmt("x", num(1.0)), expr_stmt(invoke(var("keep"), "push", vec![lambda_block(&[], vec![expr_stmt(assign("x", bin(BinOp::Add, var("x"), num(1.0)))), st(StmtKind::Return(Some(var("x"))))])]))]),
                    block(vec![var_stmt("y", num(50.0)), var_stmt("z", num(70.0)), expr_stmt(invoke(var("keep"), "push", vec![lambda_expr(&[], bin(BinOp::Add, var("y"), var("z")))])), expr_stmt(assign("y", num(51.0)))]),
                    print_stmt(call(index(var("keep"), num(0.0)), vec![])),
                ],
            )),
            expr_stmt(call(var("f"), vec![])),
            print_stmt(call(index(var("keep"), num(0.0)), vec![])),
            print_stmt(call(index(var("keep"), num(1.0)), vec![])),
        ],
    ));
    out
}

/// F6: captured variables of a try body that is left by an exception or by a return (regression
/// witnesses of a repaired defect, kept in the enumeration)
fn f6() -> Vec<Case> {
    let mut out = Vec::new();
    for with_finally_local in [false, true] {
        for exit in 0..4 {
            let mut tb = vec![var_stmt("a", num(1.0)), var_stmt("b", num(2.0)), expr_stmt(invoke(var("keep"), "push", vec![lambda_block(&[], vec![expr_stmt(assign("a", bin(BinOp::Add, var("a"), num(1.0)))), st(StmtKind::Return(Some(bin(BinOp::Add, var("a"), var("b")))))])]))];
            match exit {
                0 | 3 => tb.push(st(StmtKind::Throw(s("x")))),
                1 => tb.push(st(StmtKind::Return(Some(num(0.0))))),
                _ => {}
            }
            let fin = if with_finally_local { vec![var_stmt("z", num(99.0)), var_stmt("y", num(98.0)), print_stmt(bin(BinOp::Add, var("z"), var("y")))] } else { vec![print_stmt(s("fin"))] };
            // exit 0: caught by the statement's own catch; exit 3: the exception passes through the finally
            // block (which may declare locals) and is caught by the caller
            let catch = if exit == 0 { Some(("e".to_string(), vec![print_stmt(var("e"))])) } else { None };
            let body = vec![st(StmtKind::Try(tb, catch, Some(fin))), var_stmt("later", num(7.0)), print_stmt(var("later"))];
            let call_f = if exit == 3 { st(StmtKind::Try(vec![expr_stmt(call(var("f"), vec![]))], Some(("e".to_string(), vec![print_stmt(var("e"))])), None)) } else { expr_stmt(call(var("f"), vec![])) };
            let main = vec![var_stmt("keep", Expr::VecLit(vec![])), fn_stmt(func("f", &[], body)), call_f, print_stmt(call(index(var("keep"), num(0.0)), vec![])), print_stmt(call(index(var("keep"), num(0.0)), vec![]))];
            out.push(wrapable("F6_try_body_captures", main));
        }
    }
    out
}

/// F7: capture order.  Three variables declared in order; up to three closures, each with an ordered
/// capture list (every non-empty sequence of distinct variables: 15 lists), created one after the other
/// while all variables are live; the order in which a closure first mentions its variables is the order
/// of its list, so captures happen in every order relative to declaration order and to the captures
/// of the closures made before.
fn f7(thorough: bool) -> Vec<Case> {
    let names = ["a", "b", "c"];
    let mut lists: Vec<Vec<usize>> = Vec::new();
    for x in 0..3 {
        lists.push(vec![x]);
        for y in 0..3 {
            if y != x {
                lists.push(vec![x, y]);
                for z in 0..3 {
                    if z != x && z != y {
                        lists.push(vec![x, y, z]);
                    }
                }
            }
        }
    }
    let mut seqs: Vec<Vec<usize>> = Vec::new();
    for i in 0..lists.len() {
        seqs.push(vec![i]);
        for j in 0..lists.len() {
            seqs.push(vec![i, j]);
            for k in 0..lists.len() {
                // quick: the third closure captures a single variable or a pair
                if thorough || lists[k].len() <= 2 {
                    seqs.push(vec![i, j, k]);
                }
            }
        }
    }
    let mut out = Vec::new();
    for seq in seqs {
        let mut body: Vec<Stmt> = vec![var_stmt("a", num(1.0)), var_stmt("b", num(2.0)), var_stmt("c", num(3.0))];
        for (k, li) in seq.iter().enumerate() {
            let list = &lists[*li];
            let mut stmts = Vec::new();
            for v in list {
                stmts.push(expr_stmt(assign(names[*v], bin(BinOp::Add, var(names[*v]), num(10f64.powi(k as i32 + 1))))));
            }
            let mut sum = var(names[list[0]]);
            for v in &list[1..] {
                sum = bin(BinOp::Add, sum, var(names[*v]));
            }
            stmts.push(st(StmtKind::Return(Some(sum))));
            body.push(expr_stmt(invoke(var("keep"), "push", vec![lambda_block(&[], stmts)])));
        }
        // inside the scope the closures and the declaring function share the variables
        body.push(print_stmt(call(index(var("keep"), num(0.0)), vec![])));
        body.push(expr_stmt(assign("b", bin(BinOp::Add, var("b"), num(5000.0)))));
        body.push(pr("abc", Expr::VecLit(vec![var("a"), var("b"), var("c")])));
        let mut main = vec![var_stmt("keep", Expr::VecLit(vec![]))];
        main.push(fn_stmt(func("mk", &[], body)));
        main.push(expr_stmt(call(var("mk"), vec![])));
        main.push(st(StmtKind::For("f".into(), var("keep"), vec![print_stmt(call(var("f"), vec![]))])));
        main.push(st(StmtKind::For("f".into(), var("keep"), vec![print_stmt(call(var("f"), vec![]))])));
        out.push(wrapable("F7_capture_order", main));
    }
    out
}

/// F8: a closure created straight after control came back from code of another module (an exception
/// thrown there and caught here, a call that returned, a fiber of that module that finished) resolves
/// its free names in the module it is written in, when it is made and whenever it is called.
fn f8() -> Vec<Case> {
    use crate::meval::ModuleSource;
    let mut out = Vec::new();
    let other = vec![
        var_stmt("g", s("other's g")),
        fn_stmt(func("boom", &[], vec![st(StmtKind::Throw(bin(BinOp::Add, var("g"), s(" thrown"))))])),
        fn_stmt(func("plain", &[], vec![st(StmtKind::Return(Some(var("g"))))])),
        fn_stmt(func("fiber", &[], vec![st(StmtKind::Return(Some(invoke(var("Fiber"), "new", vec![lambda_expr(&[], var("g"))]))))])),
    ];
    for how in 0..4 {
        for in_function in [false, true] {
            let back: Vec<Stmt> = match how {
                0 => vec![st(StmtKind::Try(vec![expr_stmt(invoke(var("other"), "boom", vec![]))], Some(("e".into(), vec![print_stmt(var("e"))])), None))],
                1 => vec![print_stmt(invoke(var("other"), "plain", vec![]))],
                2 => vec![print_stmt(invoke(invoke(var("other"), "fiber", vec![]), "call", vec![]))],
                _ => vec![st(StmtKind::Try(vec![st(StmtKind::Try(vec![expr_stmt(invoke(var("other"), "boom", vec![]))], None, Some(vec![print_stmt(var("g"))])))], Some(("e".into(), vec![print_stmt(var("e"))])), None))],
            };
            let mut body = vec![var_stmt("loc", s("local"))];
            body.extend(back);
            // made with no call in between; reads a global of this module and a local
            body.push(var_stmt("c", lambda_expr(&[], bin(BinOp::Add, bin(BinOp::Add, var("g"), s(" / ")), var("loc")))));
            body.push(print_stmt(call(var("c"), vec![])));
            body.push(expr_stmt(assign("g", s("main's g, changed"))));
            body.push(print_stmt(call(var("c"), vec![])));
            body.push(print_stmt(get(var("other"), "g")));
            let mut main = vec![var_stmt("g", s("main's g")), st(StmtKind::Import("other".into(), None))];
            if in_function {
                main.push(fn_stmt(func("run", &[], body)));
                main.push(expr_stmt(call(var("run"), vec![])));
            } else {
                main.extend(body);
            }
            let mut c = Case::new("F8_closure_made_after_return_from_another_module", main);
            c.modules.insert("other".to_string(), ModuleSource { program: Some(other.clone()), compile_error: false });
            out.push(c);
        }
    }
    out
}

/// F9: a handled exception does not separate a closure from its variable.  Locals declared before a try
/// statement are captured by closures made before it; an exception is raised inside the try (directly, by
/// a callee, by a built-in) and handled in the same frame (catch; finally then an outer catch; catch in a
/// nested block); afterwards the scope writes and the closures read, and the other way round.
fn f9() -> Vec<Case> {
    let mut out = Vec::new();
    for raise in 0..3 {
        for handle in 0..3 {
            for in_function in [false, true] {
                let failing: Stmt = match raise {
                    0 => st(StmtKind::Throw(s("thrown here"))),
                    1 => expr_stmt(call(var("thrower"), vec![])),
                    _ => expr_stmt(index(Expr::VecLit(vec![]), num(1.0))),
                };
                let try_body = vec![var_stmt("inside", num(100.0)), expr_stmt(invoke(var("keep"), "push", vec![lambda_expr(&[], bin(BinOp::Add, var("inside"), var("count")))])), failing];
                let handled: Stmt = match handle {
                    0 => st(StmtKind::Try(try_body, Some(("e".into(), vec![pr("caught", call(var("type"), vec![var("e")]))])), None)),
                    1 => st(StmtKind::Try(vec![st(StmtKind::Try(try_body, None, Some(vec![pr("finally sees", var("count"))])))], Some(("e".into(), vec![pr("caught", call(var("type"), vec![var("e")]))])), None)),
                    _ => block(vec![var_stmt("shadow", num(7.0)), st(StmtKind::Try(try_body, Some(("e".into(), vec![pr("caught", bin(BinOp::Add, var("shadow"), var("count")))])), None))]),
                };
                let mut body = vec![
                    var_stmt("count", num(1.0)),
                    var_stmt("other", s("o")),
                    var_stmt("get", lambda_expr(&[], var("count"))),
                    var_stmt("inc", lambda_block(&[], vec![expr_stmt(assign("count", bin(BinOp::Add, var("count"), num(1.0)))), st(StmtKind::Return(Some(var("count"))))])),
                    var_stmt("both", lambda_expr(&[], bin(BinOp::Add, var("other"), var("other")))),
                    handled,
                    // the scope writes, the closures read
                    expr_stmt(assign("count", num(10.0))),
                    pr("get after the scope wrote", call(var("get"), vec![])),
                    // a closure writes, the scope and the other closure read
                    pr("inc", call(var("inc"), vec![])),
                    pr("count after inc", var("count")),
                    pr("get after inc", call(var("get"), vec![])),
                    expr_stmt(assign("other", s("p"))),
                    pr("both", call(var("both"), vec![])),
                    // a closure made after the exception shares the same variable
                    var_stmt("late", lambda_block(&[], vec![expr_stmt(assign("count", bin(BinOp::Add, var("count"), num(100.0)))), st(StmtKind::Return(Some(var("count"))))])),
                    pr("late", call(var("late"), vec![])),
                    pr("get after late", call(var("get"), vec![])),
                    pr("closure from the try body", call(index(var("keep"), num(0.0)), vec![])),
                ];
                let mut main = vec![var_stmt("keep", Expr::VecLit(vec![])), fn_stmt(func("thrower", &[], vec![st(StmtKind::Throw(s("thrown by a callee")))]))];
                if in_function {
                    body.push(st(StmtKind::Return(Some(var("get")))));
                    main.push(fn_stmt(func("scope", &[], body)));
                    main.push(var_stmt("escaped", call(var("scope"), vec![])));
                    main.push(pr("escaped get", call(var("escaped"), vec![])));
                } else {
                    main.extend(body);
                }
                out.push(wrapable("F9_handled_exception_keeps_closures_attached", main));
            }
        }
    }
    out
}

/// F10: closures made by code that runs after a loop exit has been decided.  A loop body declares a
/// local, then a try statement; the try body (or the catch block) leaves the iteration with continue or
/// break, or not at all; the finally block (or the catch block) makes a closure over the body's local,
/// over a local of its own and over the loop variable.  Every iteration has variables of its own: the
/// closures of different iterations never share one, and what is declared after the loop does not show
/// through them.
fn f10() -> Vec<Case> {
    let mut out = Vec::new();
    let keep = |e: Expr| expr_stmt(invoke(var("fs"), "push", vec![e]));
    for for_loop in [false, true] {
        for exit in 0..3 {
            for form in 0..4 {
                for in_function in [false, true] {
                    let leave: Vec<Stmt> = match exit {
                        0 => vec![st(StmtKind::Continue)],
                        1 => vec![st(StmtKind::Break)],
                        _ => vec![pr("no exit", var("i"))],
                    };
                    let early = |then: Vec<Stmt>| st(StmtKind::If(bin(BinOp::Lt, var("i"), num(2.0)), then, None));
                    let in_finally = vec![keep(lambda_expr(&[], bin(BinOp::Add, s("finally sees x="), invoke(var("String"), "from", vec![var("x")])))), var_stmt("fin", bin(BinOp::Add, var("x"), num(1.0))), keep(lambda_expr(&[], bin(BinOp::Add, s("finally's own fin="), invoke(var("String"), "from", vec![var("fin")])))), keep(lambda_expr(&[], bin(BinOp::Add, s("finally sees i="), invoke(var("String"), "from", vec![var("i")]))))];
                    let in_catch = vec![keep(lambda_expr(&[], bin(BinOp::Add, s("catch sees x="), invoke(var("String"), "from", vec![var("x")])))), var_stmt("cat", bin(BinOp::Add, var("x"), num(2.0))), keep(lambda_expr(&[], bin(BinOp::Add, s("catch's own cat="), invoke(var("String"), "from", vec![var("cat")]))))];
                    let try_stmt: Stmt = match form {
                        // try { exit } finally { capture }
                        0 => st(StmtKind::Try(vec![var_stmt("t", bin(BinOp::Add, var("x"), num(3.0))), keep(lambda_expr(&[], bin(BinOp::Add, s("try's own t="), invoke(var("String"), "from", vec![var("t")])))), early(leave.clone()), pr("rest of try", var("i"))], None, Some(in_finally.clone()))),
                        // try { throw } catch { capture; exit } finally { capture }
                        1 => st(StmtKind::Try(vec![st(StmtKind::Throw(s("thrown in the body")))], Some(("e".into(), { let mut c = in_catch.clone(); c.push(early(leave.clone())); c.push(pr("rest of catch", var("i"))); c })), Some(in_finally.clone()))),
                        // try { throw } catch { capture; exit }
                        2 => st(StmtKind::Try(vec![st(StmtKind::Throw(s("thrown in the body")))], Some(("e".into(), { let mut c = in_catch.clone(); c.push(early(leave.clone())); c.push(pr("rest of catch", var("i"))); c })), None)),
                        // two nested try statements, the exit in the inner one, captures in both finally blocks
                        _ => st(StmtKind::Try(vec![st(StmtKind::Try(vec![early(leave.clone()), pr("rest of inner try", var("i"))], None, Some(vec![keep(lambda_expr(&[], bin(BinOp::Add, s("inner finally sees x="), invoke(var("String"), "from", vec![var("x")]))))])))], None, Some(in_finally.clone()))),
                    };
                    let body_core = vec![var_stmt("x", bin(BinOp::Mul, var("i"), num(10.0))), try_stmt, pr("after try", var("x"))];
                    let the_loop: Stmt = if for_loop {
                        st(StmtKind::For("i".into(), bin(BinOp::Range, num(0.0), num(3.0)), body_core))
                    } else {
                        let mut b = vec![var_stmt("i", var("n")), expr_stmt(assign("n", bin(BinOp::Add, var("n"), num(1.0))))];
                        b.extend(body_core);
                        st(StmtKind::While(bin(BinOp::Lt, var("n"), num(3.0)), b))
                    };
                    let mut body = vec![var_stmt("n", num(0.0)), the_loop];
                    // what is declared after the loop uses the slots the loop's variables had
                    body.push(var_stmt("later1", s("declared after the loop 1")));
                    body.push(var_stmt("later2", s("declared after the loop 2")));
                    body.push(var_stmt("later3", s("declared after the loop 3")));
                    body.push(st(StmtKind::For("f".into(), var("fs"), vec![print_stmt(call(var("f"), vec![]))])));
                    body.push(print_stmt(Expr::VecLit(vec![var("later1"), var("later2"), var("later3")])));
                    let mut main = vec![var_stmt("fs", Expr::VecLit(vec![]))];
                    if in_function {
                        main.push(fn_stmt(func("scope", &[], body)));
                        main.push(expr_stmt(call(var("scope"), vec![])));
                    } else {
                        main.push(block(body));
                    }
                    out.push(wrapable("F10_closures_made_after_a_loop_exit_was_decided", main));
                }
            }
        }
    }
    out
}


/// F11: a function's own name inside its body is a name like any other.  It refers to the variable the `fn`
/// statement declared - a module global looked up when the use executes, or the enclosing local, shared
/// with everything else that captured it - not to "the function that is running": after the name is bound
/// to something else, a stored copy of the old function that mentions the name means the new value; a
/// function may assign to its own name; recursion through a renamed copy still reaches what the name says.
fn f11() -> Vec<Case> {
    let mut out = Vec::new();
    let pr = |e: Expr| print_stmt(e);
    for scope in 0..3usize {
        // 0: module globals, 1: locals of a block, 2: locals of a function
        let place = |body: Vec<Stmt>| -> Vec<Stmt> {
            match scope {
                0 => body,
                1 => vec![block(body)],
                _ => vec![fn_stmt(func("scope", &[], body)), expr_stmt(call(var("scope"), vec![]))],
            }
        };
        // (a) the name is rebound after a copy was stored: the copy's use of the name means the new value
        out.push(wrapable(
            "F11_a_functions_own_name_in_its_body",
            place(vec![
                fn_stmt(func("greet", &[], vec![st(StmtKind::Return(Some(Expr::VecLit(vec![s("old greet; the name now means"), call(var("type"), vec![var("greet")])]))))])),
                var_stmt("kept", var("greet")),
                pr(call(var("kept"), vec![])),
                expr_stmt(assign("greet", num(42.0))),
                pr(call(var("kept"), vec![])),
                expr_stmt(assign("greet", lambda_expr(&[], s("second greet")))),
                pr(call(var("kept"), vec![])),
                pr(call(var("greet"), vec![])),
            ]),
        ));
        // (b) a function that replaces itself
        out.push(wrapable(
            "F11_a_functions_own_name_in_its_body",
            place(vec![
                fn_stmt(func("once", &[], vec![expr_stmt(assign("once", lambda_expr(&[], s("already done")))), st(StmtKind::Return(Some(s("first time"))))])),
                var_stmt("first", var("once")),
                pr(call(var("once"), vec![])),
                pr(call(var("once"), vec![])),
                pr(call(var("first"), vec![])),
                pr(call(var("once"), vec![])),
            ]),
        ));
        // (c) recursion through a renamed copy goes where the name says
        out.push(wrapable(
            "F11_a_functions_own_name_in_its_body",
            place(vec![
                fn_stmt(func("count", &["n"], vec![st(StmtKind::If(bin(BinOp::Le, var("n"), num(0.0)), vec![st(StmtKind::Return(Some(s("bottom of the old count"))))], None)), st(StmtKind::Return(Some(call(var("count"), vec![bin(BinOp::Sub, var("n"), num(1.0))]))))])),
                var_stmt("old", var("count")),
                pr(call(var("old"), vec![num(2.0)])),
                expr_stmt(assign("count", lambda_expr(&["n"], Expr::VecLit(vec![s("new count got"), var("n")])))),
                pr(call(var("old"), vec![num(2.0)])),
                pr(call(var("old"), vec![num(0.0)])),
            ]),
        ));
        // (d) a closure made by the function over its own name, and a nested function with the same name
        out.push(wrapable(
            "F11_a_functions_own_name_in_its_body",
            place(vec![
                fn_stmt(func("maker", &[], vec![st(StmtKind::Return(Some(lambda_expr(&[], call(var("type"), vec![var("maker")])))))])),
                var_stmt("reader", call(var("maker"), vec![])),
                pr(call(var("reader"), vec![])),
                expr_stmt(assign("maker", s("a string now"))),
                pr(call(var("reader"), vec![])),
                fn_stmt(func("outer", &[], vec![fn_stmt(func("outer", &[], vec![st(StmtKind::Return(Some(s("the inner outer"))))])), st(StmtKind::Return(Some(call(var("outer"), vec![]))))])),
                pr(call(var("outer"), vec![])),
            ]),
        ));
    }
    out
}


/// F12: a function written inside the initialiser of a local (or inside the iterable of a for loop) that
/// mentions that local's name.  The name means that local - nothing further out: not an enclosing local of
/// the same name, not the module global - and, as a local cannot be read in its own initialiser, the program
/// is rejected with that compile error, whatever else of that name exists.  (Expect-based: M-eval has no
/// compile errors.)
fn f12() -> Vec<crate::expect::Expect> {
    use crate::expect::Expect;
    let mut out = Vec::new();
    let inner: [&str; 5] = [
        "{ var x = || x; print(type(x())); }",
        "{ var x = || { return x; }; print(type(x())); }",
        "{ var x = [1, || || x]; print(type(x[1]()())); }",
        "{ for x in [|| x] { print(type(x())); } }",
        "{ var x = (|| x)(); print(x); }",
    ];
    for body in inner {
        for (gl, outer) in [(false, false), (true, false), (false, true), (true, true)] {
            let mut src = String::new();
            if gl {
                src.push_str("var x = \"the module global x\";\n");
            }
            src.push_str("fn scope() {\n");
            if outer {
                src.push_str("  var x = \"an enclosing local x\";\n");
            }
            src.push_str(&format!("  {}\n}}\nscope();\nprint(\"done\");\n", body));
            out.push(Expect {
                family: "F12_a_function_in_a_locals_own_initialiser",
                request: proto::Request { op: "run".into(), snippets: vec![src], fuel: Some(1_000_000), ..Default::default() },
                out: vec![vec![]],
                end: vec!["[module \"main\", line".to_string()],
                describe: json!({"shape": body, "module_global_of_that_name": gl, "enclosing_local_of_that_name": outer}),
                nontrivial: true,
            });
        }
    }
    out
}

/// the three metamorphic wrappings: the same statements as a block, a function called once, a fiber
/// called once (top-level declarations become locals / captured variables on another fiber's stack)
fn wrappings(c: &Case) -> Vec<Case> {
    let body = c.prog.clone();
    let mut v = Vec::new();
    v.push(Case::new("W_in_block", vec![block(body.clone())]));
    v.push(Case::new("W_in_function", vec![fn_stmt(func("wrapper", &[], body.clone())), expr_stmt(call(var("wrapper"), vec![]))]));
    v.push(Case::new(
        "W_in_fiber",
        vec![var_stmt("fib", invoke(var("Fiber"), "new", vec![lambda_block(&[], body)])), expr_stmt(invoke(var("fib"), "call", vec![]))],
    ));
    v
}

/// closures over variables of a try statement that is left by an exception, a return, a handled exception
/// (F6, F9): also run by C08 - the handling function's variables are intact whatever closures were made
pub fn cases_for_c08() -> Vec<Case> {
    f6().into_iter().chain(f9()).collect()
}

pub fn cases_for_c04(thorough: bool) -> Vec<Case> {
    let mut v = f1(thorough);
    v.extend(f2());
    v.extend(f3());
    v.extend(f5());
    v.extend(f6());
    v.extend(f7(false).into_iter().enumerate().filter(|(i, _)| thorough || i % 8 == 0).map(|(_, c)| c));
    v.extend(f9());
    v.extend(f10());
    v.extend(f11());
    v
}

pub fn run(ctx: &Ctx) -> Report {
    let mut report = Report::new();
    // both tiers run the full bounds (a quarter of a minute); the thorough tier adds the other two
    // yield-insertion drivers
    let thorough = true;
    let mut base: Vec<Case> = Vec::new();
    base.extend(f1(thorough));
    base.extend(f2());
    base.extend(f3());
    base.extend(f5());
    base.extend(f6());
    base.extend(f7(thorough));
    base.extend(f9());
    base.extend(f10());
    base.extend(f11());
    let mut all: Vec<Case> = Vec::new();
    for (i, c) in base.iter().enumerate() {
        // every program in the thorough tier, every fourth in the quick tier, is also run in its wrappings
        if thorough || i % 4 == 0 || c.family != "F1_scope_closures_exit" {
            all.extend(wrappings(c));
        }
    }
    // yield insertion (see metamorph.rs): the same statements in a fiber that is suspended after every
    // statement; captured variables stay shared across suspensions
    all.extend(crate::metamorph::yield_cases("Y_in_fiber_suspended_after_every_statement", &base, if ctx.thorough() { &[crate::metamorph::Driver::Plain, crate::metamorph::Driver::Values, crate::metamorph::Driver::Interleaved] } else { &[crate::metamorph::Driver::Plain] }));
    // displacement (see metamorph.rs): the same statements after 127 / 128 / 200 / 230 unused locals of the
    // same function (every slot number and capture index of the program moves up)
    {
        let sel: Vec<Case> = base.iter().enumerate().filter(|(i, c)| ctx.thorough() || i % 3 == 0 || c.family != "F1_scope_closures_exit").map(|(_, c)| { let mut k = Case::new(c.family, c.prog.clone()); k.modules = c.modules.clone(); k }).collect();
        all.extend(crate::metamorph::displaced_cases("D_after_many_locals_of_the_same_function", &sel, &[127, 128, 200, 230], &[0]));
    }
    // calls through wrappers (see metamorph.rs): every call site of the program makes a closure over the
    // variables in scope, calls through it and lets it die
    {
        let sel: Vec<Case> = base.iter().enumerate().filter(|(i, c)| ctx.thorough() || i % 2 == 0 || c.family != "F1_scope_closures_exit").map(|(_, c)| { let mut k = Case::new(c.family, c.prog.clone()); k.modules = c.modules.clone(); k }).collect();
        all.extend(crate::metamorph::wrapper_cases("Z_every_call_through_a_wrapper_lambda", &sel));
        let corpus = crate::metamorph::standard_corpus(if ctx.thorough() { 1 } else { 4 });
        all.extend(crate::metamorph::wrapper_cases("Z_every_call_through_a_wrapper_lambda", &corpus));
        if std::env::var("VERIF_SAMPLE").is_ok() {
            if let Some(c) = all.iter().rev().find(|c| c.family.starts_with("Z_")) {
                eprintln!("{}", print_program(&c.prog, false));
            }
        }
    }
    all.extend(base);
    all.extend(f4());
    all.extend(f8());
    let hooks = Hooks {
        attribute: &|_c, _m, _o, _mm| None,
        nontrivial: &|_c, m| m.out.len() >= 3,
        fuel: 2_000_000,
    };
    let stats = mcheck::run(ctx, all.into_iter(), &hooks);
    mcheck::fill_report(
        &mut report,
        &stats,
        "F1: every combination of scope kind (block, function, lambda, method, while body, for body, try body) x exit (fall through, return, break, continue, throw) x two closures with every read/write action over two variables, created through 0-2 intermediate function levels, called inside the scope, escaped, and called in several orders after the scope has exited; F2: fresh variables per iteration/activation; F3: shadowing at depth 1-3 with a closure and a write at every level; F4: textual resolution and late-bound globals; F5: 1-3 closures over 1-3 shared variables, slot reuse; F6: captures of a try body left by exception or return; F7: capture order - three variables, up to three closures each with every ordered capture list (15 lists), so captures happen in every order relative to declaration order and to earlier captures; F10: closures made in finally / catch blocks over the loop body's locals when the iteration is left by continue / break from inside the try statement (every iteration has variables of its own); F9: locals captured before a try statement stay shared with their closures after an exception was raised inside it and handled in the same frame; F11: a function's own name inside its body means the variable the fn statement declared (global, block local, function local): rebound after a copy was stored, assigned by the function itself, recursion through a renamed copy, a closure over the name, a nested function of the same name; F12: a function written inside a local's own initialiser (or a for loop's iterable) that mentions the local means that local and nothing further out, so the program is rejected like a direct read (five shapes, with and without a module global and an enclosing local of the same name); F8: closures made straight after control came back from another module (exception caught, call returned, fiber finished, exception through a finally block). Each program also runs wrapped in a block, a function and a fiber, as the rest of a function that has declared 127, 128, 200 or 230 other locals first (every third program of F1 in the quick tier), with every call `f(a)` written `(|x| f(x))(a)` and every method call `r.m(a)` written `(|o, x| o.m(x))(r, a)` (these and the standard corpus of the other properties' programs: every call site makes a closure over the variables in scope and lets it die), and in a fiber that is suspended after every statement of every block and function and resumed until it has finished. non-trivial = at least three observations printed.",
        json!({"closures": 2, "variables": 2, "intermediate_levels": if thorough { 3 } else { 2 }, "wrappings": 3}),
    );
    report.assumptions = vec!["M-eval's cell-based environments define the intended semantics (DESIGN.md Appendix A)".into()];
    report.violations = stats.violations;
    {
        let cases = f12();
        let n = cases.len();
        let st = crate::expect::run_expect(ctx, &ctx.runner_checked, cases.into_iter(), &|_e, r| {
            // the one message that is right: the local cannot be read in its own initialiser
            match r.results.get(0).map(|x| &x.outcome) {
                Some(proto::Outcome::Err { kind, messages }) if kind == "CompileError" && messages.iter().any(|m| m.contains("Cannot read local variable in its own initialiser.")) => None,
                other => Some(format!("expected the compile error `Cannot read local variable in its own initialiser.`, got {:?}", other)),
            }
        }, &|_e, _p| None);
        report.cov("F12_programs", json!(n));
        report.violations.extend(st.violations);
    }
    // closures made by a function that escaped from a module whose import was abandoned (C14's family): the
    // variables they capture by name are that module's globals
    {
        let cases = crate::c14::escaped_functions_of_abandoned_imports();
        let n = cases.len();
        let st = crate::expect::run_expect(ctx, &ctx.runner_checked, cases.into_iter(), &|_e, _r| None, &|_e, _p| None);
        report.cov("closures_of_functions_escaped_from_abandoned_imports", json!(n));
        report.violations.extend(st.violations);
    }
    // closures at the compiler's limits (C04's limit family): functions that capture 254..257 variables over
    // one and two function levels, and that declare as many locals as are allowed by each declaring form,
    // see every one of them - or the program is rejected
    {
        let cases = crate::c04::limit_expects(ctx, &["limit_captures", "limit_locals", "limit_locals_by_declaring_form"]);
        let n = cases.len();
        let st = crate::expect::run_expect(ctx, &ctx.runner_checked, cases.into_iter(), &|_e, _r| None, &|_e, _p| None);
        report.cov("closures_at_the_capture_and_local_limits", json!(n));
        report.violations.extend(st.violations);
    }
    report
}
