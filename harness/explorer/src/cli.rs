//! The repository's own command-line host (`yarel-cli`), built by `check` into harness/target/cli: runs a
//! script file or feeds lines to its REPL, with a watchdog.  Observations: stdout, stderr, exit code.
use crate::common::Ctx;
use std::io::Write;
use std::path::PathBuf;
use std::process::{Command, Stdio};
use std::time::{Duration, Instant};

pub struct CliRun {
    pub stdout: String,
    pub stderr: String,
    /// None: killed by a signal or by the watchdog
    pub code: Option<i32>,
    pub timed_out: bool,
}

pub fn binary(ctx: &Ctx) -> PathBuf {
    ctx.verif_dir.join("harness/target/cli/debug/yarel-cli")
}

pub fn scratch_dir(ctx: &Ctx, name: &str) -> PathBuf {
    let d = ctx.verif_dir.join("harness/target/cli_scratch").join(name);
    let _ = std::fs::create_dir_all(&d);
    d
}

/// `yarel-cli <script>` (args = [path]) or the REPL (args empty, `stdin` fed line by line), run in `cwd`
pub fn run(ctx: &Ctx, cwd: &PathBuf, args: &[&str], stdin: Option<&str>) -> CliRun {
    let bin = binary(ctx);
    if !bin.exists() {
        crate::pool::machinery_failure(&format!("{} not found (run through ./check)", bin.display()));
    }
    let mut child = match Command::new(&bin).args(args).current_dir(cwd).stdin(Stdio::piped()).stdout(Stdio::piped()).stderr(Stdio::piped()).env("RUST_BACKTRACE", "0").spawn() {
        Ok(c) => c,
        Err(e) => crate::pool::machinery_failure(&format!("cannot start yarel-cli: {}", e)),
    };
    if let Some(mut si) = child.stdin.take() {
        if let Some(text) = stdin {
            let _ = si.write_all(text.as_bytes());
        }
        // (dropping stdin closes it: the REPL ends at end of input)
    }
    let start = Instant::now();
    let mut timed_out = false;
    loop {
        match child.try_wait() {
            Ok(Some(_)) => break,
            Ok(None) => {
                if start.elapsed() > Duration::from_secs(20) {
                    let _ = child.kill();
                    timed_out = true;
                    break;
                }
                std::thread::sleep(Duration::from_millis(2));
            }
            Err(_) => break,
        }
    }
    match child.wait_with_output() {
        Ok(o) => CliRun { stdout: String::from_utf8_lossy(&o.stdout).into_owned(), stderr: String::from_utf8_lossy(&o.stderr).into_owned(), code: o.status.code(), timed_out },
        Err(e) => crate::pool::machinery_failure(&format!("yarel-cli: {}", e)),
    }
}
