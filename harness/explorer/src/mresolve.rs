//! Static name resolution for M-eval: every use of a name refers to the innermost enclosing local
//! declared textually before it, else to the module global of that name (looked up when the use
//! executes).  Also names lambdas (`lambda-K`, K counted per enclosing function).
use crate::ast::*;
use std::collections::HashMap;

#[derive(Clone, Copy, Debug, PartialEq)]
pub enum Res {
    /// hops up the runtime scope chain, index in that scope
    Local(usize, usize),
    Global,
}

#[derive(Default)]
pub struct Resolution {
    /// keyed by the address of the Expr node (Var / Assign / CompoundAssign / SelfRef / CapSelf /
    /// SuperGet / SuperInvoke ["super" and receiver]) or of the ClassDecl (superclass name use)
    pub at: HashMap<usize, Res>,
    /// receiver resolution for super expressions
    pub super_recv: HashMap<usize, Res>,
    /// lambda names keyed by FnDecl address
    pub lambda_names: HashMap<usize, String>,
    /// problems that make the program outside the model (e.g. a use the compiler would reject)
    pub unsupported: Vec<String>,
}

struct FnCtx {
    scopes: Vec<Vec<String>>,
    lambda_count: usize,
    is_script: bool,
}

pub struct Resolver {
    fns: Vec<FnCtx>,
    pub res: Resolution,
}

fn key<T>(t: &T) -> usize {
    t as *const T as usize
}

impl Resolver {
    pub fn new() -> Resolver {
        Resolver { fns: Vec::new(), res: Resolution::default() }
    }

    pub fn resolve_program(mut self, stmts: &[Stmt]) -> Resolution {
        // the script function: scope 0 holds the (unnamed) callee slot; top-level declarations are globals
        self.fns.push(FnCtx { scopes: vec![vec![String::new()]], lambda_count: 0, is_script: true });
        for s in stmts {
            self.stmt(s);
        }
        self.fns.pop();
        self.res
    }

    fn at_top_level(&self) -> bool {
        let f = self.fns.last().unwrap();
        f.is_script && f.scopes.len() == 1
    }

    fn begin(&mut self) {
        self.fns.last_mut().unwrap().scopes.push(Vec::new());
    }
    fn end(&mut self) {
        self.fns.last_mut().unwrap().scopes.pop();
    }

    /// declare a name in the current scope (no-op at top level: globals)
    fn declare(&mut self, name: &str) {
        if self.at_top_level() {
            return;
        }
        let scope = self.fns.last_mut().unwrap().scopes.last_mut().unwrap();
        if scope.iter().any(|n| n == name) {
            // a compile error in the language ("already declared in this scope"): not a run to compare
            self.res.unsupported.push("duplicate declaration in one scope".into());
        }
        scope.push(name.to_string());
    }

    fn lookup(&self, name: &str) -> Res {
        let mut hops = 0;
        for f in self.fns.iter().rev() {
            for scope in f.scopes.iter().rev() {
                if let Some(i) = scope.iter().rposition(|n| n == name) {
                    // the script's scope 0 only holds the callee slot
                    return Res::Local(hops, i);
                }
                hops += 1;
            }
        }
        Res::Global
    }

    fn block(&mut self, stmts: &[Stmt]) {
        self.begin();
        for s in stmts {
            self.stmt(s);
        }
        self.end();
    }

    fn function(&mut self, f: &FnDecl) {
        let slot0 = match f.kind {
            FnKind::Method | FnKind::Ctor => "self",
            FnKind::Static => "Self",
            FnKind::Function => "",
        };
        let mut scope = vec![slot0.to_string()];
        scope.extend(f.params.iter().cloned());
        self.fns.push(FnCtx { scopes: vec![scope], lambda_count: 0, is_script: false });
        match &f.body {
            FnBody::Block(b) => {
                for s in b {
                    self.stmt(s);
                }
            }
            FnBody::Expr(e) => self.expr(e),
        }
        self.fns.pop();
    }

    fn stmt(&mut self, s: &Stmt) {
        match &s.kind {
            StmtKind::Expr(e) => self.expr(e),
            StmtKind::Var(n, init) => {
                if let Some(e) = init {
                    self.expr(e);
                }
                self.declare(n);
            }
            StmtKind::Block(b) => self.block(b),
            StmtKind::If(c, then, els) => {
                self.expr(c);
                self.block(then);
                if let Some(e) = els {
                    self.stmt(e);
                }
            }
            StmtKind::While(c, body) => {
                self.expr(c);
                self.block(body);
            }
            StmtKind::For(v, it, body) => {
                // scope: loop variable (declared before the iterable is evaluated, but not yet
                // initialised: the generators never mention it there), hidden iterator; body scope inside
                self.begin();
                self.expr(it);
                self.declare(v);
                self.declare("... temp-iter-var ...");
                self.block(body);
                self.end();
            }
            StmtKind::Break | StmtKind::Continue => {}
            StmtKind::Return(e) => {
                if let Some(e) = e {
                    self.expr(e);
                }
            }
            StmtKind::Throw(e) => self.expr(e),
            StmtKind::Try(body, catch, finally) => {
                self.block(body);
                if let Some((v, b)) = catch {
                    self.begin();
                    self.declare(v);
                    for s in b {
                        self.stmt(s);
                    }
                    self.end();
                }
                if let Some(b) = finally {
                    self.block(b);
                }
            }
            StmtKind::Fn(f) => {
                self.declare(&f.name);
                self.function(f);
            }
            StmtKind::Class(c) => {
                self.declare(&c.name);
                let mut has_super = false;
                if let Some(sup) = &c.superclass {
                    let r = self.lookup(sup);
                    self.res.at.insert(key(&**c), r);
                    self.begin();
                    // inside a function or block the hidden `super` variable is a local of a new scope;
                    // at top level the compiler still opens a scope for it
                    self.fns.last_mut().unwrap().scopes.last_mut().unwrap().push("super".to_string());
                    has_super = true;
                }
                for m in &c.methods {
                    self.function(m);
                }
                if has_super {
                    self.end();
                }
            }
            StmtKind::Import(path, alias) => {
                let name = alias.clone().unwrap_or_else(|| path.rsplit('/').next().unwrap_or(path).to_string());
                self.declare(&name);
            }
        }
    }

    fn exprs(&mut self, es: &[Expr]) {
        for e in es {
            self.expr(e);
        }
    }

    fn expr(&mut self, e: &Expr) {
        match e {
            Expr::Nil | Expr::True | Expr::False | Expr::Num(_) | Expr::RawNum(..) | Expr::Str(_) | Expr::RawStr(..) => {}
            Expr::Interp(parts) => {
                for p in parts {
                    if let Part::Expr(e) = p {
                        self.expr(e);
                    }
                }
            }
            Expr::Var(n) => {
                let r = self.lookup(n);
                self.res.at.insert(key(e), r);
            }
            Expr::Assign(n, v) | Expr::CompoundAssign(n, _, v) => {
                let r = self.lookup(n);
                self.res.at.insert(key(e), r);
                self.expr(v);
            }
            Expr::Unary(_, a) | Expr::Paren(a) => self.expr(a),
            Expr::Binary(_, a, b) | Expr::And(a, b) | Expr::Or(a, b) | Expr::Index(a, b) => {
                self.expr(a);
                self.expr(b);
            }
            Expr::Call(f, args) => {
                self.expr(f);
                self.exprs(args);
            }
            Expr::Invoke(r, _, args) => {
                self.expr(r);
                self.exprs(args);
            }
            Expr::Get(r, _) => self.expr(r),
            Expr::Set(r, _, v) | Expr::CompoundSet(r, _, _, v) => {
                self.expr(r);
                self.expr(v);
            }
            Expr::SetIndex(a, i, v) => {
                self.expr(a);
                self.expr(i);
                self.expr(v);
            }
            Expr::VecLit(items) | Expr::TupleLit(items) => self.exprs(items),
            Expr::MapLit(items) => {
                for (k, v) in items {
                    self.expr(k);
                    self.expr(v);
                }
            }
            Expr::Lambda(f) => {
                let ctx = self.fns.last_mut().unwrap();
                let name = format!("lambda-{}", ctx.lambda_count);
                ctx.lambda_count += 1;
                self.res.lambda_names.insert(key(&**f), name);
                self.function(f);
            }
            Expr::SelfRef => {
                let r = self.lookup("self");
                if r == Res::Global {
                    self.res.unsupported.push("self outside a method".into());
                }
                self.res.at.insert(key(e), r);
            }
            Expr::CapSelf => {
                let r = self.lookup("Self");
                self.res.at.insert(key(e), r);
            }
            Expr::SuperGet(_) | Expr::SuperInvoke(..) => {
                // receiver: the first parameter of the enclosing method (`self`, or `Self` in a static
                // method), captured like any other variable when `super` sits in a nested function
                let slot0 = self.fns.iter().rev().map(|f| f.scopes[0][0].clone()).find(|n| n == "self" || n == "Self").unwrap_or_else(|| self.fns.last().unwrap().scopes[0][0].clone());
                if slot0 != "self" && slot0 != "Self" {
                    self.res.unsupported.push("super outside a method".into());
                }
                let recv = self.lookup(&slot0);
                self.res.super_recv.insert(key(e), recv);
                let sup = self.lookup("super");
                if sup == Res::Global {
                    self.res.unsupported.push("super without a superclass".into());
                }
                self.res.at.insert(key(e), sup);
                if let Expr::SuperInvoke(_, args) = e {
                    self.exprs(args);
                }
            }
        }
    }
}
