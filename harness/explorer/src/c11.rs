//! C11 — strings are equal exactly when their contents are equal.
//! Level 1: explicit-state BFS over intern/probe sequences on the *real* intern table (driven through
//! the verif hook with caller-chosen hashes), invariants checked in every state, reference M-intern.
//! Level 2: every pair of producers of the same byte string, with 0..40 fresh strings created before
//! and between them, through the language.
use crate::common::*;
use crate::pool::{par_map, Obs};
use proto::{InternObs, InternOp, Request};
use serde_json::json;
use std::collections::{BTreeMap, HashMap, HashSet};

type Key = (u64, &'static str);

fn pool(thorough: bool) -> Vec<Key> {
    let mut v: Vec<Key> = vec![
        (0, "a"),  // home 0 at every capacity
        (4, "b"),  // collides with 0 at capacity 4
        (8, "c"),  // collides at 4 and 8
        (16, "d"), // collides at 4, 8 and 16
        (7, "x"),  // identical full hash ...
        (7, "y"),  // ... different text
        (5, ""),   // the empty string
        (3, "f1"),
        (2, "f2"),
        // collisions whose probe chains wrap round the end of the table: home slot capacity-2 at
        // capacity 8 (and 16 for the second), and the last slot itself
        (6, "w1"),
        (14, "w2"),
        (22, "w3"),
        (15, "e1"),
    ];
    if thorough {
        v.extend([(12, "e"), (32, "g"), (1, "f3")]);
    }
    v
}

type SlotKey = Vec<Option<(u64, String)>>;

fn canon(obs: &InternObs) -> SlotKey {
    obs.slots.iter().map(|s| s.as_ref().map(|(h, t, _)| (*h, t.clone()))).collect()
}

/// invariants of one observed table state; returns a description of the first broken one
fn invariants(obs: &InternObs) -> Option<String> {
    let cap = obs.slots.len();
    if cap == 0 || cap & (cap - 1) != 0 {
        return Some(format!("capacity {} is not a power of two", cap));
    }
    if obs.mask != cap - 1 {
        return Some(format!("mask {} does not match capacity {}", obs.mask, cap));
    }
    let occupied = obs.slots.iter().filter(|s| s.is_some()).count();
    if occupied != obs.size {
        return Some(format!("size field {} but {} occupied slots", obs.size, occupied));
    }
    if (obs.size as f64) > (cap as f64) * 0.75 {
        return Some(format!("load {} / {} exceeds 0.75", obs.size, cap));
    }
    let mut seen = HashSet::new();
    let mut ids = HashSet::new();
    for s in obs.slots.iter().flatten() {
        if !seen.insert((s.0, s.1.clone())) {
            return Some(format!("two slots hold ({}, {:?})", s.0, s.1));
        }
        if !ids.insert(s.2) {
            return Some(format!("two slots hold the same string object #{}", s.2));
        }
    }
    for (p, s) in obs.slots.iter().enumerate() {
        if let Some((h, t, _)) = s {
            let mut i = (*h as usize) & obs.mask;
            while i != p {
                if obs.slots[i].is_none() {
                    return Some(format!("probe chain of ({}, {:?}) is broken: empty slot {} between home and position {}", h, t, i, p));
                }
                i = (i + 1) & obs.mask;
            }
        }
    }
    None
}

struct Expand {
    history: Vec<InternOp>,
    results: Vec<(InternOp, Option<InternObs>)>,
    crashed: Option<String>,
}

fn level1(ctx: &Ctx, report: &mut Report) -> (usize, usize, usize, usize, Vec<serde_json::Value>) {
    let thorough = ctx.thorough();
    let keys = pool(thorough);
    let depth = if thorough { 10 } else { 8 };
    let ops: Vec<InternOp> = keys
        .iter()
        .flat_map(|(h, t)| [InternOp { k: "intern".into(), hash: *h, text: t.to_string() }, InternOp { k: "probe".into(), hash: *h, text: t.to_string() }])
        .collect();
    let mut seen: HashMap<SlotKey, usize> = HashMap::new();
    let empty: SlotKey = vec![None; 4];
    seen.insert(empty, 0);
    let mut frontier: Vec<Vec<InternOp>> = vec![vec![]];
    let mut states = 1usize;
    let mut transitions = 0usize;
    let mut max_cap = 4usize;
    let mut max_chain = 0usize;
    let mut samples = Vec::new();
    let mut identical_hash_chain = false;
    for level in 0..depth {
        if frontier.is_empty() {
            break;
        }
        let ops_ref = &ops;
        let expanded = par_map(&ctx.runner_checked, ctx.workers, frontier.into_iter(), |runner, _i, history| {
            let mut req = Request { op: "intern".into(), intern_prefix: history.clone(), intern_alts: ops_ref.clone(), ..Default::default() };
            match runner.call(&mut req) {
                Obs::Resp(r) if r.intern.len() == ops_ref.len() => Expand { history, results: ops_ref.iter().cloned().zip(r.intern.into_iter().map(Some)).collect(), crashed: None },
                Obs::Resp(r) => Expand { history, results: vec![], crashed: Some(format!("runner answered {} of {} alternatives: {:?}", r.intern.len(), ops_ref.len(), r.results)) },
                other => Expand { history, results: vec![], crashed: Some(other.describe()) },
            }
        });
        let mut next: Vec<Vec<InternOp>> = Vec::new();
        for ex in expanded {
            if let Some(c) = ex.crashed {
                report.violations.push((format!("intern table operation sequence ends in {}", c), json!({"history": ex.history})));
                continue;
            }
            // model: keys interned by the history, in order
            let mut model: Vec<(u64, String)> = Vec::new();
            for op in &ex.history {
                if op.k == "intern" && !model.iter().any(|(h, t)| *h == op.hash && *t == op.text) {
                    model.push((op.hash, op.text.clone()));
                }
            }
            for (op, obs) in ex.results {
                transitions += 1;
                let obs = obs.unwrap();
                let mut trace = ex.history.clone();
                trace.push(op.clone());
                let pos = model.iter().position(|(h, t)| *h == op.hash && *t == op.text);
                let (want_id, want_new, mut after) = match (op.k.as_str(), pos) {
                    ("probe", Some(p)) => (Some(p), false, model.clone()),
                    ("probe", None) => (None, false, model.clone()),
                    (_, Some(p)) => (Some(p), false, model.clone()),
                    (_, None) => (Some(model.len()), true, {
                        let mut m = model.clone();
                        m.push((op.hash, op.text.clone()));
                        m
                    }),
                };
                let mut problem = None;
                if obs.id != want_id {
                    problem = Some(format!("{} ({}, {:?}) returned string object {:?}, the reference says {:?}", op.k, op.hash, op.text, obs.id, want_id));
                } else if obs.was_new != want_new {
                    problem = Some(format!("{} ({}, {:?}) reported new={}, the reference says {}", op.k, op.hash, op.text, obs.was_new, want_new));
                } else if let Some(inv) = invariants(&obs) {
                    problem = Some(inv);
                } else {
                    // every key ever interned is present with the object it was first given; nothing else
                    after.sort();
                    let mut present: Vec<(u64, String)> = obs.slots.iter().flatten().map(|(h, t, _)| (*h, t.clone())).collect();
                    present.sort();
                    if present != after {
                        problem = Some(format!("table holds {:?}, the reference holds {:?}", present, after));
                    } else {
                        for (h, t, id) in obs.slots.iter().flatten() {
                            let first = if op.k == "intern" && want_new && *h == op.hash && *t == op.text { model.len() } else { model.iter().position(|(mh, mt)| mh == h && mt == t).unwrap_or(usize::MAX) };
                            if *id != first {
                                problem = Some(format!("({}, {:?}) is now object #{}, it was first given #{}", h, t, id, first));
                            }
                        }
                    }
                }
                if let Some(p) = problem {
                    if report.violations.len() < 200 {
                        report.violations.push((p.clone(), json!({"history": trace, "observed": obs, "problem": p})));
                    }
                    continue;
                }
                max_cap = max_cap.max(obs.slots.len());
                // longest displacement, and whether the identical-hash pair shares a chain
                for (p, s) in obs.slots.iter().enumerate() {
                    if let Some((h, _, _)) = s {
                        let home = (*h as usize) & obs.mask;
                        let d = (p + obs.slots.len() - home) & obs.mask;
                        max_chain = max_chain.max(d);
                        if *h == 7 && d > 0 {
                            identical_hash_chain = true;
                        }
                    }
                }
                let key = canon(&obs);
                if !seen.contains_key(&key) {
                    seen.insert(key, level + 1);
                    states += 1;
                    if samples.len() < 3 || (obs.slots.len() == 16 && samples.len() < 5) {
                        samples.push(json!({"history": trace.iter().map(|o| format!("{}({},{:?})", o.k, o.hash, o.text)).collect::<Vec<_>>(), "slots": obs.slots}));
                    }
                    next.push(trace);
                }
            }
        }
        frontier = next;
    }
    // vacuity guards
    let want_cap = if thorough { 16 } else { 16 };
    if report.violations.is_empty() && max_cap < want_cap {
        crate::pool::machinery_failure(&format!("C11 level 1 never grew the table to {} slots (max {})", want_cap, max_cap));
    }
    if report.violations.is_empty() && !identical_hash_chain {
        crate::pool::machinery_failure("C11 level 1: the identical-hash pair never shared a probe chain");
    }
    (states, transitions, max_cap, max_chain, samples)
}

const LONG40: &str = "abcdefghijklmnopqrstuvwxyz0123456789ABCD";
const LONG70: &str = "The quick brown fox jumps over the lazy dog, twice: 0123456789 ABCDEFG";

fn long_producers(target: &str) -> Vec<String> {
    let n = target.len();
    let mut v = vec![format!("\"{}\"", target), format!("\"{}\" + \"{}\"", &target[..n / 2], &target[n / 2..])];
    for off in [1usize, 3, 4, 7, 8, 9] {
        let pad: String = "_".repeat(off);
        v.push(format!("\"{}{}__\"[{}..{}]", pad, target, off, off + n));
    }
    v.push(format!("\"q|{}|q\".split(\"|\")[1]", target));
    v.push(format!("\"#{}#{}\".replace(\"#\", \"\")", &target[..5], &target[5..]));
    v.push(format!("\"${{\"{}\"}}{}\"", &target[..7], &target[7..]));
    v
}

fn level2(ctx: &Ctx, report: &mut Report) -> (usize, usize) {
    let thorough = ctx.thorough();
    // (target, producers as source expressions)
    let targets: Vec<(&str, Vec<String>)> = vec![
        (
            "ab",
            vec![
                "\"ab\"".into(), "\"\\x61b\"".into(), "\"a\" + \"b\"".into(), "\"${\"a\"}b\"".into(), "\"xabx\"[1..3]".into(), "\"ab|c\".split(\"|\")[0]".into(),
                "\"aXb\".replace(\"X\", \"\")".into(), "String.from_ascii([97, 98])".into(), "String.from_utf8([97, 98])".into(), "String.from_code_points([97, 98])".into(),
                "hg_ab".into(), "[\"ab\"].iter().collect()[0]".into(),
            ],
        ),
        (
            "\u{e9}",
            vec![
                "\"\u{e9}\"".into(), "\"\\uc3a9\"".into(), "\"a\u{e9}b\"[1]".into(), "\"a\u{e9}b\"[1..3]".into(), "String.from_utf8([195, 169])".into(), "String.from_code_points([233])".into(),
                "\"\u{e9}\".iter().collect()[0]".into(), "\"x\u{e9}\".replace(\"x\", \"\")".into(), "\"${\"\u{e9}\"}\"".into(), "hg_e".into(),
            ],
        ),
        ("", vec!["\"\"".into(), "\"a\"[0..0]".into(), "\"a\".replace(\"a\", \"\")".into(), "\"|\".split(\"|\")[0]".into(), "String.from_ascii([])".into(), "\"\" + \"\"".into(), "hg_empty".into()]),
        ("12", vec!["\"12\"".into(), "String.from(12)".into(), "\"${12}\"".into(), "\"1\" + \"2\"".into(), "String.from(6 * 2)".into(), "\"${1}${2}\"".into()]),
        ("true", vec!["\"true\"".into(), "String.from(true)".into(), "\"${1 == 1}\"".into(), "\"tr\" + \"ue\"".into()]),
        ("nil", vec!["\"nil\"".into(), "String.from(nil)".into(), "\"${nil}\"".into()]),
        // long strings (40 and 70 bytes: past any length at which a hash function might switch to working
        // on words or blocks), cut out of longer ones at every offset from 1 to 9
        (LONG40, long_producers(LONG40)),
        (LONG70, long_producers(LONG70)),
        // strings the interpreter itself makes: the messages of the errors it raises, as handlers see them
        (
            "Vec index out of bounds.",
            vec!["\"Vec index out of bounds.\"".into(), "\"Vec index \" + \"out of bounds.\"".into(), "message_of(|| [][1])".into(), "message_of(|| [1, 2][7])".into(), "\"${message_of(|| [][0])}\"".into(), "message_of(|| [][1])[0..24]".into()],
        ),
        (
            "Undefined variable 'never_defined'.",
            vec!["\"Undefined variable 'never_defined'.\"".into(), "\"Undefined variable 'never\" + \"_defined'.\"".into(), "message_of(|| never_defined)".into(), "message_of(|| { never_defined = 1; })".into()],
        ),
        ("thrown", vec!["\"thrown\"".into(), "\"thr\" + \"own\"".into(), "message_of(|| { throw Error.new(\"thrown\"); })".into(), "Error.new(\"thrown\").context".into(), "message_of(|| { throw Error.new(\"thr\" + \"own\"); })".into()]),
    ];
    let natives = vec!["intern_global:hg_ab:ab".to_string(), "intern_global:hg_e:\u{e9}".to_string(), "intern_global:hg_empty:".to_string(), "intern_global:ab:selected by a host-created name".to_string()];
    let fillers: Vec<usize> = if thorough { (0..=40).collect() } else { vec![0, 1, 2, 3, 5, 6, 11, 12, 23, 24, 40] };
    let mut programs: Vec<(String, String)> = Vec::new();
    for (target, prods) in &targets {
        for (i, p1) in prods.iter().enumerate() {
            for (j, p2) in prods.iter().enumerate() {
                if !thorough && (i + j) % 2 == 1 && i != j {
                    continue;
                }
                for &k in &fillers {
                    let src = format!(
                        "fn message_of(f) {{ try {{ f(); }} catch e {{ return e.context; }} return nil; }}\nvar fill = [];\nfor i in 0..{k} {{ fill.push(\"f{i}_{j}_\" + String.from(i)); }}\nvar p1 = {p1};\nfor i in 0..{k} {{ fill.push(\"g{i}_{j}_\" + String.from(i)); }}\nvar p2 = {p2};\nprint(p1 == p2);\nprint(!(p1 != p2));\nvar m = {{p1: \"hit\"}};\nprint(m.get(p2));\nprint(m.has_key(p2));\nm.insert(p2, \"again\");\nprint(m.len());\nprint((p1, 1) == (p2, 1));\nprint({{(p1, 1): 5}}.get((p2, 1)));\nprint(p1 + \"!\" == p2 + \"!\");\nprint(p1 == p2 + \"x\");\nprint({{p1: 1}}.has_key(p2 + \"x\"));\nprint(p1.len() == p2.len());\n",
                        k = k, i = i, j = j, p1 = p1, p2 = p2
                    );
                    programs.push((src, target.to_string()));
                }
            }
        }
    }
    // a global defined under a host-created name is found by the compiled identifier and vice versa
    programs.push(("print(ab);\nvar zz = \"from the program\";\n".to_string(), "host-created global name".to_string()));
    let n = programs.len();
    let natives_ref = &natives;
    let expected_tail = ["true", "true", "hit", "true", "1", "true", "5", "true", "false", "false", "true"];
    let results = par_map(&ctx.runner_checked, ctx.workers, programs.into_iter(), |runner, _i, (src, target)| {
        let mut req = Request { op: "run".into(), snippets: vec![src.clone()], natives: natives_ref.clone(), fuel: Some(2_000_000), want: vec!["store".into()], ..Default::default() };
        let obs = runner.call(&mut req);
        let r = obs.resp().and_then(|r| r.results.get(0).cloned());
        let cap = obs.resp().and_then(|r| r.store).map(|s| s.1).unwrap_or(0);
        let problem = match r {
            Some(r) => {
                if target == "host-created global name" {
                    if r.out == vec!["selected by a host-created name".to_string()] && matches!(r.outcome, proto::Outcome::Ok) {
                        None
                    } else {
                        Some(format!("{:?} {:?}", r.out, r.outcome))
                    }
                } else if !matches!(r.outcome, proto::Outcome::Ok) {
                    Some(format!("ended with {:?}", r.outcome))
                } else if r.out.iter().map(|s| s.as_str()).collect::<Vec<_>>() != expected_tail {
                    Some(format!("printed {:?}, expected {:?}", r.out, expected_tail))
                } else {
                    None
                }
            }
            None => Some(obs.describe()),
        };
        (src, problem, cap)
    });
    let mut caps: BTreeMap<usize, usize> = BTreeMap::new();
    for (src, problem, cap) in results {
        *caps.entry(cap).or_insert(0) += 1;
        if let Some(p) = problem {
            report.violations.push((format!("[producers of one string] {}", p), json!({"family": "level2_producer_pairs", "source": src, "problem": p})));
        }
    }
    report.cov("level2_interpreter_table_capacities_seen", json!(caps));
    (n, caps.len())
}

/// Level 3: growth at every size.  Level 1's designed keys collide in a table that starts with four slots;
/// whatever the initial capacity is, the ladder walks the real table through every size up to its bound:
/// after n filler keys (two filler families: consecutive hashes, scattered hashes) each of eight trigger
/// keys - hashes that differ from a resident's in the bit that the next capacity adds, that land on the
/// last slots, that share a home slot - is interned as the (n+1)-th key on a fresh copy, the whole table
/// is checked against the reference and the invariants, and where the insertion made the table grow the
/// key and the oldest and newest fillers are looked up once more in the grown table.
fn level3(ctx: &Ctx, report: &mut Report) -> (usize, usize, usize, Vec<usize>) {
    let thorough = ctx.thorough();
    let n_max = if thorough { 3200 } else { 800 };
    let families: Vec<(&str, Box<dyn Fn(usize) -> u64 + Sync>)> = vec![("consecutive", Box::new(|i| i as u64)), ("scattered", Box::new(|i| ((i as u64 + 1).wrapping_mul(0x9E37_79B1)) & 0xF_FFFF))];
    let never = Some(proto::GcSpec { mode: "never".into(), only: vec![], quarantine: false });
    let mut transitions = 0usize;
    let mut growths: std::collections::BTreeSet<usize> = Default::default();
    let mut max_cap = 0usize;
    let mut steps = 0usize;
    for (fam, hash_of) in &families {
        let fillers: Vec<InternOp> = (0..n_max).map(|i| InternOp { k: "intern".into(), hash: hash_of(i), text: format!("{}{}", fam, i) }).collect();
        let fillers_ref = &fillers;
        let never_ref = &never;
        let results = par_map(&ctx.runner_checked, ctx.workers, 0..=n_max, |runner, _i, n| {
            runner.timeout = std::time::Duration::from_secs(120);
            let prefix: Vec<InternOp> = fillers_ref[..n].to_vec();
            let mut problems: Vec<(String, serde_json::Value)> = Vec::new();
            let mut done = 0usize;
            let mut grew: Vec<usize> = Vec::new();
            // the capacity before the insertion
            let absent = InternOp { k: "probe".into(), hash: u64::MAX, text: "never interned".into() };
            let mut req = Request { op: "intern".into(), intern_prefix: prefix.clone(), intern_alts: vec![absent], gc: never_ref.clone(), ..Default::default() };
            let before = match runner.call(&mut req) {
                Obs::Resp(r) if r.intern.len() == 1 => r.intern.into_iter().next().unwrap(),
                other => {
                    problems.push((format!("ladder of {} keys ends in {}", n, other.describe()), json!({"family": "level3_growth_ladder", "fillers": n})));
                    return (problems, done, grew, 0);
                }
            };
            done += 1;
            let cap = before.slots.len() as u64;
            if before.id.is_some() || before.size != n {
                problems.push((format!("after {} distinct keys the table reports size {} and finds a key never interned: {:?}", n, before.size, before.id), json!({"family": "level3_growth_ladder", "fillers": n})));
            }
            let trigger_hashes: Vec<u64> = vec![0, cap - 1, cap, cap + 1, 2 * cap - 1, 2 * cap + cap - 2, cap / 2, cap + cap / 2];
            let alts: Vec<InternOp> = trigger_hashes.iter().map(|h| InternOp { k: "intern".into(), hash: *h, text: format!("trigger{}", h) }).collect();
            let mut req = Request { op: "intern".into(), intern_prefix: prefix.clone(), intern_alts: alts.clone(), gc: never_ref.clone(), ..Default::default() };
            let obs = match runner.call(&mut req) {
                Obs::Resp(r) if r.intern.len() == alts.len() => r.intern,
                other => {
                    problems.push((format!("ladder of {} keys + one ends in {}", n, other.describe()), json!({"family": "level3_growth_ladder", "fillers": n})));
                    return (problems, done, grew, cap as usize);
                }
            };
            for (alt, o) in alts.iter().zip(obs.into_iter()) {
                done += 1;
                let mut problem: Option<String> = None;
                if o.id != Some(n) || !o.was_new {
                    problem = Some(format!("interning ({}, {:?}) as key number {} returned object {:?}, new={}", alt.hash, alt.text, n + 1, o.id, o.was_new));
                } else if let Some(inv) = invariants(&o) {
                    problem = Some(inv);
                } else {
                    let mut present: Vec<(u64, String, usize)> = o.slots.iter().flatten().cloned().collect();
                    present.sort_by_key(|e| e.2);
                    let expected: Vec<(u64, String, usize)> = prefix.iter().chain(std::iter::once(alt)).enumerate().map(|(i, op)| (op.hash, op.text.clone(), i)).collect();
                    if present != expected {
                        let first = present.iter().zip(expected.iter()).position(|(a, b)| a != b).unwrap_or(present.len().min(expected.len()));
                        problem = Some(format!("after {} fillers and ({}, {:?}) the table holds {} entries, the reference {}; first difference at entry {}: {:?} vs {:?}", n, alt.hash, alt.text, present.len(), expected.len(), first, present.get(first), expected.get(first)));
                    }
                }
                if problem.is_none() && o.slots.len() as u64 > cap {
                    grew.push(o.slots.len());
                    // look everything up again in the grown table
                    let mut again = vec![InternOp { k: "probe".into(), ..alt.clone() }, alt.clone()];
                    if n > 0 {
                        again.push(InternOp { k: "probe".into(), ..prefix[0].clone() });
                        again.push(prefix[n - 1].clone());
                        again.push(InternOp { k: "probe".into(), ..prefix[n / 2].clone() });
                    }
                    let want: Vec<usize> = if n > 0 { vec![n, n, 0, n - 1, n / 2] } else { vec![n, n] };
                    let mut p2 = prefix.clone();
                    p2.push(alt.clone());
                    let mut req = Request { op: "intern".into(), intern_prefix: p2, intern_alts: again.clone(), gc: never_ref.clone(), ..Default::default() };
                    match runner.call(&mut req) {
                        Obs::Resp(r) if r.intern.len() == again.len() => {
                            for ((op, w), o2) in again.iter().zip(want.iter()).zip(r.intern.iter()) {
                                done += 1;
                                if o2.id != Some(*w) || o2.was_new {
                                    problem = Some(format!("after the table grew from {} to {} slots on interning ({}, {:?}), {} ({}, {:?}) returned object {:?} (new={}), it is object #{}", cap, o.slots.len(), alt.hash, alt.text, op.k, op.hash, op.text, o2.id, o2.was_new, w));
                                    break;
                                }
                                if let Some(inv) = invariants(o2) {
                                    problem = Some(inv);
                                    break;
                                }
                            }
                        }
                        other => problem = Some(format!("lookups after growth end in {}", other.describe())),
                    }
                }
                if let Some(p) = problem {
                    problems.push((format!("[growth ladder] {}", p), json!({"family": "level3_growth_ladder", "filler_family": fillers_ref[0].text.trim_end_matches('0'), "fillers": n, "trigger": alt, "problem": p})));
                }
            }
            (problems, done, grew, cap as usize)
        });
        for (problems, done, grew, cap) in results {
            steps += 1;
            transitions += done;
            max_cap = max_cap.max(cap);
            growths.extend(grew);
            for pr in problems {
                if report.violations.len() < 200 {
                    report.violations.push(pr);
                }
            }
        }
    }
    let _ = steps;
    // vacuity guard: the ladder has to cross several growths whatever the initial capacity is
    if report.violations.is_empty() && growths.len() < 2 {
        crate::pool::machinery_failure(&format!("C11 level 3 saw the table grow to {:?} only", growths));
    }
    (transitions, n_max, max_cap, growths.into_iter().collect())
}

/// Level 4: the same ladder through the language and the interpreter's own table with real hashes: n
/// strings are produced twice by different producers, compared and used as map keys at once and again at
/// the end; n global names are declared and read.
fn level4(ctx: &Ctx, report: &mut Report) -> usize {
    let thorough = ctx.thorough();
    let mut programs: Vec<(String, Vec<String>, Option<proto::GcSpec>)> = Vec::new();
    let ladder = |n: usize, prefix: &str| -> (String, Vec<String>) {
        let src = format!(
            "var keep = [];\nvar m = {{}};\nvar unequal = 0;\nvar lost = 0;\nfor i in 0..{n} {{\n  var a = \"{p}\" + String.from(i);\n  var b = \"{p}${{i}}\";\n  if a != b {{ unequal += 1; }}\n  m.insert(a, i);\n  if m.get(b) != i {{ lost += 1; }}\n  keep.push(a);\n}}\nprint(unequal);\nprint(lost);\nvar bad = 0;\nfor i in 0..{n} {{\n  if keep[i] != \"{p}${{i}}\" {{ bad += 1; }}\n  if m.get(\"{p}\" + String.from(i)) != i {{ bad += 1; }}\n}}\nprint(bad);\nprint(m.len());\n",
            n = n,
            p = prefix
        );
        (src, vec!["0".into(), "0".into(), "0".into(), n.to_string()])
    };
    let never = Some(proto::GcSpec { mode: "never".into(), only: vec![], quarantine: false });
    for (k, prefix) in ["id", "k_", "a much longer prefix for the same purpose ", "\u{e9}"].iter().enumerate() {
        let (s1, e1) = ladder(if thorough { 900 } else { 450 } + k, prefix);
        programs.push((s1, e1, None));
        let (s2, e2) = ladder(if thorough { 14000 } else { 3500 } + k, prefix);
        programs.push((s2, e2, never.clone()));
    }
    // global names: declared, then read, in one program; and declared in one snippet, read in the next
    for g in [100usize, 200, 400, 800, if thorough { 3200 } else { 1600 }] {
        let mut src = String::new();
        for i in 0..g {
            src.push_str(&format!("var g{} = {};\n", i, i));
        }
        src.push_str("var sum = 0;\n");
        for i in 0..g {
            src.push_str(&format!("sum += g{};\n", i));
        }
        src.push_str("print(sum);\n");
        programs.push((src, vec![(g * (g - 1) / 2).to_string()], never.clone()));
    }
    let n = programs.len();
    let results = par_map(&ctx.runner_checked, ctx.workers, programs.into_iter(), |runner, _i, (src, expected, gc)| {
        runner.timeout = std::time::Duration::from_secs(300);
        let mut req = Request { op: "run".into(), snippets: vec![src.clone()], fuel: Some(400_000_000), gc, want: vec!["store".into()], ..Default::default() };
        let obs = runner.call(&mut req);
        let r = obs.resp().and_then(|r| r.results.get(0).cloned());
        let cap = obs.resp().and_then(|r| r.store).map(|s| s.1).unwrap_or(0);
        let problem = match r {
            Some(r) if matches!(r.outcome, proto::Outcome::Ok) && r.out == expected => None,
            Some(r) => Some(format!("printed {:?} and ended with {:?}, expected {:?}", r.out.iter().take(6).collect::<Vec<_>>(), r.outcome, expected)),
            None => Some(obs.describe()),
        };
        (src, problem, cap)
    });
    let mut caps: BTreeMap<usize, usize> = BTreeMap::new();
    for (src, problem, cap) in results {
        *caps.entry(cap).or_insert(0) += 1;
        if let Some(p) = problem {
            let head: String = src.chars().take(600).collect();
            report.violations.push((format!("[string ladder through the language] {}\n{}", p, head), json!({"family": "level4_language_ladder", "source": src, "problem": p})));
        }
    }
    report.cov("level4_interpreter_table_capacities_seen", json!(caps));
    n
}


/// Level 5: strings that outlive a program.  An embedding may keep what it read from a global, a function it
/// compiled, or a string it made itself, across later programs on the same interpreter and across `reset`;
/// a string made before and a string of the same bytes made afterwards are still one string to `==`, to
/// maps, to tuple keys and to global names.
fn level5(ctx: &Ctx, report: &mut Report) -> usize {
    use crate::expect::{self, Expect};
    let targets: Vec<(&str, Vec<String>)> = vec![
        ("ab", vec!["\"ab\"".into(), "\"a\" + \"b\"".into(), "\"${\"a\"}b\"".into(), "\"xabx\"[1..3]".into(), "\"ab|c\".split(\"|\")[0]".into(), "String.from_ascii([97, 98])".into(), "[\"ab\"].iter().collect()[0]".into()]),
        ("\u{e9}", vec!["\"\u{e9}\"".into(), "\"a\u{e9}b\"[1]".into(), "String.from_utf8([195, 169])".into(), "\"x\u{e9}\".replace(\"x\", \"\")".into()]),
        ("", vec!["\"\"".into(), "\"a\"[0..0]".into(), "\"\" + \"\"".into()]),
        ("12", vec!["\"12\"".into(), "String.from(12)".into(), "\"${1}${2}\"".into()]),
        (LONG40, long_producers(LONG40).into_iter().take(5).collect()),
    ];
    let probes = |k: usize| -> String {
        format!(
            "var fill = [];\nfor i in 0..{k} {{ fill.push(\"h{k}_\" + String.from(i)); }}\nprint(p1 == p2);\nvar m = {{p1: \"hit\"}};\nprint(m.get(p2));\nm.insert(p2, \"again\");\nprint(m.len());\nprint({{(p1, 1): 5}}.get((p2, 1)));\nprint(p1 + \"!\" == p2 + \"!\");\nprint(p1 == p2 + \"x\");\nprint(p1.len() == p2.len());\n",
            k = k
        )
    };
    let expected: Vec<String> = ["true", "hit", "1", "5", "true", "false", "true"].iter().map(|s| s.to_string()).collect();
    let ok = || "ok".to_string();
    let mut cases: Vec<Expect> = Vec::new();
    let mk = |family: &'static str, snippets: Vec<String>, out: Vec<Vec<String>>, d: serde_json::Value| -> Expect {
        let n = snippets.len();
        Expect { family, request: Request { op: "run".into(), snippets, fuel: Some(2_000_000), ..Default::default() }, out, end: vec!["ok".to_string(); n], describe: d, nontrivial: true }
    };
    let _ = ok;
    for (target, prods) in &targets {
        for (i, p1) in prods.iter().enumerate() {
            for (j, p2) in prods.iter().enumerate() {
                for k in [0usize, 7] {
                    let d = json!({"target": target, "first": p1, "second": p2, "fresh_strings_between": k});
                    // a value read from a global, kept across a reset and handed back
                    cases.push(mk(
                        "level5_value_kept_across_reset",
                        vec![format!("var p1 = {};\n", p1), "\u{0}host:keep_global:p1".into(), "\u{0}reset".into(), "\u{0}host:restore_global:p1".into(), format!("var p2 = {};\n{}", p2, probes(k))],
                        vec![vec![], vec![], vec![], vec![], expected.clone()],
                        d.clone(),
                    ));
                    // the same without a reset: the second program on the same interpreter
                    cases.push(mk("level5_second_program", vec![format!("var p1 = {};\n", p1), format!("var p2 = {};\n{}", p2, probes(k))], vec![vec![], expected.clone()], d.clone()));
                    // a compiled function kept by the embedding, run before and after a reset
                    if i <= j {
                        let prog = format!("var p1 = {};\nvar p2 = {};\n{}", p1, p2, probes(k));
                        cases.push(mk(
                            "level5_compiled_function_kept_across_reset",
                            vec![format!("\u{0}host:compile_keep:{}", prog), "\u{0}run_kept:0".into(), "\u{0}reset".into(), "\u{0}run_kept:0".into(), "\u{0}reset".into(), "\u{0}run_kept:0".into()],
                            vec![vec![], expected.clone(), vec![], expected.clone(), vec![], expected.clone()],
                            d.clone(),
                        ));
                    }
                }
            }
            // a string the host makes (before / after a reset) against a string the program makes
            for when in ["before", "after"] {
                let make = format!("\u{0}host:make_string_global:p1:{}", target);
                let prog = format!("var p2 = {};\n{}", p1, probes(3));
                let (snips, outs) = if when == "before" {
                    (vec![make.clone(), "\u{0}host:keep_global:p1".into(), "\u{0}reset".into(), "\u{0}host:restore_global:p1".into(), prog], vec![vec![], vec![], vec![], vec![], expected.clone()])
                } else {
                    (vec!["var junk = \"some\" + \"thing\";\n".to_string(), "\u{0}reset".into(), make.clone(), prog], vec![vec![], vec![], vec![], expected.clone()])
                };
                cases.push(mk("level5_host_made_string", snips, outs, json!({"target": target, "program_makes": p1, "host_makes_it": when})));
            }
            // a function of an earlier program kept across a reset: what it builds meets what it spells
            let lit = prods[0].clone();
            cases.push(mk(
                "level5_closure_kept_across_reset",
                vec![
                    format!("fn check() {{ var k = {}; return [k == {}, {{{}: 1}}.get(k)]; }}\nprint(check());\n", p1, lit, lit),
                    "\u{0}host:keep_global:check".into(),
                    "\u{0}reset".into(),
                    "\u{0}host:restore_global:check".into(),
                    "print(check());\n".into(),
                ],
                vec![vec!["[true, 1]".into()], vec![], vec![], vec![], vec!["[true, 1]".into()]],
                json!({"target": target, "builds": p1}),
            ));
        }
    }
    let n = cases.len();
    let st = expect::run_expect(ctx, &ctx.runner_checked, cases.into_iter(), &|_e, _r| None, &|_e, _p| None);
    report.cov("level5_by_family", json!(st.by_family));
    report.violations.extend(st.violations);
    n
}


/// Level 6: strings made by the repository's own command-line host.  `read_file_to_string` hands the
/// program the contents of a file; that string and the same bytes made by any producer in the language are
/// one string.  Every target is written to a file, every producer is paired with the file's string in both
/// orders, and the whole runs through the `yarel-cli` binary itself.
fn level6(ctx: &Ctx, report: &mut Report) -> usize {
    let dir = crate::cli::scratch_dir(ctx, "c11");
    let targets: Vec<(&str, &str, Vec<String>)> = vec![
        ("ab.txt", "ab", vec!["\"ab\"".into(), "\"a\" + \"b\"".into(), "\"xabx\"[1..3]".into(), "String.from_utf8([97, 98])".into(), "\"ab|c\".split(\"|\")[0]".into()]),
        ("e.txt", "\u{e9}", vec!["\"\u{e9}\"".into(), "String.from_utf8([195, 169])".into(), "\"a\u{e9}b\"[1..3]".into()]),
        ("empty.txt", "", vec!["\"\"".into(), "\"a\"[0..0]".into()]),
        ("long.txt", LONG70, long_producers(LONG70).into_iter().take(6).collect()),
        ("lines.txt", "first\nsecond\n", vec!["\"first\\nsecond\\n\"".into(), "\"first\\n\" + \"second\\n\"".into(), "\"${\"first\"}\\nsecond\\n\"".into()]),
    ];
    let expected = "true\ntrue\nhit\ntrue\n1\n5\ntrue\nfalse\ntrue\n";
    let mut n = 0;
    for (file, text, prods) in &targets {
        if std::fs::write(dir.join(file), text.as_bytes()).is_err() {
            crate::pool::machinery_failure("cannot write a scratch file for the command-line host");
        }
        for p in prods {
            for file_first in [true, false] {
                let (a, b) = if file_first { (format!("read_file_to_string(\"{}\")", file), p.clone()) } else { (p.clone(), format!("read_file_to_string(\"{}\")", file)) };
                let src = format!(
                    "var p1 = {};\nvar fill = [];\nfor i in 0..9 {{ fill.push(\"f\" + String.from(i)); }}\nvar p2 = {};\nprint(p1 == p2);\nprint(!(p1 != p2));\nvar m = {{p1: \"hit\"}};\nprint(m.get(p2));\nprint(m.has_key(p2));\nm.insert(p2, \"again\");\nprint(m.len());\nprint({{(p1, 1): 5}}.get((p2, 1)));\nprint(p1 + \"!\" == p2 + \"!\");\nprint(p1 == p2 + \"x\");\nprint(p1.len() == p2.len());\n",
                    a, b
                );
                let script = dir.join("probe.yl");
                // (one worker: the checks of this level run one after the other)
                let _ = std::fs::write(&script, &src);
                let r = crate::cli::run(ctx, &dir, &["probe.yl"], None);
                n += 1;
                if r.stdout != expected || r.code != Some(0) {
                    let problem = format!("through yarel-cli: printed {:?}, stderr {:?}, exit {:?}; expected {:?} and exit 0", r.stdout, r.stderr.chars().take(300).collect::<String>(), r.code, expected);
                    report.violations.push((format!("[level 6, a file's contents against {}] {}", p, problem), json!({"family": "level6_command_line_host", "source": src, "file": file, "file_contents": text, "problem": problem})));
                }
            }
        }
    }
    n
}

/// Level 7: different contents are different strings.  One-character strings are what an implementation is
/// most tempted to keep in a table of their own, keyed by something smaller than the character.  A pool of
/// characters in which every pair agrees in *something* (the low eight bits of the code point, the last byte
/// or the first byte of the encoding, the low seven bits, the length of the encoding) is produced by seven
/// producers (literal, indexing, iteration with `for`, `iter().collect()`, slicing, `from_code_points`,
/// `split`); for every producer pair and every ordered pair of different characters, first one then the other
/// in the same interpreter: the two strings differ, each has its own code point, each equals its literal,
/// and a map keeps them apart.
fn level7(ctx: &Ctx, report: &mut Report) -> usize {
    let chars: Vec<char> = vec!['0', '\u{130}', '\u{430}', '\u{2030}', '\u{1F030}', '1', '\u{531}', 'a', '\u{e1}', '\u{161}', '\u{a9}', '\u{e9}', '\u{169}', 'B', '\u{142}', '\u{7f}', '\u{80}', '\u{ff}', '\u{100}', '\u{7ff}', '\u{800}'];
    let lit = |c: char| -> String { if (c as u32) < 0x20 || c as u32 == 0x7f || (c as u32 >= 0x80 && (c as u32) < 0xa0) { format!("String.from_code_points([{}])", c as u32) } else { format!("\"{}\"", c) } };
    let producers: Vec<(&str, Box<dyn Fn(char) -> String + Sync + Send>)> = vec![
        ("literal", Box::new(move |c| lit(c))),
        ("indexing", Box::new(move |c| format!("(\"z\" + {})[1]", lit(c)))),
        ("for", Box::new(move |c| format!("last_of({})", lit(c)))),
        ("iter().collect()", Box::new(move |c| format!("({} + \"y\").iter().collect()[0]", lit(c)))),
        ("slicing", Box::new(move |c| format!("(\"zz\" + {} + \"y\")[2..{}]", lit(c), 2 + c.len_utf8()))),
        ("from_code_points", Box::new(move |c| format!("String.from_code_points([{}])", c as u32))),
        ("split", Box::new(move |c| format!("({} + \"|\" + {}).split(\"|\")[1]", lit(if c == 'a' { 'b' } else { 'a' }), lit(c)))),
    ];
    let mut programs: Vec<(String, String)> = Vec::new();
    for (na, pa) in &producers {
        for (nb, pb) in &producers {
            for &c1 in &chars {
                let mut src = String::from("fn last_of(s) { var r = nil; for ch in s { r = ch; } return r; }\nvar wrong = 0;\nfn check(x, y, cx, cy, lx, ly) {\n  var ok = x != y && !(x == y) && x.to_code_points() == [cx] && y.to_code_points() == [cy] && x == lx && y == ly && {x: 1, y: 2}.len() == 2 && {x: 1, y: 2}.get(ly) == 2 && {x: 1, y: 2}.get(lx) == 1;\n  if !ok { wrong += 1; print(\"wrong: \" + String.from(cx) + \" then \" + String.from(cy) + \": \" + String.from(x.to_code_points()) + \" \" + String.from(y.to_code_points())); }\n}\n");
                for &c2 in &chars {
                    if c1 == c2 {
                        continue;
                    }
                    src.push_str(&format!("check({}, {}, {}, {}, {}, {});\n", pa(c1), pb(c2), c1 as u32, c2 as u32, lit(c1), lit(c2)));
                }
                src.push_str("print(wrong);\n");
                programs.push((src, format!("U+{:04X} by {}, then every other character by {}", c1 as u32, na, nb)));
            }
        }
    }
    let n = programs.len();
    let results = par_map(&ctx.runner_checked, ctx.workers, programs.into_iter(), |runner, _i, (src, what)| {
        let mut req = Request { op: "run".into(), snippets: vec![src.clone()], fuel: Some(5_000_000), ..Default::default() };
        let obs = runner.call(&mut req);
        let problem = match obs.resp().and_then(|r| r.results.get(0).cloned()) {
            Some(r) if r.out == vec!["0".to_string()] && matches!(r.outcome, proto::Outcome::Ok) => None,
            Some(r) => Some(format!("printed {:?}, ended with {:?}", r.out.iter().take(4).collect::<Vec<_>>(), r.outcome)),
            None => Some(format!("run ended in {}", obs.describe())),
        };
        (src, what, problem)
    });
    for (src, what, problem) in results {
        if let Some(p) = problem {
            report.violations.push((format!("[level 7, different contents are different strings: {}] {}", what, p), json!({"family": "level7_different_contents", "request": {"op": "run", "snippets": [src]}, "problem": p})));
        }
    }
    n
}

pub fn run(ctx: &Ctx) -> Report {
    let mut report = Report::new();
    let (states, transitions, max_cap, max_chain, samples) = level1(ctx, &mut report);
    let (n2, ncaps) = level2(ctx, &mut report);
    let (t3, n3, cap3, growths3) = level3(ctx, &mut report);
    let n4 = level4(ctx, &mut report);
    let n5 = level5(ctx, &mut report);
    let n6 = level6(ctx, &mut report);
    let n7 = level7(ctx, &mut report);
    report.cov("level7_programs_different_contents_are_different_strings", json!(n7));
    report.cov("level6_runs_of_the_command_line_host", json!(n6));
    let transitions = transitions + t3;
    let n2 = n2 + n4 + n5 + n7;
    report.cov("level5_histories", json!(n5));
    report.cov("level3_ladder_length", json!(n3));
    report.cov("level3_lookups_and_insertions_checked", json!(t3));
    report.cov("level3_capacities_grown_to", json!(growths3));
    report.cov("level3_max_capacity_before_insertion", json!(cap3));
    report.cov("level4_programs", json!(n4));
    report.cov("states", json!(states));
    report.cov("transitions", json!(transitions));
    report.cov("traces_validated_against_impl", json!(transitions + n2));
    report.cov("evaluations", json!(transitions + n2));
    report.cov("distinct_nontrivial", json!(states + n2));
    report.cov("exhaustive", json!(true));
    report.cov("rule", json!("level 1: breadth-first search over every sequence of intern/probe operations on keys with designed hashes (collisions in the low 2/3/4 bits, an identical-full-hash pair, the empty string, fillers) up to the depth bound; a state is the real table's slot array; every transition is executed on the real table (fresh table, history replayed) and compared with a reference map; invariants checked in every state. level 2: every (sampled in quick: half of the) ordered pair of producers of each target string with k fresh strings created before and between, k over the filler set: equality, map selection, tuple-key selection, inequality of one-byte-different strings; a global defined under a host-created name; the targets include two long strings (40 and 70 bytes) cut out of longer ones at offsets 1-9, and strings the interpreter itself makes (messages of the errors it raises, as a handler sees them). level 3: growth at every size - after n = 0..N filler keys of two families each of eight trigger keys (hashes chosen against the table's current capacity) is interned on a fresh copy of the real table, the whole slot array is compared with the reference and the invariants, and after an insertion that grew the table the key, the first, the middle and the last filler are looked up again. level 4: ladders of n strings produced twice by different producers through the language (compared and used as map keys at once and again at the end), collecting at every allocation for the short ones, and programs declaring and reading up to 1600/3200 global names. level 5: strings that outlive a program - for every ordered pair of producers of five target strings: a value read from a global, kept by the embedding across a reset and handed back, against a string made afterwards; the same across two programs without a reset; a compiled function kept and run again after one and two resets; a string the host makes before or after a reset against one the program makes; a function of an earlier program kept across a reset. level 6: through the repository's own command-line host (the yarel-cli binary): the string `read_file_to_string` makes from a file against every producer of the same bytes in the language, both orders, five files (ASCII, a two-byte character, empty, 70 bytes, two lines)."));
    report.cov("bounds", json!({"level1_depth": if ctx.thorough() { 10 } else { 8 }, "level1_keys": pool(ctx.thorough()).len(), "level2_programs": n2}));
    report.cov("level1_max_capacity_reached", json!(max_cap));
    report.cov("level1_longest_probe_displacement", json!(max_chain));
    report.cov("level2_distinct_table_capacities", json!(ncaps));
    report.cov("samples", json!(samples));
    report.assumptions = vec![
        "level 1 drives the real ObjStringStore through a feature-guarded wrapper that mirrors new_gc_obj_string (get, allocate, insert) with caller-chosen hashes".into(),
        "field and method selection by a computed name does not exist in the language; selection is exercised through map keys, tuple keys, globals and host-created names".into(),
    ];
    report
}
