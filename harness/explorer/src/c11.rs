//! C11 — strings are equal exactly when their contents are equal.
//! Level 1: explicit-state BFS over intern/probe sequences on the *real* intern table (driven through
//! the verif hook with caller-chosen hashes), invariants checked in every state, reference M-intern.
//! Level 2: every pair of producers of the same byte string, with 0..40 fresh strings created before
//! and between them, through the language.
use crate::common::*;
use crate::pool::{par_map, Obs};
use proto::{InternObs, InternOp, Request};
use serde_json::json;
use std::collections::{BTreeMap, HashMap, HashSet};

type Key = (u64, &'static str);

fn pool(thorough: bool) -> Vec<Key> {
    let mut v: Vec<Key> = vec![
        (0, "a"),  // home 0 at every capacity
        (4, "b"),  // collides with 0 at capacity 4
        (8, "c"),  // collides at 4 and 8
        (16, "d"), // collides at 4, 8 and 16
        (7, "x"),  // identical full hash ...
        (7, "y"),  // ... different text
        (5, ""),   // the empty string
        (3, "f1"),
        (2, "f2"),
        // collisions whose probe chains wrap round the end of the table: home slot capacity-2 at
        // capacity 8 (and 16 for the second), and the last slot itself
        (6, "w1"),
        (14, "w2"),
        (22, "w3"),
        (15, "e1"),
    ];
    if thorough {
        v.extend([(12, "e"), (32, "g"), (1, "f3")]);
    }
    v
}

type SlotKey = Vec<Option<(u64, String)>>;

fn canon(obs: &InternObs) -> SlotKey {
    obs.slots.iter().map(|s| s.as_ref().map(|(h, t, _)| (*h, t.clone()))).collect()
}

/// invariants of one observed table state; returns a description of the first broken one
fn invariants(obs: &InternObs) -> Option<String> {
    let cap = obs.slots.len();
    if cap == 0 || cap & (cap - 1) != 0 {
        return Some(format!("capacity {} is not a power of two", cap));
    }
    if obs.mask != cap - 1 {
        return Some(format!("mask {} does not match capacity {}", obs.mask, cap));
    }
    let occupied = obs.slots.iter().filter(|s| s.is_some()).count();
    if occupied != obs.size {
        return Some(format!("size field {} but {} occupied slots", obs.size, occupied));
    }
    if (obs.size as f64) > (cap as f64) * 0.75 {
        return Some(format!("load {} / {} exceeds 0.75", obs.size, cap));
    }
    let mut seen = HashSet::new();
    let mut ids = HashSet::new();
    for s in obs.slots.iter().flatten() {
        if !seen.insert((s.0, s.1.clone())) {
            return Some(format!("two slots hold ({}, {:?})", s.0, s.1));
        }
        if !ids.insert(s.2) {
            return Some(format!("two slots hold the same string object #{}", s.2));
        }
    }
    for (p, s) in obs.slots.iter().enumerate() {
        if let Some((h, t, _)) = s {
            let mut i = (*h as usize) & obs.mask;
            while i != p {
                if obs.slots[i].is_none() {
                    return Some(format!("probe chain of ({}, {:?}) is broken: empty slot {} between home and position {}", h, t, i, p));
                }
                i = (i + 1) & obs.mask;
            }
        }
    }
    None
}

struct Expand {
    history: Vec<InternOp>,
    results: Vec<(InternOp, Option<InternObs>)>,
    crashed: Option<String>,
}

fn level1(ctx: &Ctx, report: &mut Report) -> (usize, usize, usize, usize, Vec<serde_json::Value>) {
    let thorough = ctx.thorough();
    let keys = pool(thorough);
    let depth = if thorough { 10 } else { 8 };
    let ops: Vec<InternOp> = keys
        .iter()
        .flat_map(|(h, t)| [InternOp { k: "intern".into(), hash: *h, text: t.to_string() }, InternOp { k: "probe".into(), hash: *h, text: t.to_string() }])
        .collect();
    let mut seen: HashMap<SlotKey, usize> = HashMap::new();
    let empty: SlotKey = vec![None; 4];
    seen.insert(empty, 0);
    let mut frontier: Vec<Vec<InternOp>> = vec![vec![]];
    let mut states = 1usize;
    let mut transitions = 0usize;
    let mut max_cap = 4usize;
    let mut max_chain = 0usize;
    let mut samples = Vec::new();
    let mut identical_hash_chain = false;
    for level in 0..depth {
        if frontier.is_empty() {
            break;
        }
        let ops_ref = &ops;
        let expanded = par_map(&ctx.runner_checked, ctx.workers, frontier.into_iter(), |runner, _i, history| {
            let mut req = Request { op: "intern".into(), intern_prefix: history.clone(), intern_alts: ops_ref.clone(), ..Default::default() };
            match runner.call(&mut req) {
                Obs::Resp(r) if r.intern.len() == ops_ref.len() => Expand { history, results: ops_ref.iter().cloned().zip(r.intern.into_iter().map(Some)).collect(), crashed: None },
                Obs::Resp(r) => Expand { history, results: vec![], crashed: Some(format!("runner answered {} of {} alternatives: {:?}", r.intern.len(), ops_ref.len(), r.results)) },
                other => Expand { history, results: vec![], crashed: Some(other.describe()) },
            }
        });
        let mut next: Vec<Vec<InternOp>> = Vec::new();
        for ex in expanded {
            if let Some(c) = ex.crashed {
                report.violations.push((format!("intern table operation sequence ends in {}", c), json!({"history": ex.history})));
                continue;
            }
            // model: keys interned by the history, in order
            let mut model: Vec<(u64, String)> = Vec::new();
            for op in &ex.history {
                if op.k == "intern" && !model.iter().any(|(h, t)| *h == op.hash && *t == op.text) {
                    model.push((op.hash, op.text.clone()));
                }
            }
            for (op, obs) in ex.results {
                transitions += 1;
                let obs = obs.unwrap();
                let mut trace = ex.history.clone();
                trace.push(op.clone());
                let pos = model.iter().position(|(h, t)| *h == op.hash && *t == op.text);
                let (want_id, want_new, mut after) = match (op.k.as_str(), pos) {
                    ("probe", Some(p)) => (Some(p), false, model.clone()),
                    ("probe", None) => (None, false, model.clone()),
                    (_, Some(p)) => (Some(p), false, model.clone()),
                    (_, None) => (Some(model.len()), true, {
                        let mut m = model.clone();
                        m.push((op.hash, op.text.clone()));
                        m
                    }),
                };
                let mut problem = None;
                if obs.id != want_id {
                    problem = Some(format!("{} ({}, {:?}) returned string object {:?}, the reference says {:?}", op.k, op.hash, op.text, obs.id, want_id));
                } else if obs.was_new != want_new {
                    problem = Some(format!("{} ({}, {:?}) reported new={}, the reference says {}", op.k, op.hash, op.text, obs.was_new, want_new));
                } else if let Some(inv) = invariants(&obs) {
                    problem = Some(inv);
                } else {
                    // every key ever interned is present with the object it was first given; nothing else
                    after.sort();
                    let mut present: Vec<(u64, String)> = obs.slots.iter().flatten().map(|(h, t, _)| (*h, t.clone())).collect();
                    present.sort();
                    if present != after {
                        problem = Some(format!("table holds {:?}, the reference holds {:?}", present, after));
                    } else {
                        for (h, t, id) in obs.slots.iter().flatten() {
                            let first = if op.k == "intern" && want_new && *h == op.hash && *t == op.text { model.len() } else { model.iter().position(|(mh, mt)| mh == h && mt == t).unwrap_or(usize::MAX) };
                            if *id != first {
                                problem = Some(format!("({}, {:?}) is now object #{}, it was first given #{}", h, t, id, first));
                            }
                        }
                    }
                }
                if let Some(p) = problem {
                    if report.violations.len() < 200 {
                        report.violations.push((p.clone(), json!({"history": trace, "observed": obs, "problem": p})));
                    }
                    continue;
                }
                max_cap = max_cap.max(obs.slots.len());
                // longest displacement, and whether the identical-hash pair shares a chain
                for (p, s) in obs.slots.iter().enumerate() {
                    if let Some((h, _, _)) = s {
                        let home = (*h as usize) & obs.mask;
                        let d = (p + obs.slots.len() - home) & obs.mask;
                        max_chain = max_chain.max(d);
                        if *h == 7 && d > 0 {
                            identical_hash_chain = true;
                        }
                    }
                }
                let key = canon(&obs);
                if !seen.contains_key(&key) {
                    seen.insert(key, level + 1);
                    states += 1;
                    if samples.len() < 3 || (obs.slots.len() == 16 && samples.len() < 5) {
                        samples.push(json!({"history": trace.iter().map(|o| format!("{}({},{:?})", o.k, o.hash, o.text)).collect::<Vec<_>>(), "slots": obs.slots}));
                    }
                    next.push(trace);
                }
            }
        }
        frontier = next;
    }
    // vacuity guards
    let want_cap = if thorough { 16 } else { 16 };
    if report.violations.is_empty() && max_cap < want_cap {
        crate::pool::machinery_failure(&format!("C11 level 1 never grew the table to {} slots (max {})", want_cap, max_cap));
    }
    if report.violations.is_empty() && !identical_hash_chain {
        crate::pool::machinery_failure("C11 level 1: the identical-hash pair never shared a probe chain");
    }
    (states, transitions, max_cap, max_chain, samples)
}

fn level2(ctx: &Ctx, report: &mut Report) -> (usize, usize) {
    let thorough = ctx.thorough();
    // (target, producers as source expressions)
    let targets: Vec<(&str, Vec<String>)> = vec![
        (
            "ab",
            vec![
                "\"ab\"".into(), "\"\\x61b\"".into(), "\"a\" + \"b\"".into(), "\"${\"a\"}b\"".into(), "\"xabx\"[1..3]".into(), "\"ab|c\".split(\"|\")[0]".into(),
                "\"aXb\".replace(\"X\", \"\")".into(), "String.from_ascii([97, 98])".into(), "String.from_utf8([97, 98])".into(), "String.from_code_points([97, 98])".into(),
                "hg_ab".into(), "[\"ab\"].iter().collect()[0]".into(),
            ],
        ),
        (
            "\u{e9}",
            vec![
                "\"\u{e9}\"".into(), "\"\\uc3a9\"".into(), "\"a\u{e9}b\"[1]".into(), "\"a\u{e9}b\"[1..3]".into(), "String.from_utf8([195, 169])".into(), "String.from_code_points([233])".into(),
                "\"\u{e9}\".iter().collect()[0]".into(), "\"x\u{e9}\".replace(\"x\", \"\")".into(), "\"${\"\u{e9}\"}\"".into(), "hg_e".into(),
            ],
        ),
        ("", vec!["\"\"".into(), "\"a\"[0..0]".into(), "\"a\".replace(\"a\", \"\")".into(), "\"|\".split(\"|\")[0]".into(), "String.from_ascii([])".into(), "\"\" + \"\"".into(), "hg_empty".into()]),
        ("12", vec!["\"12\"".into(), "String.from(12)".into(), "\"${12}\"".into(), "\"1\" + \"2\"".into(), "String.from(6 * 2)".into(), "\"${1}${2}\"".into()]),
        ("true", vec!["\"true\"".into(), "String.from(true)".into(), "\"${1 == 1}\"".into(), "\"tr\" + \"ue\"".into()]),
        ("nil", vec!["\"nil\"".into(), "String.from(nil)".into(), "\"${nil}\"".into()]),
    ];
    let natives = vec!["intern_global:hg_ab:ab".to_string(), "intern_global:hg_e:\u{e9}".to_string(), "intern_global:hg_empty:".to_string(), "intern_global:ab:selected by a host-created name".to_string()];
    let fillers: Vec<usize> = if thorough { (0..=40).collect() } else { vec![0, 1, 2, 3, 5, 6, 11, 12, 23, 24, 40] };
    let mut programs: Vec<(String, String)> = Vec::new();
    for (target, prods) in &targets {
        for (i, p1) in prods.iter().enumerate() {
            for (j, p2) in prods.iter().enumerate() {
                if !thorough && (i + j) % 2 == 1 && i != j {
                    continue;
                }
                for &k in &fillers {
                    let src = format!(
                        "var fill = [];\nfor i in 0..{k} {{ fill.push(\"f{i}_{j}_\" + String.from(i)); }}\nvar p1 = {p1};\nfor i in 0..{k} {{ fill.push(\"g{i}_{j}_\" + String.from(i)); }}\nvar p2 = {p2};\nprint(p1 == p2);\nprint(!(p1 != p2));\nvar m = {{p1: \"hit\"}};\nprint(m.get(p2));\nprint(m.has_key(p2));\nm.insert(p2, \"again\");\nprint(m.len());\nprint((p1, 1) == (p2, 1));\nprint({{(p1, 1): 5}}.get((p2, 1)));\nprint(p1 + \"!\" == p2 + \"!\");\nprint(p1 == p2 + \"x\");\nprint({{p1: 1}}.has_key(p2 + \"x\"));\nprint(p1.len() == p2.len());\n",
                        k = k, i = i, j = j, p1 = p1, p2 = p2
                    );
                    programs.push((src, target.to_string()));
                }
            }
        }
    }
    // a global defined under a host-created name is found by the compiled identifier and vice versa
    programs.push(("print(ab);\nvar zz = \"from the program\";\n".to_string(), "host-created global name".to_string()));
    let n = programs.len();
    let natives_ref = &natives;
    let expected_tail = ["true", "true", "hit", "true", "1", "true", "5", "true", "false", "false", "true"];
    let results = par_map(&ctx.runner_checked, ctx.workers, programs.into_iter(), |runner, _i, (src, target)| {
        let mut req = Request { op: "run".into(), snippets: vec![src.clone()], natives: natives_ref.clone(), fuel: Some(2_000_000), want: vec!["store".into()], ..Default::default() };
        let obs = runner.call(&mut req);
        let r = obs.resp().and_then(|r| r.results.get(0).cloned());
        let cap = obs.resp().and_then(|r| r.store).map(|s| s.1).unwrap_or(0);
        let problem = match r {
            Some(r) => {
                if target == "host-created global name" {
                    if r.out == vec!["selected by a host-created name".to_string()] && matches!(r.outcome, proto::Outcome::Ok) {
                        None
                    } else {
                        Some(format!("{:?} {:?}", r.out, r.outcome))
                    }
                } else if !matches!(r.outcome, proto::Outcome::Ok) {
                    Some(format!("ended with {:?}", r.outcome))
                } else if r.out.iter().map(|s| s.as_str()).collect::<Vec<_>>() != expected_tail {
                    Some(format!("printed {:?}, expected {:?}", r.out, expected_tail))
                } else {
                    None
                }
            }
            None => Some(obs.describe()),
        };
        (src, problem, cap)
    });
    let mut caps: BTreeMap<usize, usize> = BTreeMap::new();
    for (src, problem, cap) in results {
        *caps.entry(cap).or_insert(0) += 1;
        if let Some(p) = problem {
            report.violations.push((format!("[producers of one string] {}", p), json!({"family": "level2_producer_pairs", "source": src, "problem": p})));
        }
    }
    report.cov("level2_interpreter_table_capacities_seen", json!(caps));
    (n, caps.len())
}

pub fn run(ctx: &Ctx) -> Report {
    let mut report = Report::new();
    let (states, transitions, max_cap, max_chain, samples) = level1(ctx, &mut report);
    let (n2, ncaps) = level2(ctx, &mut report);
    report.cov("states", json!(states));
    report.cov("transitions", json!(transitions));
    report.cov("traces_validated_against_impl", json!(transitions + n2));
    report.cov("evaluations", json!(transitions + n2));
    report.cov("distinct_nontrivial", json!(states + n2));
    report.cov("exhaustive", json!(true));
    report.cov("rule", json!("level 1: breadth-first search over every sequence of intern/probe operations on keys with designed hashes (collisions in the low 2/3/4 bits, an identical-full-hash pair, the empty string, fillers) up to the depth bound; a state is the real table's slot array; every transition is executed on the real table (fresh table, history replayed) and compared with a reference map; invariants checked in every state. level 2: every (sampled in quick: half of the) ordered pair of producers of each target string with k fresh strings created before and between, k over the filler set: equality, map selection, tuple-key selection, inequality of one-byte-different strings; a global defined under a host-created name."));
    report.cov("bounds", json!({"level1_depth": if ctx.thorough() { 10 } else { 8 }, "level1_keys": pool(ctx.thorough()).len(), "level2_programs": n2}));
    report.cov("level1_max_capacity_reached", json!(max_cap));
    report.cov("level1_longest_probe_displacement", json!(max_chain));
    report.cov("level2_distinct_table_capacities", json!(ncaps));
    report.cov("samples", json!(samples));
    report.assumptions = vec![
        "level 1 drives the real ObjStringStore through a feature-guarded wrapper that mirrors new_gc_obj_string (get, allocate, insert) with caller-chosen hashes".into(),
        "field and method selection by a computed name does not exist in the language; selection is exercised through map keys, tuple keys, globals and host-created names".into(),
    ];
    report
}
