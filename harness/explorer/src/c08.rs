//! C08 — exceptions reach the innermost active handler; finally always runs.
use crate::pool::par_map;
use proto::Request;
use crate::ast::*;
use crate::common::*;
use crate::diff::*;
use crate::mcheck::{self, Case, Hooks};
use crate::meval::Outcome;
use serde_json::json;

#[derive(Clone, Copy, Debug, PartialEq)]
pub enum Leaf {
    Fall,
    ThrowStr,
    ThrowNum,
    ThrowError,
    ThrowUser,
    TypeErr,
    IndexErr,
    NameErr,
    AttrErr,
    ValueErr,
    RuntimeErr,
    Deep(u8),
    Return,
    Break,
    Continue,
    /// call a function that itself returns through a try/finally
    CallRtt,
    /// call a function whose finally block returns while its own return is waiting
    CallRif,
    /// call a function whose finally block returns while an exception is waiting
    CallXif,
}

pub const LEAVES: [Leaf; 20] = [
    Leaf::Fall, Leaf::ThrowStr, Leaf::ThrowNum, Leaf::ThrowError, Leaf::ThrowUser, Leaf::TypeErr, Leaf::IndexErr,
    Leaf::NameErr, Leaf::AttrErr, Leaf::ValueErr, Leaf::RuntimeErr, Leaf::Deep(1), Leaf::Deep(2), Leaf::Deep(3),
    Leaf::Return, Leaf::Break, Leaf::Continue, Leaf::CallRtt, Leaf::CallRif, Leaf::CallXif,
];

#[derive(Clone, Copy, Debug, PartialEq)]
pub enum Cons {
    Block,
    TcBody,
    TcCatch,
    TfBody,
    TfFinally,
    TfFinallyAfterThrow,
    TcfBody,
    TcfCatch,
    TcfFinally,
    /// try { return } finally { focus }: the focus runs while a return is pending
    TrfFinally,
    /// try { return } catch e { } finally { focus }
    TrcfFinally,
    While1,
    While2,
    For,
    CallFn,
    CallMethod,
    CallClosure,
}

pub const CONS: [Cons; 17] = [
    Cons::Block, Cons::TcBody, Cons::TcCatch, Cons::TfBody, Cons::TfFinally, Cons::TfFinallyAfterThrow, Cons::TcfBody,
    Cons::TcfCatch, Cons::TcfFinally, Cons::TrfFinally, Cons::TrcfFinally, Cons::While1, Cons::While2, Cons::For, Cons::CallFn, Cons::CallMethod, Cons::CallClosure,
];

fn p(text: &str) -> Stmt {
    print_stmt(s(text))
}

/// filler 0: print only; filler 1: declare a local and print it
fn filler(kind: u8, tag: &str) -> Vec<Stmt> {
    if kind == 0 {
        vec![p(tag)]
    } else {
        let name = format!("z_{}", tag.replace(|c: char| !c.is_ascii_alphanumeric(), "_"));
        vec![var_stmt(&name, s(&format!("local {}", tag))), print_stmt(var(&name))]
    }
}

fn catch_body(tag: &str) -> Vec<Stmt> {
    vec![p(&format!("C{}", tag)), print_stmt(call(var("type"), vec![var("e")])), print_stmt(var("e"))]
}

pub fn leaf_stmts(l: Leaf) -> Vec<Stmt> {
    match l {
        Leaf::Fall => vec![p("leaf")],
        Leaf::ThrowStr => vec![st(StmtKind::Throw(s("boom")))],
        Leaf::ThrowNum => vec![st(StmtKind::Throw(num(42.0)))],
        Leaf::ThrowError => vec![st(StmtKind::Throw(invoke(var("Error"), "new", vec![s("err ctx")])))],
        Leaf::ThrowUser => vec![st(StmtKind::Throw(invoke(var("MyErr"), "new", vec![s("user ctx")])))],
        Leaf::TypeErr => vec![expr_stmt(bin(BinOp::Add, num(1.0), Expr::Nil))],
        Leaf::IndexErr => vec![expr_stmt(index(Expr::VecLit(vec![]), num(0.0)))],
        Leaf::NameErr => vec![expr_stmt(var("undefined_name"))],
        Leaf::AttrErr => vec![expr_stmt(get(Expr::Nil, "nothing"))],
        Leaf::ValueErr => vec![expr_stmt(bin(BinOp::Range, num(1.0), num(0.5)))],
        Leaf::RuntimeErr => vec![expr_stmt(invoke(Expr::VecLit(vec![]), "pop", vec![]))],
        Leaf::Deep(d) => vec![expr_stmt(call(var(&format!("thr{}", d)), vec![]))],
        Leaf::Return => vec![st(StmtKind::Return(Some(s("returned"))))],
        Leaf::Break => vec![st(StmtKind::Break)],
        Leaf::Continue => vec![st(StmtKind::Continue)],
        Leaf::CallRtt => vec![print_stmt(call(var("rtt"), vec![]))],
        Leaf::CallRif => vec![print_stmt(call(var("rif"), vec![]))],
        Leaf::CallXif => vec![print_stmt(call(var("xif"), vec![]))],
    }
}

pub fn prelude() -> Vec<Stmt> {
    vec![
        class_stmt("MyErr", Some("Error"), None, vec![method(FnKind::Ctor, "new", &["c"], vec![expr_stmt(Expr::SuperInvoke("new".into(), vec![var("c")]))])]),
        fn_stmt(func("thr1", &[], vec![p("in thr1"), st(StmtKind::Throw(s("deep")))])),
        fn_stmt(func("thr2", &[], vec![var_stmt("l2", s("l2")), expr_stmt(call(var("thr1"), vec![])), print_stmt(var("l2"))])),
        fn_stmt(func("thr3", &[], vec![st(StmtKind::Try(vec![expr_stmt(call(var("thr2"), vec![]))], None, Some(vec![p("thr3 finally")])))])),
        fn_stmt(func("rtt", &[], vec![st(StmtKind::Try(vec![st(StmtKind::Return(Some(s("rtt value"))))], None, Some(vec![p("rtt finally")])))])),
        fn_stmt(func("rif", &[], vec![st(StmtKind::Try(vec![st(StmtKind::Return(Some(s("rif first value"))))], None, Some(vec![p("rif finally"), st(StmtKind::Return(Some(s("rif second value"))))])))])),
        fn_stmt(func("xif", &[], vec![st(StmtKind::Try(vec![st(StmtKind::Throw(s("xif exception")))], None, Some(vec![p("xif finally"), st(StmtKind::Return(Some(s("xif value"))))])))])),
    ]
}

/// Wrap `inner` in construct `c` (level `n` gives unique labels; `f` picks the filler).  `in_loop` tells
/// whether a loop of the same function encloses the construct.  Returns None when the combination is
/// not a program (break outside a loop is decided by the caller through `loop_inside`).
fn wrap(c: Cons, n: usize, f: u8, inner: Vec<Stmt>) -> Vec<Stmt> {
    let l = format!("{}", n);
    let keep = format!("keep{}", n);
    let mut out = vec![var_stmt(&keep, s(&format!("kept {}", n)))];
    let enter = |t: &str| p(&format!("{}{}>", t, l));
    let exit = |t: &str| p(&format!("<{}{}", t, l));
    let mut focus = |t: &str| -> Vec<Stmt> {
        let mut v = vec![enter(t)];
        v.extend(inner.clone());
        v.push(exit(t));
        v
    };
    match c {
        Cons::Block => out.push(block(focus("B"))),
        Cons::TcBody => out.push(st(StmtKind::Try(focus("T"), Some(("e".into(), catch_body(&l))), None))),
        Cons::TcCatch => {
            let fo = focus("C");
            out.push(st(StmtKind::Try(vec![p(&format!("T{}", l)), st(StmtKind::Throw(s("tc")))], Some(("e".into(), fo)), None)))
        }
        Cons::TfBody => out.push(st(StmtKind::Try(focus("T"), None, Some(filler(f, &format!("F{}", l)))))),
        Cons::TfFinally => {
            let fo = focus("F");
            out.push(st(StmtKind::Try(filler(f, &format!("T{}", l)), None, Some(fo))))
        }
        Cons::TfFinallyAfterThrow => {
            let fo = focus("F");
            out.push(st(StmtKind::Try(vec![p(&format!("T{}", l)), st(StmtKind::Throw(s("tf")))], None, Some(fo))))
        }
        Cons::TcfBody => out.push(st(StmtKind::Try(focus("T"), Some(("e".into(), catch_body(&l))), Some(filler(f, &format!("F{}", l)))))),
        Cons::TcfCatch => {
            let fo = focus("C");
            out.push(st(StmtKind::Try(vec![p(&format!("T{}", l)), st(StmtKind::Throw(s("tcf")))], Some(("e".into(), fo)), Some(filler(f, &format!("F{}", l))))))
        }
        Cons::TcfFinally => {
            let fo = focus("F");
            out.push(st(StmtKind::Try(vec![p(&format!("T{}", l)), st(StmtKind::Throw(s("tcf")))], Some(("e".into(), catch_body(&l))), Some(fo))))
        }
        Cons::TrfFinally => {
            let fo = focus("F");
            out.push(st(StmtKind::Try(vec![p(&format!("T{}", l)), st(StmtKind::Return(Some(s(&format!("returned from try {}", l)))))], None, Some(fo))))
        }
        Cons::TrcfFinally => {
            let fo = focus("F");
            out.push(st(StmtKind::Try(vec![p(&format!("T{}", l)), st(StmtKind::Return(Some(s(&format!("returned from try {}", l)))))], Some(("e".into(), catch_body(&l))), Some(fo))))
        }
        Cons::While1 | Cons::While2 => {
            let w = format!("w{}", n);
            let mut body = vec![expr_stmt(Expr::CompoundAssign(w.clone(), BinOp::Add, Box::new(num(1.0))))];
            body.extend(focus("W"));
            out.push(var_stmt(&w, num(0.0)));
            out.push(st(StmtKind::While(bin(BinOp::Lt, var(&w), num(if c == Cons::While1 { 1.0 } else { 2.0 })), body)));
        }
        Cons::For => {
            let x = format!("x{}", n);
            let mut body = vec![print_stmt(var(&x))];
            body.extend(focus("R"));
            out.push(st(StmtKind::For(x, Expr::VecLit(vec![num(1.0), num(2.0)]), body)));
        }
        Cons::CallFn => {
            let g = format!("g{}", n);
            let mut body = focus("G");
            body.push(st(StmtKind::Return(Some(s(&format!("g{} done", n))))));
            out.push(fn_stmt(func(&g, &[], body)));
            out.push(print_stmt(call(var(&g), vec![])));
        }
        Cons::CallMethod => {
            let k = format!("K{}", n);
            let mut body = focus("M");
            body.push(st(StmtKind::Return(Some(s(&format!("m{} done", n))))));
            out.push(class_stmt(&k, None, Some("new"), vec![method(FnKind::Method, "m", &[], body)]));
            out.push(print_stmt(invoke(invoke(var(&k), "new", vec![]), "m", vec![])));
        }
        Cons::CallClosure => {
            let cn = format!("c{}", n);
            let mut body = focus("L");
            body.push(st(StmtKind::Return(Some(s(&format!("c{} done", n))))));
            out.push(var_stmt(&cn, lambda_block(&[], body)));
            out.push(print_stmt(call(var(&cn), vec![])));
        }
    }
    out.extend(filler(f, &format!("after{}", l)));
    out.push(print_stmt(var(&keep)));
    out
}

fn is_loop(c: Cons) -> bool {
    matches!(c, Cons::While1 | Cons::While2 | Cons::For)
}
fn is_call(c: Cons) -> bool {
    matches!(c, Cons::CallFn | Cons::CallMethod | Cons::CallClosure)
}

/// a nest: constructs outermost first, fillers, the leaf
#[derive(Clone, Debug)]
pub struct Nest {
    pub cons: Vec<(Cons, u8)>,
    pub leaf: Leaf,
}

impl Nest {
    /// break/continue need an enclosing loop in the same function
    pub fn valid(&self) -> bool {
        if matches!(self.leaf, Leaf::Break | Leaf::Continue) {
            for (c, _) in self.cons.iter().rev() {
                if is_loop(*c) {
                    return true;
                }
                if is_call(*c) {
                    return false;
                }
            }
            return false;
        }
        true
    }
    pub fn build(&self, base: usize) -> Vec<Stmt> {
        let mut inner = leaf_stmts(self.leaf);
        for (k, (c, f)) in self.cons.iter().enumerate().rev() {
            inner = wrap(*c, base + k + 1, *f, inner);
        }
        inner
    }
}

pub fn program(nests: &[Nest]) -> Vec<Stmt> {
    let mut prog = prelude();
    let mut body = Vec::new();
    let mut base = 0;
    for n in nests {
        body.extend(n.build(base));
        base += 10;
    }
    body.push(st(StmtKind::Return(Some(s("end of main")))));
    prog.push(fn_stmt(func("main_", &[], body)));
    prog.push(print_stmt(call(var("main_"), vec![])));
    prog.push(p("after main"));
    prog
}

pub fn nests_of_depth(d: usize) -> Vec<Nest> {
    let mut out = Vec::new();
    let mut stack: Vec<Vec<(Cons, u8)>> = vec![vec![]];
    for _ in 0..d {
        let mut next = Vec::new();
        for pre in &stack {
            for c in CONS {
                let fillers: &[u8] = if matches!(c, Cons::Block | Cons::TcBody | Cons::TcCatch) { &[0] } else { &[0, 1] };
                for &f in fillers {
                    let mut v = pre.clone();
                    v.push((c, f));
                    next.push(v);
                }
            }
        }
        stack = next;
    }
    for cons in stack {
        for leaf in LEAVES {
            let n = Nest { cons: cons.clone(), leaf };
            if n.valid() {
                out.push(n);
            }
        }
    }
    out
}

/// Depth-3 nests in the quick tier: a loop around two nested try-like constructs (every combination,
/// both fillers) with the leaves that leave or cross them - the shape in which break, continue and
/// return pass through two finally blocks with locals declared at every level.
pub fn loop_try_try_nests() -> Vec<Nest> {
    let loops = [Cons::While1, Cons::While2, Cons::For];
    let trys = [Cons::TcBody, Cons::TcCatch, Cons::TfBody, Cons::TfFinally, Cons::TfFinallyAfterThrow, Cons::TcfBody, Cons::TcfCatch, Cons::TcfFinally, Cons::TrfFinally, Cons::TrcfFinally];
    let leaves = [Leaf::Fall, Leaf::ThrowStr, Leaf::IndexErr, Leaf::Deep(2), Leaf::Return, Leaf::Break, Leaf::Continue, Leaf::CallRif];
    let fillers = |c: Cons| -> &'static [u8] { if matches!(c, Cons::Block | Cons::TcBody | Cons::TcCatch) { &[0] } else { &[0, 1] } };
    let mut out = Vec::new();
    for l in loops {
        for &fl in fillers(l) {
            for a in trys {
                for &fa in fillers(a) {
                    for b in trys {
                        for &fb in fillers(b) {
                            for leaf in leaves {
                                let n = Nest { cons: vec![(l, fl), (a, fa), (b, fb)], leaf };
                                if n.valid() {
                                    out.push(n);
                                }
                            }
                        }
                    }
                }
            }
        }
    }
    out
}

/// A loop whose body holds two statements in a row: a try-like construct around an inner loop (which
/// finishes, or is left by break / continue), then a try-like construct with a leaf that leaves or
/// crosses it - what the first statement leaves behind in the compiler's and the interpreter's loop and
/// try bookkeeping is what the second one starts from.
pub fn loop_with_pair_programs() -> Vec<Vec<Stmt>> {
    let loops = [Cons::While2, Cons::For];
    let trys = [Cons::TcBody, Cons::TcCatch, Cons::TfBody, Cons::TfFinally, Cons::TcfBody, Cons::TcfCatch, Cons::TcfFinally];
    let inner_loops = [Cons::While1, Cons::For];
    let first_leaves = [Leaf::Fall, Leaf::Break, Leaf::Continue];
    let second_leaves = [Leaf::Fall, Leaf::ThrowStr, Leaf::Return, Leaf::Break, Leaf::Continue];
    let mut out = Vec::new();
    for l in loops {
        for a in trys {
            for il in inner_loops {
                for fl in first_leaves {
                    for b in trys {
                        for sl in second_leaves {
                            let first = Nest { cons: vec![(a, 0), (il, 0)], leaf: fl };
                            let second = Nest { cons: vec![(b, 0)], leaf: sl };
                            let mut body = first.build(10);
                            body.extend(second.build(20));
                            out.push(wrap(l, 1, 0, body));
                        }
                    }
                }
            }
        }
    }
    out
}


/// The loop-exit shapes (a loop around two try-like constructs; a loop whose body holds a try-like construct
/// around an inner loop and then a second one) at *script level* - not inside a function - and repeated forty
/// times by an enclosing loop: code that pops one slot too many or too few per exit runs off the bottom or
/// the top of the operand stack there (C02: the host never panics).  Returns source texts.
pub fn script_level_repeated() -> Vec<String> {
    let mut out = Vec::new();
    let rep = |body: Vec<Stmt>| -> String {
        let mut prog = prelude();
        prog.push(var_stmt("zz_keep", s("a script-level local above the loop")));
        prog.push(st(StmtKind::For("zz_rep".into(), bin(BinOp::Range, num(0.0), num(40.0)), body)));
        prog.push(print_stmt(var("zz_keep")));
        prog.push(p("end"));
        // the locals of the repeated body live in a block so that the script-level code has locals, too
        print_program(&[block(prog)], false)
    };
    // the same statements directly at script level, where the loop counters are globals and nothing lies
    // below the statement's own temporaries on the operand stack
    let bare = |body: Vec<Stmt>| -> String {
        let mut prog = prelude();
        prog.extend(body);
        prog.push(p("end"));
        print_program(&prog, false)
    };
    for n in loop_try_try_nests() {
        if matches!(n.leaf, Leaf::Return | Leaf::CallRif) {
            continue;
        }
        out.push(rep(n.build(0)));
        out.push(bare(n.build(0)));
    }
    let loops = [Cons::While2, Cons::For];
    let trys = [Cons::TcBody, Cons::TcCatch, Cons::TfBody, Cons::TfFinally, Cons::TcfBody, Cons::TcfCatch, Cons::TcfFinally];
    for l in loops {
        for a in trys {
            for fl in [Leaf::Fall, Leaf::Break, Leaf::Continue] {
                for b in trys {
                    for sl in [Leaf::Fall, Leaf::Break, Leaf::Continue] {
                        let first = Nest { cons: vec![(a, 0), (Cons::For, 0)], leaf: fl };
                        let second = Nest { cons: vec![(b, 1)], leaf: sl };
                        let mut body = first.build(10);
                        body.extend(second.build(20));
                        out.push(rep(wrap(l, 1, 0, body.clone())));
                        out.push(bare(wrap(l, 1, 0, body)));
                    }
                }
            }
        }
    }
    out
}

pub fn loop_with_pair_cases() -> Vec<Case> {
    loop_with_pair_programs()
        .into_iter()
        .map(|body| {
            let mut prog = prelude();
            let mut b = body;
            b.push(st(StmtKind::Return(Some(s("end of main")))));
            prog.push(fn_stmt(func("main_", &[], b)));
            prog.push(st(StmtKind::Try(vec![print_stmt(call(var("main_"), vec![]))], Some(("e".into(), vec![print_stmt(var("e"))])), None)));
            prog.push(p("after main"));
            Case::new("loop_with_pair_of_try_statements", prog)
        })
        .collect()
}

/// A try statement in a loop whose finally block is left by continue / break on the first pass while an
/// outcome (return, exception, exception from the catch block) is waiting, and which is entered again and
/// completes normally on the later passes; then an unrelated try statement.  The abandoned outcome
/// must not come back.
pub fn reentered_after_abrupt_finally_exit() -> Vec<Case> {
    let first = |then: Vec<Stmt>| st(StmtKind::If(bin(BinOp::Eq, var("i"), num(1.0)), then, None));
    let lab = |t: &str| print_stmt(Expr::Interp(vec![Part::Lit(format!("{} ", t)), Part::Expr(var("i"))]));
    let mut out = Vec::new();
    for pending in 0..5 {
        for exit in 0..3 {
            for with_catch in [false, true] {
                // pending outcome of the first pass
                let raise: Vec<Stmt> = match pending {
                    0 => vec![st(StmtKind::Return(Some(s("abandoned return"))))],
                    1 => vec![st(StmtKind::Throw(s("abandoned exception")))],
                    2 => vec![expr_stmt(index(Expr::VecLit(vec![]), num(0.0)))],
                    3 => vec![expr_stmt(call(var("thr2"), vec![]))],
                    _ => vec![print_stmt(call(var("rtt"), vec![])), st(StmtKind::Throw(s("after rtt")))],
                };
                let body = vec![first(raise), lab("body")];
                // with a catch block the first pass's exception is caught and the catch block raises anew
                let catch = if with_catch { Some(("e".to_string(), vec![lab("caught"), first(vec![st(StmtKind::Throw(s("from catch")))])])) } else { None };
                let leave = match exit {
                    0 => st(StmtKind::Continue),
                    _ => st(StmtKind::Break),
                };
                let fin = vec![lab("finally"), first(vec![leave]), lab("finally end")];
                let try_stmt = st(StmtKind::Try(body, catch, Some(fin)));
                let inner_loop = st(StmtKind::While(bin(BinOp::Lt, var("i"), num(3.0)), vec![expr_stmt(assign("i", bin(BinOp::Add, var("i"), num(1.0)))), var_stmt("loc", s("loop local")), try_stmt, lab("after try"), print_stmt(var("loc"))]));
                // exit 2: break, and an outer loop runs the inner loop again (i keeps counting)
                let loops = if exit == 2 { st(StmtKind::For("round".into(), Expr::VecLit(vec![num(1.0), num(2.0)]), vec![print_stmt(var("round")), inner_loop])) } else { inner_loop };
                let main_body = vec![
                    var_stmt("i", num(0.0)),
                    loops,
                    st(StmtKind::Try(vec![print_stmt(s("later try"))], None, Some(vec![print_stmt(s("later finally"))]))),
                    st(StmtKind::Try(vec![print_stmt(s("later try 2"))], Some(("e".into(), vec![print_stmt(s("never"))])), None)),
                    st(StmtKind::Return(Some(s("end of main")))),
                ];
                let mut prog = prelude();
                prog.push(fn_stmt(func("main_", &[], main_body)));
                prog.push(st(StmtKind::Try(vec![print_stmt(call(var("main_"), vec![]))], Some(("e".into(), vec![print_stmt(var("e"))])), None)));
                prog.push(p("after main"));
                out.push(Case::new("try_reentered_after_abrupt_finally_exit", prog));
            }
        }
    }
    out
}

/// One function active twice on one fiber, the outer activation inside its finally block with an outcome
/// waiting (an exception, a return value, a break, a continue, or nothing) when it calls itself - directly,
/// through another function, or as a method - and the inner activation passing through the same try
/// statement with nothing waiting, with an exception of its own that it handles, with one it lets go, or
/// with a return value.  Each activation's waiting outcome is its own: the inner one completes none of the
/// outer one's, the outer finally block runs to its end, and the outer outcome continues afterwards.
pub fn recursion_from_finally() -> Vec<Case> {
    let lab = |t: &str| print_stmt(Expr::Interp(vec![Part::Lit(format!("{} d=", t)), Part::Expr(var("d"))]));
    let mut out = Vec::new();
    for outer in 0..5 {
        for inner in 0..4 {
            for via in 0..3 {
                for guarded in [false, true] {
                    let is_outer = || bin(BinOp::Eq, var("d"), num(0.0));
                    // what the outer activation (d == 0) does in its try body
                    let outer_leaf: Vec<Stmt> = match outer {
                        0 => vec![expr_stmt(index(Expr::VecLit(vec![]), num(3.0)))],
                        1 => vec![st(StmtKind::Return(Some(s("outer return value"))))],
                        2 => vec![st(StmtKind::Break)],
                        3 => vec![st(StmtKind::Continue)],
                        _ => vec![lab("outer falls through")],
                    };
                    // what the inner activation (d == 1) does in its try body
                    let inner_leaf: Vec<Stmt> = match inner {
                        0 => vec![lab("inner body")],
                        1 => vec![st(StmtKind::Try(vec![st(StmtKind::Throw(s("inner, handled")))], Some(("e".into(), vec![lab("inner caught its own")])), None))],
                        2 => vec![st(StmtKind::Throw(s("inner lets this go")))],
                        _ => vec![st(StmtKind::Return(Some(s("inner return value"))))],
                    };
                    let again: Expr = match via {
                        0 => call(var("rec"), vec![num(1.0)]),
                        1 => call(var("relay"), vec![num(1.0)]),
                        _ => invoke(var("obj"), "rec", vec![num(1.0)]),
                    };
                    let recurse: Stmt = if guarded {
                        st(StmtKind::Try(vec![print_stmt(again)], Some(("e".into(), vec![print_stmt(Expr::Interp(vec![Part::Lit("the nested call raised ".into()), Part::Expr(var("e"))]))])), None))
                    } else {
                        print_stmt(again)
                    };
                    let try_stmt = st(StmtKind::Try(
                        vec![st(StmtKind::If(is_outer(), outer_leaf, Some(Box::new(block(inner_leaf)))))],
                        None,
                        Some(vec![lab("finally starts"), st(StmtKind::If(is_outer(), vec![recurse], None)), lab("finally ends")]),
                    ));
                    // the try statement sits in a loop that runs once or twice (break / continue need one)
                    let body = vec![
                        var_stmt("round", num(0.0)),
                        st(StmtKind::While(bin(BinOp::Lt, var("round"), num(2.0)), vec![expr_stmt(assign("round", bin(BinOp::Add, var("round"), num(1.0)))), lab("round"), try_stmt, lab("after try"), st(StmtKind::Break)])),
                        lab("after loop"),
                        st(StmtKind::Return(Some(Expr::Interp(vec![Part::Lit("normal end of d=".into()), Part::Expr(var("d"))])))),
                    ];
                    let mut prog = prelude();
                    match via {
                        2 => {
                            prog.push(class_stmt("Holder", None, Some("new"), vec![method(FnKind::Method, "rec", &["d"], body)]));
                            prog.push(var_stmt("obj", invoke(var("Holder"), "new", vec![])));
                            prog.push(fn_stmt(func("rec", &["d"], vec![st(StmtKind::Return(Some(invoke(var("obj"), "rec", vec![var("d")]))))])));
                        }
                        _ => {
                            prog.push(fn_stmt(func("rec", &["d"], body)));
                            prog.push(fn_stmt(func("relay", &["d"], vec![st(StmtKind::Return(Some(call(var("rec"), vec![var("d")]))))])));
                        }
                    }
                    // caught by the caller, and uncaught (the report lists the calls still active)
                    for caught in [true, false] {
                        let mut p2 = prog.clone();
                        if caught {
                            p2.push(st(StmtKind::Try(vec![print_stmt(call(var("rec"), vec![num(0.0)]))], Some(("e".into(), vec![print_stmt(Expr::Interp(vec![Part::Lit("main caught ".into()), Part::Expr(var("e"))]))])), None)));
                            p2.push(p("after main"));
                        } else {
                            p2.push(print_stmt(call(var("rec"), vec![num(0.0)])));
                            p2.push(p("after main"));
                        }
                        let mut c = Case::new("recursion_from_a_finally_block", p2);
                        c.opts = crate::diff::CmpOpts { trace: true, kind: true };
                        out.push(c);
                    }
                }
            }
        }
    }
    out
}

/// The sublanguage on which no listed finding can be triggered (the whole alphabet at present).
fn trigger_free(m: &ModelRun) -> bool {
    m.events.is_empty()
}

/// (finding id, event in the model's own execution that triggers it).  Empty: every formerly listed
/// C08 finding is repaired; the machinery stays for findings to come.
pub const TRIGGERS: &[(&str, &str)] = &[];

pub fn attribute(active: &[Finding], m: &ModelRun, obs: &proto::SnippetResult) -> Option<String> {
    // the earliest trigger event in the model's own execution decides
    let first = m.events.iter().filter(|e| TRIGGERS.iter().any(|(n, _)| *n == e.name)).min_by_key(|e| e.at)?;
    let id = TRIGGERS.iter().find(|(n, _)| *n == first.name).map(|(_, id)| *id)?;
    if !active.iter().any(|f| f.id == id) {
        return None;
    }
    // none of the listed findings is a crash of the interpreter: a panic is never attributed
    if matches!(obs.outcome, proto::Outcome::Panic { .. }) {
        return None;
    }
    // implementation and model must agree on everything printed before the trigger
    if agreed_prefix(m, obs) < first.at {
        return None;
    }
    Some(id.to_string())
}

pub fn cases_for_c04(thorough: bool) -> Vec<Case> {
    let mut v: Vec<Case> = Vec::new();
    for n in nests_of_depth(1) {
        v.push(Case::new("nest_depth1", program(&[n])));
    }
    for n in nests_of_depth(2) {
        v.push(Case::new("nest_depth2", program(&[n])));
    }
    if thorough {
        for n in nests_of_depth(3) {
            v.push(Case::new("nest_depth3", program(&[n])));
        }
    } else {
        for n in loop_try_try_nests() {
            v.push(Case::new("nest_depth3_loop_try_try", program(&[n])));
        }
    }
    v.extend(reentered_after_abrupt_finally_exit());
    v.extend(loop_with_pair_cases());
    v.extend(recursion_from_finally());
    v
}

/// A failing built-in operation is delivered to the handler with the handling function's variables intact -
/// for every built-in method there is, not six representatives.  Every method of every built-in class and
/// object (C02's table: strings, tuples, vecs, ranges, maps, the six iterator classes, fibers and the Fiber
/// class, error classes, instances, numbers, classes) is called with every tuple of 0-2 arguments from a
/// pool of eight values inside a try block of a function that has a parameter, two locals declared before
/// the try statement and one after it: whether the call completes or fails, the parameter and the locals
/// read as they were written, before and after the handler, in a plain function, a method and a closure
/// that captured one of them.
pub fn failing_built_ins_leave_variables_intact(ctx: &Ctx, report: &mut Report, only_fibers: bool) -> usize {
    let prelude = "#[constructor(new)]\nclass K { fn m(self) { return 1; } }\nvar inst = K.new();\nvar suspended = Fiber.new(|| { Fiber.yield(1); return 2; }); suspended.call();\nvar finished = Fiber.new(|| 1); finished.call();\nvar fresh_fiber = Fiber.new(|a| a);\nvar spent_iter = [1].iter(); spent_iter.next(); spent_iter.next();\n";
    let args_pool = ["nil", "1", "\"a\u{e9}\"", "[1, \"a\"]", "(1, 2)", "(|a| a)", "inst", "finished"];
    let mut programs: Vec<(String, String)> = Vec::new();
    for (class, recv, methods) in crate::c02::natives() {
        if only_fibers && !class.starts_with("Fiber") {
            continue;
        }
        for (m, _arity) in methods {
            for k in 0..=2usize {
                let mut tuples: Vec<Vec<&str>> = vec![vec![]];
                for _ in 0..k {
                    tuples = tuples.into_iter().flat_map(|t| args_pool.iter().map(move |a| { let mut v = t.clone(); v.push(*a); v })).collect();
                }
                for t in tuples {
                    let call = format!("{}.{}({})", if recv.starts_with(|c: char| c.is_ascii_digit() || c == '{') { format!("({})", recv) } else { recv.to_string() }, m, t.join(", "));
                    for shape in 0..3usize {
                        let body = format!("  var before = \"before\";\n  var label = \"label\";\n  try {{\n    {};\n    print(\"completed\");\n  }} catch e {{\n    print(\"caught\");\n  }}\n  print([p, before, label]);\n  var after = \"after\";\n  print([after, label]);\n  return label;\n", call);
                        let src = match shape {
                            0 => format!("{}fn handler(p) {{\n{}}}\nprint(handler(\"param\"));\nprint(\"end\");\n", prelude, body),
                            1 => format!("{}#[constructor(new)]\nclass H {{ fn handler(self, p) {{\n{}}} }}\nprint(H.new().handler(\"param\"));\nprint(\"end\");\n", prelude, body),
                            _ => format!("{}fn outer() {{\n  var p = \"param\";\n  var f = || {{\n{}  }};\n  return f();\n}}\nprint(outer());\nprint(\"end\");\n", prelude, body.replace("\n  ", "\n    ")),
                        };
                        programs.push((src, format!("{} {} / {} arguments / shape {}", class, call, k, shape)));
                    }
                }
            }
        }
    }
    let n = programs.len();
    let results = par_map(&ctx.runner_checked, ctx.workers, programs.into_iter(), |runner, _i, (src, what)| {
        let mut req = Request { op: "run".into(), snippets: vec![src.clone()], fuel: Some(2_000_000), ..Default::default() };
        let obs = runner.call(&mut req);
        let problem = match obs.resp().and_then(|r| r.results.get(0).cloned()) {
            Some(r) => {
                let tail = ["[param, before, label]", "[after, label]", "label", "end"];
                let ok = matches!(r.outcome, proto::Outcome::Ok) && r.out.len() == 5 && (r.out[0] == "completed" || r.out[0] == "caught") && r.out[1..].iter().zip(tail.iter()).all(|(a, b)| a == b);
                if ok { None } else { Some(format!("printed {:?}, ended with {:?}; expected `completed` or `caught`, then {:?}", r.out, r.outcome, tail)) }
            }
            None => Some(format!("run ended in {}", obs.describe())),
        };
        (src, what, problem)
    });
    for (src, what, problem) in results {
        if let Some(p) = problem {
            report.violations.push((format!("[a failing built-in leaves the handler's variables intact: {}] {}", what, p), json!({"family": "failing_built_ins_leave_variables_intact", "request": {"op": "run", "snippets": [src]}, "problem": p})));
        }
    }
    n
}

pub fn run(ctx: &Ctx) -> Report {
    let mut report = Report::new();
    let active = active_findings(ctx, &mut report);
    let thorough = ctx.thorough();
    let d1 = nests_of_depth(1);
    let d2 = nests_of_depth(2);
    let mut cases: Vec<Box<dyn Iterator<Item = Case> + Send>> = Vec::new();
    let mk = |family: &'static str, nests: Vec<Nest>| -> Case {
        let mut c = Case::new(family, program(&nests));
        c.opts = CmpOpts { trace: false, kind: false };
        c
    };
    cases.push(Box::new(d1.clone().into_iter().map(move |n| mk("nest_depth1", vec![n]))));
    cases.push(Box::new(d2.clone().into_iter().map(move |n| mk("nest_depth2", vec![n]))));
    {
        let (a, b) = (d1.clone(), d1.clone());
        cases.push(Box::new(a.into_iter().flat_map(move |x| {
            let b = b.clone();
            b.into_iter().map(move |y| mk("pair_depth1_depth1", vec![x.clone(), y]))
        })));
    }
    cases.push(Box::new(reentered_after_abrupt_finally_exit().into_iter()));
    cases.push(Box::new(loop_with_pair_cases().into_iter()));
    cases.push(Box::new(recursion_from_finally().into_iter()));
    cases.push(Box::new(crate::c06::cases_for_c08().into_iter()));
    // displacement (metamorph.rs): the same programs as the body of a function 58-62 activations deep, so that
    // their own calls (1-3 levels, and the library's) run into the limit of active calls at every possible
    // point - in try bodies, catch blocks, finally blocks - and that error is handled like any other
    {
        let mut sel: Vec<Case> = Vec::new();
        sel.extend(d1.clone().into_iter().map(|n| mk("nest_depth1", vec![n])));
        sel.extend(d2.clone().into_iter().step_by(if thorough { 1 } else { 7 }).map(|n| mk("nest_depth2", vec![n])));
        sel.extend(reentered_after_abrupt_finally_exit());
        sel.extend(recursion_from_finally());
        sel.extend(loop_with_pair_cases().into_iter().step_by(if thorough { 1 } else { 7 }));
        sel.extend(crate::c06::cases_for_c08());
        cases.push(Box::new(crate::metamorph::displaced_cases("under_the_limit_of_active_calls", &sel, &[0], &[58, 59, 60, 61, 62]).into_iter()));
    }
    // transparent try statements (metamorph.rs) around every statement of the standard corpus
    {
        use crate::metamorph::TryWrap;
        let corpus = crate::metamorph::standard_corpus(if thorough { 1 } else { 4 });
        cases.push(Box::new(crate::metamorph::try_wrapped_cases("every_statement_in_a_transparent_try_statement", &corpus, &[TryWrap::Finally, TryWrap::Rethrow, TryWrap::Both]).into_iter()));
    }
    if !thorough {
        cases.push(Box::new(loop_try_try_nests().into_iter().map(move |n| mk("nest_depth3_loop_try_try", vec![n]))));
    }
    if thorough {
        let d3 = nests_of_depth(3);
        cases.push(Box::new(d3.into_iter().map(move |n| mk("nest_depth3", vec![n]))));
        let (a, b) = (d1.clone(), d2.clone());
        cases.push(Box::new(a.into_iter().flat_map(move |x| {
            let b = b.clone();
            b.into_iter().map(move |y| mk("pair_depth1_depth2", vec![x.clone(), y]))
        })));
    }
    let all = cases.into_iter().flatten();
    let active_ref = &active;
    let hooks = Hooks {
        attribute: &|_c, m, o, _mm| attribute(active_ref, m, o),
        // non-trivial: an exception is raised and reaches a handler or the top (the model prints a catch
        // or finally marker, or ends uncaught)
        nontrivial: &|_c, m| matches!(m.outcome, Outcome::Uncaught(_)) || m.out.iter().any(|l| l.starts_with('C') || l.starts_with('F')),
        fuel: 2_000_000,
    };
    let stats = mcheck::run(ctx, all, &hooks);
    mcheck::fill_report(
        &mut report,
        &stats,
        "every nest of the constructs {block, try/catch, try/finally, try/catch/finally (focus in body, catch or finally), while x1/x2, for, function/method/closure call} x 2 fillers up to the depth bound, with every leaf action {fall through, throw of 4 value kinds, 6 failing built-ins (one per error class), callee throwing at depth 1-3, return, break, continue}, and every sequential pair of nests (quick tier: depth 2, pairs of depth-1 nests, and the depth-3 nests that put a loop around two try-like constructs), plus 2 940 programs whose loop body holds a try-like construct around an inner loop followed by a second try-like construct with a leaving leaf, plus C06's programs in which closures capture variables of a try statement that an exception, a return or a handled exception leaves (the handling function's variables stay intact when those closures are called later), plus the depth-1 nests, every seventh depth-2 nest (all in the thorough tier) and the families below as the body of a function that is already 58-62 activations deep (their own calls run into the limit of active calls at every possible point, and that error is raised, handled and cleaned up after like any other), plus the standard corpus of the other properties' programs (closures, classes, iteration, control flow, the nests above) with every statement that declares nothing wrapped in `try { S } finally { }`, in `try { S } catch e { throw e; }` and in both (transparent wrappers: every exit of every statement passes through handlers and finally blocks that must not change it), plus 30 programs in which a try statement inside a loop is entered again after its finally block was left by continue / break with an outcome waiting, run on the real interpreter and compared with M-eval's block trace and outcome. non-trivial = an exception reaches a handler, a finally block or the top level.",
        json!({"nest_depth": if thorough { 3 } else { 2 }, "pairs": if thorough { "depth1 x depth2" } else { "depth1 x depth1" }, "constructs": CONS.len(), "leaves": LEAVES.len()}),
    );
    // trigger-free population reported separately
    report.cov("trigger_events_in_model_runs", json!(stats.events_seen));
    report.assumptions = vec![
        "exceptions do not cross fiber boundaries (the repository's throw_from_fiber script fixes that reading)".into(),
        "an abrupt exit from a finally block is outside the alphabet (X)".into(),
        "a disagreement is attributed to a listed finding only if its trigger occurs in the model's own execution and both sides agree on everything printed before it".into(),
    ];
    let n_fb = failing_built_ins_leave_variables_intact(ctx, &mut report, false);
    report.cov("failing_built_ins_leave_variables_intact", json!(n_fb));
    record_known(&mut report, &active, &stats.attributed);
    let _ = trigger_free;
    report.violations.extend(stats.violations);
    report
}
