//! C10 — optimised and checked builds behave identically.  Programs x build configurations: every
//! configuration is really built (hooks off: the shipping code) and every program is run on each.
use crate::ast::print_program;
use crate::common::*;
use crate::corpus;
use crate::diff::normalise;
use crate::pool::{Obs, Runner};
use crate::{c05, c06, c07, c08, c18};
use proto::Request;
use serde_json::json;
use std::collections::{BTreeMap, HashSet};
use std::path::PathBuf;
use std::sync::{Arc, Mutex};

fn configs(ctx: &Ctx) -> Vec<(String, PathBuf)> {
    let dir = ctx.verif_dir.join("harness/target/c10/bin");
    let mut v = Vec::new();
    if let Ok(rd) = std::fs::read_dir(&dir) {
        let mut names: Vec<String> = rd.filter_map(|e| e.ok()).map(|e| e.file_name().to_string_lossy().into_owned()).filter(|n| n.starts_with("runner-")).collect();
        names.sort();
        for n in names {
            v.push((n.trim_start_matches("runner-").to_string(), dir.join(&n)));
        }
    }
    v
}

fn observe(o: &Obs) -> String {
    match o.resp().and_then(|r| r.results.get(0)) {
        Some(r) => {
            let out: Vec<String> = r.out.iter().map(|l| normalise(l)).collect();
            let end = match &r.outcome {
                proto::Outcome::Ok => "ok".to_string(),
                proto::Outcome::Err { kind, messages } => format!("{} {:?}", kind, messages.iter().map(|m| normalise(m)).collect::<Vec<_>>()),
                proto::Outcome::Panic { msg } => format!("PANIC {}", msg),
            };
            format!("{:?} => {}", out, end)
        }
        None => o.describe(),
    }
}

pub fn run(ctx: &Ctx) -> Report {
    let mut report = Report::new();
    let thorough = ctx.thorough();
    let cfgs = configs(ctx);
    let want = if thorough { 34 } else { 3 };
    if cfgs.len() != want {
        crate::pool::machinery_failure(&format!("C10: {} configuration binaries found under harness/target/c10/bin, expected {} (run through ./check)", cfgs.len(), want));
    }
    // programs: the repository's scripts (with their module table) and the generator corpora
    let scripts = corpus::load_scripts(&ctx.repo_dir);
    let modules = corpus::module_table(&scripts);
    let mut programs: Vec<(String, String, bool)> = Vec::new();
    for s in &scripts {
        // `clock` is the one built-in whose result differs between runs by definition
        if s.source.contains("clock(") {
            continue;
        }
        programs.push((format!("script:{}", s.name), s.source.clone(), true));
    }
    // every second (fourth in the quick tier) program of the large generator families, every program of the
    // small ones (a family of a few dozen programs is a family of special cases: each one counts)
    let mut by_family: BTreeMap<&'static str, Vec<String>> = BTreeMap::new();
    for c in c05::cases_for_c04(false).into_iter().chain(c05::operator_cases()).chain(c06::cases_for_c04(false)).chain(c07::cases_all(false)).chain(c08::cases_for_c04(false)).chain(c18::cases_for_c04(false)) {
        by_family.entry(c.family).or_default().push(print_program(&c.prog, false));
    }
    let stride = if thorough { 2 } else { 4 };
    let mut gi = 0usize;
    for (_, srcs) in by_family {
        let st = if srcs.len() > 400 { stride } else { 1 };
        for (i, s) in srcs.into_iter().enumerate() {
            if i % st == 0 {
                programs.push((format!("generated:{}", gi), s, false));
            }
            gi += 1;
        }
    }
    // C01's heap-shape programs (holder chains up to length 1; the listed finding's shape excluded):
    // every kind of object kept alive only through one kind of edge while garbage is allocated
    for (i, s) in crate::c01::shape_sources_for_c10().into_iter().enumerate() {
        if thorough || i % 2 == 0 {
            programs.push((format!("heap_shape:{}", i), s, false));
        }
    }
    // loops whose body allocates many fresh objects of one kind while the loop's own iterable and
    // iterator are live: what a collection at every allocation (checked builds) frees and reuses at once
    // shows as a different loop in the optimised builds
    {
        let iterables = ["0..3", "3..0", "[1, 2, 3]", "(1, 2, 3)", "\"abc\"", "[1, 2, 3].iter().map(|e| e * 2)", "[1, 2, 3].iter().filter(|e| e > 1)", "{\"a\": 1, \"b\": 2}.keys()"];
        let churns = [
            "var j = [900..901, 900..902, 900..903, 900..904, 900..905, 900..906, 900..907, 900..908, 900..909, 900..910];",
            "var j = [[1], [2], [3], [4], [5], [6], [7], [8], [9], [10]];",
            "var j = [(1, 2), (3, 4), (5, 6), (7, 8), (9, 10), (11, 12), (13, 14), (15, 16), (17, 18)];",
            "var j = [\"a\" + \"${n}\", \"b\" + \"${n}\", \"c\" + \"${n}\", \"d\" + \"${n}\", \"e\" + \"${n}\", \"f\" + \"${n}\", \"g\" + \"${n}\", \"h\" + \"${n}\", \"i\" + \"${n}\"];",
            "var j = [{1: 2}, {3: 4}, {5: 6}, {7: 8}, {9: 10}, {11: 12}, {13: 14}, {15: 16}, {17: 18}];",
            "var j = [|| n, || n + 1, || n + 2, || n + 3, || n + 4, || n + 5, || n + 6, || n + 7, || n + 8];",
            "var j = [[1].iter(), [2].iter(), (3,).iter(), \"s\".iter(), (5..6).iter(), [6].iter(), (7,).iter(), \"t\".iter(), (9..10).iter()];",
        ];
        let mut k = 0;
        for it in iterables {
            for ch in churns {
                programs.push((format!("loop_churn:{}", k), format!("var n = 0;\nfor x in {} {{\n  {}\n  n += 1;\n  print(x);\n  if n > 50 {{ break; }}\n}}\nprint(n);\n", it, ch), false));
                k += 1;
            }
        }
    }
    // the operand stack swept across its limit one slot at a time (C02's boundary programs: the program
    // that fills the stack exactly, one short, one over): the checked builds' own guards and the optimised
    // builds must draw the line in the same place
    for (i, (cell, s)) in crate::c02::operand_stack_boundary_sources().into_iter().enumerate() {
        if thorough || i % 3 == 0 || cell.contains("depth 31 extra") {
            programs.push((format!("operand_stack_boundary:{}", cell), s, false));
        }
    }
    // C13's probe batches (indices and slice bounds of every size incl. +-2^63, +-inf, NaN; string methods):
    // every sixteenth batch (every fourth in the thorough tier)
    for (i, s) in crate::c13::batch_sources(if thorough { 4 } else { 16 }).into_iter().enumerate() {
        programs.push((format!("index_and_string_probes:{}", i), s, false));
    }
    // C12's keys of every size (hashing and comparing tuples of every length 0..80, nested long tuples,
    // numbers at the integer limits, long strings, extreme ranges): arithmetic on 64-bit words
    for (i, e) in crate::c12::keys_of_every_size().into_iter().enumerate() {
        programs.push((format!("keys_of_every_size:{}", i), e.request.snippets[0].clone(), false));
    }
    // a chain of 26 000 pairs built and walked (thorough tier: the checked builds collect at every allocation,
    // which makes this one program cost a quarter of a minute): the collector's work per object must not sit
    // on the host stack in one build and on a list in the other
    if thorough {
        programs.insert(0, ("chain_of_pairs:26000".to_string(), "var v = nil;\nfor i in 0..26000 { v = (i, v); }\nvar n = 0;\nvar p = v;\nwhile p != nil { n += 1; p = p[1]; }\nprint(n);\n".to_string(), false));
    }
    let n_programs = programs.len();
    // per worker: one runner per configuration + the checked hooks runner as the gate
    let queue = Arc::new(Mutex::new(programs.into_iter()));
    let results: Arc<Mutex<(usize, usize, usize, HashSet<u64>, Vec<(String, serde_json::Value)>, BTreeMap<String, usize>, Vec<serde_json::Value>)>> = Arc::new(Mutex::new((0, 0, 0, HashSet::new(), Vec::new(), BTreeMap::new(), Vec::new())));
    let flaky_timeouts: Arc<Mutex<Vec<String>>> = Arc::new(Mutex::new(Vec::new()));
    std::thread::scope(|scope| {
        for _ in 0..ctx.workers {
            let flaky_timeouts = flaky_timeouts.clone();
            let queue = queue.clone();
            let results = results.clone();
            let cfgs = &cfgs;
            let modules = &modules;
            let checked = ctx.runner_checked.clone();
            scope.spawn(move || {
                let mut gate = Runner::new(checked);
                gate.timeout = std::time::Duration::from_secs(30);
                let mut runners: Vec<Runner> = cfgs.iter().map(|(_, p)| {
                    let mut r = Runner::new(p.clone());
                    r.timeout = std::time::Duration::from_secs(30);
                    r
                }).collect();
                loop {
                    let item = { queue.lock().unwrap().next() };
                    let Some((name, src, with_modules)) = item else { break };
                    let mk = |fuel: Option<u64>| Request { op: "run".into(), snippets: vec![src.clone()], modules: if with_modules { modules.clone() } else { Default::default() }, fuel, ..Default::default() };
                    // gate: only programs that run for ever (the instruction budget of the hooks runner is
                    // exhausted) are left out - the shipping configurations have no budget.  A program on which
                    // the checked build panics stays in: where the optimised build carries on instead, that is
                    // a disagreement between configurations like any other.
                    let g = gate.call(&mut mk(Some(5_000_000)));
                    let gated_out = match g.resp().and_then(|r| r.results.get(0)) {
                        Some(r) => matches!(&r.outcome, proto::Outcome::Err { messages, .. } if messages.iter().any(|m| m.contains("verif: fuel"))),
                        None => false,
                    };
                    if gated_out {
                        results.lock().unwrap().2 += 1;
                        continue;
                    }
                    let mut obs: Vec<String> = Vec::new();
                    for r in runners.iter_mut() {
                        let o = r.call(&mut mk(None));
                        obs.push(observe(&o));
                    }
                    // a disagreement is observed twice before it is reported; observations that change
                    // from one run to the next are a machinery failure, not a verdict
                    if obs.iter().collect::<HashSet<_>>().len() > 1 {
                        let mut again: Vec<String> = Vec::new();
                        for r in runners.iter_mut() {
                            let o = r.call(&mut mk(None));
                            again.push(observe(&o));
                        }
                        if again != obs {
                            // the second round differs from the first.  With a timeout involved that can be
                            // the machine: no verdict.  Otherwise a configuration is not even deterministic
                            // (clock() is excluded, addresses are normalised): the harness cannot cause a
                            // crash, a panic or different printed lines, so this is reported with both rounds.
                            if again.iter().chain(obs.iter()).any(|o| o.contains("TIMEOUT")) {
                                // (decided at the end: a machinery failure unless real disagreements were found)
                                flaky_timeouts.lock().unwrap().push(format!("{}: {:?} vs {:?}", name, obs, again));
                                continue;
                            }
                            for (k, o) in again.iter().enumerate() {
                                if obs[k] != *o {
                                    obs[k] = format!("{}  // second round: {}", obs[k], o);
                                }
                            }
                        }
                    }
                    let mut res = results.lock().unwrap();
                    res.0 += 1;
                    res.1 += obs.len();
                    res.3.insert(fnv64(&obs[0]));
                    for (k, (cname, _)) in cfgs.iter().enumerate() {
                        *res.5.entry(cname.clone()).or_insert(0) += if obs[k].is_empty() { 0 } else { 1 };
                    }
                    if res.6.len() < 3 {
                        res.6.push(json!({"program": name, "observation": obs[0].chars().take(200).collect::<String>()}));
                    }
                    let distinct: HashSet<&String> = obs.iter().collect();
                    if distinct.len() > 1 {
                        let per: BTreeMap<&str, &String> = cfgs.iter().map(|(c, _)| c.as_str()).zip(obs.iter()).collect();
                        if res.4.len() < 100 {
                            res.4.push((format!("[{}] configurations disagree: {:?}", name, per), json!({"program": name, "source": src, "observations": per})));
                        }
                    }
                }
            });
        }
    });
    let (compared, runs, gated, outcomes, violations, per_cfg, samples) = Arc::try_unwrap(results).ok().unwrap().into_inner().unwrap();
    {
        let flaky = flaky_timeouts.lock().unwrap();
        if !flaky.is_empty() && violations.is_empty() {
            crate::pool::machinery_failure(&format!("C10: {} programs timed out in one of two rounds and nothing else disagreed: {}", flaky.len(), flaky[0]));
        }
    }
    for (c, _) in &cfgs {
        if per_cfg.get(c).copied().unwrap_or(0) == 0 {
            crate::pool::machinery_failure(&format!("C10: configuration {} produced no output at all", c));
        }
    }
    report.cov("evaluations", json!(runs));
    report.cov("states", json!(compared));
    report.cov("transitions", json!(runs));
    report.cov("traces_validated_against_impl", json!(runs));
    report.cov("distinct_nontrivial", json!(outcomes.len()));
    report.cov("exhaustive", json!(true));
    report.cov("rule", json!("configurations: the dev profile and the release profile with each subset of {safe_active_fiber, safe_class_lookup, safe_stack, safe_vm_opcodes, debug_stress_gc} (quick: none and all; thorough: all 32, plus dev with all switches), built from /repo's working tree WITHOUT the verification hooks; programs: every repository script (with its module table; scripts calling clock() excluded) and every 4th/2nd program of the large families of the C05/C06/C07/C08/C18 corpora and every program of their small families (up to 400 programs), C05's operator families (every operator on every pair of operand kinds incl. NaN, infinities and numbers beyond the 64-bit integers), C01's heap-shape programs, the loop-churn family, every 16th/4th of C13's probe batches (indices and slice bounds up to and beyond the machine's integer limits, string methods) and C02's operand-stack boundary sweep (the stack filled exactly, one short, one over, ...: every 3rd program plus all of depth 31 in the quick tier); each program runs on every configuration and the printed lines and outcome (addresses normalised) must be identical. Only programs that exhaust the hooks runner's instruction budget are left out. distinct_nontrivial = distinct observed outcomes."));
    report.cov("bounds", json!({"configurations": cfgs.iter().map(|c| c.0.clone()).collect::<Vec<_>>(), "programs": n_programs}));
    report.cov("programs_compared", json!(compared));
    report.cov("programs_excluded_by_gate", json!(gated));
    report.cov("programs_x_configurations", json!(runs));
    report.cov("samples", json!(samples));
    report.assumptions = vec!["in the dev profile the five switches are dead code (debug_assertions already enables every check); the thorough tier builds dev with all switches to confirm it".into(), "the active-fiber/raw-pointer agreement monitor is part of C09's replays (hooks build)".into()];
    report.violations = violations;
    report
}
