//! C12 — HashMap behaves as a map keyed by value equality.  Explicit-state BFS over operation sequences
//! with the reference M-map (an association list compared with the language's `==`); every transition
//! leaving a state is executed on the real HashMap from a rebuilt copy of that state.
use crate::ast::*;
use crate::common::*;
use crate::mcheck::{self, Case, Hooks};
use crate::mval::*;
use proto::Request;
use serde_json::json;
use std::collections::{HashSet, VecDeque};
use std::rc::Rc;

#[derive(Clone)]
struct PoolKey {
    name: &'static str,
    hashable: bool,
}

/// the key pool; `expr` builds the key afresh at every use (equal-but-separately-built keys)
fn pool() -> Vec<PoolKey> {
    let h = |name| PoolKey { name, hashable: true };
    let u = |name| PoolKey { name, hashable: false };
    vec![
        h("one"), h("one_point_zero"), h("zero"), h("neg_zero"), h("half"), h("nan"), h("true"), h("false"), h("nil"), h("str_a"), h("str_a_concat"),
        h("t12"), h("t12_again"), h("t21"), h("t1_23"), h("t12_3"), h("class_num"), h("r12"), h("r12_again"), h("r21"), h("t_r12"), h("t_7"), h("t_733"), h("t_empty"), h("t_55"),
        u("vec"), u("map"), u("tuple_with_vec"), u("lambda"), u("instance"),
        // unhashable values from which the map that is being operated on can be reached (reporting them
        // means printing them, which means looking into the map)
        u("the_map_itself"), u("vec_holding_the_map"), u("tuple_holding_a_vec_holding_the_map"),
    ]
}

fn key_expr(name: &str) -> Expr {
    match name {
        "one" => num(1.0),
        "one_point_zero" => Expr::RawNum("1.0".into(), 1.0),
        "zero" => num(0.0),
        "neg_zero" => num(-0.0),
        "half" => num(0.5),
        "nan" => Expr::Paren(Box::new(num(f64::NAN))),
        "true" => Expr::True,
        "false" => Expr::False,
        "nil" => Expr::Nil,
        "str_a" => s("a"),
        "str_a_concat" => Expr::Paren(Box::new(bin(BinOp::Add, s(""), s("a")))),
        "t12" | "t12_again" => Expr::TupleLit(vec![num(1.0), num(2.0)]),
        "t21" => Expr::TupleLit(vec![num(2.0), num(1.0)]),
        "t1_23" => Expr::TupleLit(vec![num(1.0), Expr::TupleLit(vec![num(2.0), num(3.0)])]),
        "t12_3" => Expr::TupleLit(vec![Expr::TupleLit(vec![num(1.0), num(2.0)]), num(3.0)]),
        "class_num" => var("Num"),
        "r12" | "r12_again" => Expr::Paren(Box::new(bin(BinOp::Range, num(1.0), num(2.0)))),
        "r21" => Expr::Paren(Box::new(bin(BinOp::Range, num(2.0), num(1.0)))),
        "t_r12" => Expr::TupleLit(vec![Expr::Paren(Box::new(bin(BinOp::Range, num(1.0), num(2.0)))), s("x")]),
        // tuples of different lengths whose hashes collide (a tuple's hash combines its elements' hashes by
        // exclusive or: two equal elements cancel)
        "t_7" => Expr::TupleLit(vec![num(7.0)]),
        "t_733" => Expr::TupleLit(vec![num(7.0), num(3.0), num(3.0)]),
        "t_empty" => Expr::TupleLit(vec![]),
        "t_55" => Expr::TupleLit(vec![num(5.0), num(5.0)]),
        "vec" => Expr::VecLit(vec![num(1.0)]),
        "map" => Expr::MapLit(vec![]),
        "tuple_with_vec" => Expr::TupleLit(vec![num(1.0), Expr::VecLit(vec![num(2.0)])]),
        "lambda" => Expr::Paren(Box::new(lambda_expr(&[], num(1.0)))),
        "instance" => invoke(var("K"), "new", vec![]),
        // (the map every operation of the search works on is the variable `m`)
        "the_map_itself" => var("m"),
        "vec_holding_the_map" => Expr::VecLit(vec![var("m")]),
        "tuple_holding_a_vec_holding_the_map" => Expr::TupleLit(vec![num(0.0), Expr::VecLit(vec![var("m")])]),
        _ => unreachable!(),
    }
}

/// the model value of a pool key (classes are represented by a marker string: only equality matters)
fn key_value(name: &str) -> V {
    match name {
        "one" | "one_point_zero" => V::Num(1.0),
        "zero" => V::Num(0.0),
        "neg_zero" => V::Num(-0.0),
        "half" => V::Num(0.5),
        "nan" => V::Num(f64::NAN),
        "true" => V::Bool(true),
        "false" => V::Bool(false),
        "nil" => V::Nil,
        "str_a" | "str_a_concat" => vstr("a"),
        "t12" | "t12_again" => V::Tuple(Rc::new(vec![V::Num(1.0), V::Num(2.0)])),
        "t21" => V::Tuple(Rc::new(vec![V::Num(2.0), V::Num(1.0)])),
        "t1_23" => V::Tuple(Rc::new(vec![V::Num(1.0), V::Tuple(Rc::new(vec![V::Num(2.0), V::Num(3.0)]))])),
        "t12_3" => V::Tuple(Rc::new(vec![V::Tuple(Rc::new(vec![V::Num(1.0), V::Num(2.0)])), V::Num(3.0)])),
        // a stand-in that is equal only to itself by content: the class Num
        "class_num" => V::Tuple(Rc::new(vec![vstr("\u{1}class Num")])),
        "r12" | "r12_again" => V::Range(1, 2),
        "r21" => V::Range(2, 1),
        "t_r12" => V::Tuple(Rc::new(vec![V::Range(1, 2), vstr("x")])),
        "t_7" => V::Tuple(Rc::new(vec![V::Num(7.0)])),
        "t_733" => V::Tuple(Rc::new(vec![V::Num(7.0), V::Num(3.0), V::Num(3.0)])),
        "t_empty" => V::Tuple(Rc::new(vec![])),
        "t_55" => V::Tuple(Rc::new(vec![V::Num(5.0), V::Num(5.0)])),
        _ => V::Nil,
    }
}

#[derive(Clone, Debug, PartialEq)]
enum Op {
    Literal(Vec<&'static str>),
    Insert(&'static str),
    Remove(&'static str),
    Clear,
}

type MState = Vec<(V, String)>;

fn insert_str(state: &mut MState, k: V, v: String) {
    match state.iter().position(|(k2, _)| values_equal(k2, &k)) {
        Some(i) => state[i].1 = v,
        None => state.push((k, v)),
    }
}

fn apply(state: &mut MState, op: &Op) {
    match op {
        Op::Literal(ks) => {
            for k in ks {
                insert_str(state, key_value(k), format!("by {}", k));
            }
        }
        Op::Insert(k) => {
            insert_str(state, key_value(k), format!("by {}", k));
        }
        Op::Remove(k) => {
            if let Some(i) = state.iter().position(|(k2, _)| values_equal(k2, &key_value(k))) {
                state.remove(i);
            }
        }
        Op::Clear => state.clear(),
    }
}

fn canon(state: &MState) -> String {
    let mut v: Vec<String> = state.iter().map(|(k, val)| format!("{}=>{}", display(k), val)).collect();
    v.sort();
    v.join(";")
}

fn op_stmt(m: &str, op: &Op) -> Expr {
    match op {
        Op::Literal(_) => unreachable!(),
        Op::Insert(k) => invoke(var(m), "insert", vec![key_expr(k), s(&format!("by {}", k))]),
        Op::Remove(k) => invoke(var(m), "remove", vec![key_expr(k)]),
        Op::Clear => invoke(var(m), "clear", vec![]),
    }
}

fn probe(e: Expr) -> Stmt {
    st(StmtKind::Try(vec![print_stmt(Expr::VecLit(vec![e]))], Some(("err".into(), vec![print_stmt(call(var("type"), vec![var("err")]))])), None))
}

fn program(history: &[Op], ops: &[Op], keys: &[PoolKey], other_ranges: usize) -> Vec<Stmt> {
    let mut prog = vec![class_stmt("K", None, Some("new"), vec![])];
    // others(): ten other ranges are built, so that a range (or a tuple holding one) written as a key
    // afterwards is a separately built object and not one the interpreter still had at hand
    prog.push(fn_stmt(func(
        "others",
        &[],
        vec![st(StmtKind::For("i".into(), bin(BinOp::Range, num(0.0), num(other_ranges as f64)), vec![var_stmt("r", bin(BinOp::Range, bin(BinOp::Add, num(100.0), var("i")), bin(BinOp::Sub, num(200.0), var("i"))))]))],
    )));
    let others = || expr_stmt(call(var("others"), vec![]));
    // build(): the state by its shortest history
    let mut body: Vec<Stmt> = Vec::new();
    let mut rest = history;
    if let Some(Op::Literal(ks)) = history.first() {
        body.push(var_stmt("m", Expr::MapLit(ks.iter().map(|k| (key_expr(k), s(&format!("by {}", k)))).collect())));
        rest = &history[1..];
    } else {
        body.push(var_stmt("m", Expr::MapLit(vec![])));
    }
    for op in rest {
        body.push(others());
        body.push(expr_stmt(op_stmt("m", op)));
    }
    body.push(st(StmtKind::Return(Some(var("m")))));
    prog.push(fn_stmt(func("build", &[], body)));
    // dump(m): contents as seen through every hashable pool key, and the enumerations
    let mut dump: Vec<Stmt> = vec![others(), print_stmt(invoke(var("m"), "len", vec![]))];
    for k in keys.iter().filter(|k| k.hashable) {
        dump.push(print_stmt(Expr::VecLit(vec![invoke(var("m"), "has_key", vec![key_expr(k.name)]), invoke(var("m"), "get", vec![key_expr(k.name)])])));
    }
    dump.push(print_stmt(Expr::VecLit(vec![
        bin(BinOp::Eq, invoke(invoke(var("m"), "keys", vec![]), "len", vec![]), invoke(var("m"), "len", vec![])),
        bin(BinOp::Eq, invoke(invoke(var("m"), "values", vec![]), "len", vec![]), invoke(var("m"), "len", vec![])),
        bin(BinOp::Eq, invoke(invoke(var("m"), "items", vec![]), "len", vec![]), invoke(var("m"), "len", vec![])),
    ])));
    dump.push(var_stmt("again", Expr::MapLit(vec![])));
    dump.push(var_stmt("found", num(0.0)));
    dump.push(st(StmtKind::For(
        "it".into(),
        invoke(var("m"), "items", vec![]),
        vec![
            // counted, not printed per item: the enumeration order is unspecified
            st(StmtKind::If(bin(BinOp::Eq, invoke(var("m"), "get", vec![index(var("it"), num(0.0))]), index(var("it"), num(1.0))), vec![expr_stmt(assign("found", bin(BinOp::Add, var("found"), num(1.0))))], None)),
            expr_stmt(invoke(var("again"), "insert", vec![index(var("it"), num(0.0)), index(var("it"), num(1.0))])),
        ],
    )));
    dump.push(print_stmt(var("found")));
    dump.push(print_stmt(Expr::VecLit(vec![bin(BinOp::Eq, var("again"), var("m")), bin(BinOp::Eq, invoke(var("again"), "len", vec![]), invoke(var("m"), "len", vec![]))])));
    prog.push(fn_stmt(func("dump", &["m"], dump)));
    prog.push(expr_stmt(call(var("dump"), vec![call(var("build"), vec![])])));
    prog.push(print_stmt(bin(BinOp::Eq, call(var("build"), vec![]), call(var("build"), vec![]))));
    // every transition from a fresh copy of the state
    for op in ops {
        prog.push(block(vec![
            var_stmt("m", call(var("build"), vec![])),
            others(),
            probe(op_stmt("m", op)),
            expr_stmt(call(var("dump"), vec![var("m")])),
            // the map is still a working map after the operation (also after a rejected one): a write, a
            // read and a removal of a key outside the pool, then the full dump again
            probe(invoke(var("m"), "insert", vec![s("outside the pool"), num(77.0)])),
            probe(invoke(var("m"), "get", vec![s("outside the pool")])),
            probe(invoke(var("m"), "remove", vec![s("outside the pool")])),
            expr_stmt(call(var("dump"), vec![var("m")])),
        ]));
    }
    prog
}


/// Comparisons that meet a self-containing structure have no memory.  Whatever `x == cyclic` (or the other
/// way round) answers, the operands are afterwards what they were: a plain container still equals a
/// separately built copy of itself (both ways round), still selects its map entry, still is found inside
/// other containers; the cyclic structure still equals itself.  Expected lines do not depend on what the
/// comparison with the cyclic structure itself answers (it is not printed).  Shared by C05 (`==` depends on
/// its operands alone), C12 (keys that are == denote one entry) and C16 (a key that stops matching makes a
/// map grow).
pub fn comparisons_with_cyclic_structures_have_no_memory() -> Vec<crate::expect::Expect> {
    use crate::expect::Expect;
    let cyclics: [(&str, &str); 6] = [
        ("vec in itself", "var cyc = [1]; cyc.push(cyc);"),
        ("vec in a tuple in the vec", "var inner = []; var cyc = (inner,); inner.push(cyc);"),
        ("tuple reached through its vec", "var cyc = []; var zz_t = (cyc,); cyc.push(zz_t);"),
        ("map holding itself as a value", "var cyc = {}; cyc.insert(1, cyc);"),
        ("vec holding a map holding the vec", "var cyc = []; var zz_m = {1: cyc}; cyc.push(zz_m);"),
        ("two vecs holding each other", "var cyc = []; var zz_o = [cyc]; cyc.push(zz_o);"),
    ];
    // plain operands, each with the text of a separately built equal copy
    let plains: [(&str, &str, bool); 7] = [
        ("([1],)", "([1],)", false),
        ("[[1]]", "[[1]]", false),
        ("[1, [1]]", "[1, [1]]", false),
        ("(1, 2)", "(1, 2)", true),
        ("((1, 2),)", "((1, 2),)", true),
        ("{1: [1]}", "{1: [1]}", false),
        ("[{1: 2}]", "[{1: 2}]", false),
    ];
    let mut out = Vec::new();
    for (cname, cyc) in cyclics {
        for (plain, copy, hashable) in plains {
            for order in 0..3 {
                let compare = match order {
                    0 => "var zz_r = (x == cyc);",
                    1 => "var zz_r = (cyc == x);",
                    _ => "var zz_r = (x == cyc); zz_r = (cyc == x); zz_r = (x != cyc); zz_r = ([x] == [cyc]); zz_r = ((x,) == (cyc,));",
                };
                let mut src = format!("{}\nvar x = {};\nvar y = {};\n{}\n", cyc, plain, copy, compare);
                let mut expect: Vec<String> = Vec::new();
                let mut line = |code: &str, want: &str, src: &mut String, expect: &mut Vec<String>| {
                    src.push_str(&format!("print({});\n", code));
                    expect.push(want.to_string());
                };
                line("x == y", "true", &mut src, &mut expect);
                line("y == x", "true", &mut src, &mut expect);
                line("x != y", "false", &mut src, &mut expect);
                line("[x] == [y]", "true", &mut src, &mut expect);
                line("(0, x) == (0, y)", "true", &mut src, &mut expect);
                line("cyc == cyc", "true", &mut src, &mut expect);
                line("x == x", "true", &mut src, &mut expect);
                if hashable {
                    src.push_str("var zz_map = {x: \"first\"};\nzz_map.insert(y, \"second\");\nfor i in 0..5 { zz_map.insert(" );
                    src.push_str(copy);
                    src.push_str(", i); }\n");
                    line("zz_map.len()", "1", &mut src, &mut expect);
                    line("zz_map.get(x)", "4", &mut src, &mut expect);
                    line("zz_map.has_key(y)", "true", &mut src, &mut expect);
                }
                // and once more after the comparison was repeated
                src.push_str(compare);
                src.push('\n');
                line("x == y", "true", &mut src, &mut expect);
                line("y == x", "true", &mut src, &mut expect);
                out.push(Expect {
                    family: "comparisons_with_cyclic_structures_have_no_memory",
                    request: Request { op: "run".into(), snippets: vec![src], fuel: Some(2_000_000), ..Default::default() },
                    out: vec![expect],
                    end: vec!["ok".into()],
                    describe: json!({"cyclic": cname, "plain": plain, "order": order}),
                    nontrivial: true,
                });
            }
        }
    }
    out
}

/// runs the shared family and adds what it finds to the report
/// Keys of every size.  A map is filled with tuples of every length 0..80 (of small numbers, of fractions and
/// large numbers, of strings), with tuples nested 1-6 deep around a tuple of 13 and of 40 elements, with numbers
/// at and beyond the limits of the machine integers, with long strings and with ranges whose bounds are extreme;
/// each key is built twice (one object is inserted, the other one looked up, tested and finally removed), so
/// every key is hashed and compared several times.  By construction: every lookup finds the value stored
/// under the equal key, the map has one entry per key, and it is empty at the end.  (Also run by C10 on every
/// build configuration: hashing is arithmetic on 64-bit words.)
pub fn keys_of_every_size() -> Vec<crate::expect::Expect> {
    use crate::expect::Expect;
    let mut groups: Vec<(&'static str, Vec<String>)> = Vec::new();
    let tuple_of = |items: Vec<String>| -> String {
        match items.len() {
            0 => "()".to_string(),
            1 => format!("({},)", items[0]),
            _ => format!("({})", items.join(", ")),
        }
    };
    groups.push(("tuples of small numbers, every length", (0..=80usize).map(|n| tuple_of((1..=n).map(|i| i.to_string()).collect())).collect()));
    groups.push(("tuples of fractions and large numbers, every length", (1..=80usize).map(|n| tuple_of((1..=n).map(|i| match i % 4 { 0 => format!("{}.5", i), 1 => format!("{}{}", i, "0".repeat(300)), 2 => format!("-{}", 9007199254740992u64 + i as u64), _ => format!("0.{}", i) }).collect())).collect()));
    groups.push(("tuples of strings, every length", (1..=80usize).map(|n| tuple_of((1..=n).map(|i| format!("\"s{}\"", i)).collect())).collect()));
    {
        let mut v = Vec::new();
        for base_len in [13usize, 40] {
            let mut t = tuple_of((1..=base_len).map(|i| i.to_string()).collect());
            for _ in 0..6 {
                t = format!("({}, \"w\")", t);
                v.push(t.clone());
                v.push(format!("({},)", t));
            }
        }
        groups.push(("long tuples inside tuples", v));
    }
    groups.push(("numbers at the limits", vec!["9223372036854775808", "9223372036854777856", "-9223372036854775808", "18446744073709551616", "9007199254740993", "1/0", "-1/0", "4294967295", "4294967296", "2147483647.5", "0.1", "0.000000000000000000001", "1000000000000000000000"].into_iter().map(String::from).chain([format!("1{}", "0".repeat(308)), format!("-1{}", "0".repeat(308))]).collect()));
    groups.push(("long strings", (0..8usize).map(|k| format!("\"{}\"", "abcdefghij".repeat(1 + 13 * k))).collect()));
    groups.push(("ranges with extreme bounds", vec!["0..9223372036854775807", "-9223372036854775807..0", "-9223372036854775807..9223372036854775807", "4294967295..4294967296", "9223372036854775806..9223372036854775807", "(0..9223372036854775807, -1..1)"].into_iter().map(String::from).collect()));
    let mut out = Vec::new();
    for (what, keys) in groups {
        let mut src = String::from("var m = {};\nvar bad = 0;\n");
        for (i, k) in keys.iter().enumerate() {
            src.push_str(&format!("m.insert({}, {});\n", k, i));
        }
        src.push_str("print(m.len());\n");
        for (i, k) in keys.iter().enumerate() {
            src.push_str(&format!("{{ var k = {}; if m.get(k) != {} || !m.has_key(k) || !(k == {}) {{ bad += 1; print(\"wrong at key {}\"); }} }}\n", k, i, k, i));
        }
        src.push_str("print(bad);\nvar seen = 0;\nfor k in m.keys() { if m.has_key(k) { seen += 1; } }\nprint(seen);\n");
        for k in keys.iter() {
            src.push_str(&format!("m.remove({});\n", k));
        }
        src.push_str("print(m.len());\n");
        let n = keys.len().to_string();
        out.push(Expect {
            family: "keys_of_every_size",
            request: Request { op: "run".into(), snippets: vec![src], fuel: Some(50_000_000), ..Default::default() },
            out: vec![vec![n.clone(), "0".into(), n, "0".into()]],
            end: vec!["ok".into()],
            describe: json!({"keys": what}),
            nontrivial: true,
        });
    }
    out
}

pub fn run_cyclic_family(ctx: &Ctx, report: &mut Report) {
    let cases = comparisons_with_cyclic_structures_have_no_memory();
    let n = cases.len();
    let st = crate::expect::run_expect(ctx, &ctx.runner_checked, cases.into_iter(), &|_e, _r| None, &|_e, _p| None);
    report.cov("comparisons_with_cyclic_structures_have_no_memory", json!({"programs": n, "rule": "six self-containing structures x seven plain containers x three orders of comparison: after comparing a plain container with a self-containing structure (the answer itself is not looked at) the plain container still equals a separately built copy both ways round, alone and inside other containers, still selects and overwrites one map entry, and the structure still equals itself"}));
    report.violations.extend(st.violations);
}

pub fn run_keys_family(ctx: &Ctx, report: &mut Report) {
    let cases = keys_of_every_size();
    let n = cases.len();
    let st = crate::expect::run_expect(ctx, &ctx.runner_checked, cases.into_iter(), &|_e, _r| None, &|_e, _p| None);
    report.cov("keys_of_every_size", json!({"programs": n, "rule": "tuples of every length 0..80 (three element kinds), long tuples nested up to six deep, numbers at and beyond the machine's integer limits, long strings, ranges with extreme bounds: every key built twice, inserted, found through its equal copy, enumerated and removed"}));
    report.violations.extend(st.violations);
}

pub fn run(ctx: &Ctx) -> Report {
    let mut report = Report::new();
    let thorough = ctx.thorough();
    let keys = pool();
    let max_live = if thorough { 4 } else { 3 };
    let max_depth = if thorough { 5 } else { 4 };
    let mut ops: Vec<Op> = Vec::new();
    for k in &keys {
        ops.push(Op::Insert(k.name));
        ops.push(Op::Remove(k.name));
    }
    ops.push(Op::Clear);
    // BFS over the model
    let mut seen: HashSet<String> = HashSet::new();
    let mut queue: VecDeque<(Vec<Op>, MState, usize)> = VecDeque::new();
    let mut initial: Vec<Vec<Op>> = vec![vec![]];
    // literal construction with 1-3 pairs, including pairs whose keys are equal
    let lits: Vec<Vec<&'static str>> = vec![
        vec!["one"], vec!["one", "one_point_zero"], vec!["zero", "neg_zero"], vec!["neg_zero", "zero"], vec!["t12", "t12_again", "t21"], vec!["str_a", "str_a_concat"], vec!["nan", "nan"],
        vec!["r12", "r12_again"], vec!["true", "one"], vec!["nil", "false", "zero"], vec!["t1_23", "t12_3"], vec!["class_num", "str_a"], vec!["t_7", "t_733"], vec!["t_empty", "t_55", "t_733"],
    ];
    for l in lits {
        initial.push(vec![Op::Literal(l)]);
    }
    for h in initial {
        let mut stt: MState = Vec::new();
        for op in &h {
            apply(&mut stt, op);
        }
        if seen.insert(canon(&stt)) {
            queue.push_back((h, stt, 0));
        }
    }
    let mut cases: Vec<Case> = Vec::new();
    let mut transitions = 0usize;
    let mut states = 0usize;
    let mut max_seen_depth = 0;
    while let Some((hist, state, depth)) = queue.pop_front() {
        states += 1;
        max_seen_depth = max_seen_depth.max(depth);
        cases.push(Case::new("state_with_all_transitions", program(&hist, &ops, &keys, if thorough { 70 } else { 9 })));
        transitions += ops.len();
        if depth >= max_depth {
            continue;
        }
        for op in &ops {
            let hashable = match op {
                Op::Insert(k) | Op::Remove(k) => keys.iter().find(|p| p.name == *k).unwrap().hashable,
                _ => true,
            };
            if !hashable {
                continue;
            }
            let mut next = state.clone();
            apply(&mut next, op);
            if next.len() > max_live {
                continue;
            }
            if seen.insert(canon(&next)) {
                let mut h = hist.clone();
                h.push(op.clone());
                queue.push_back((h, next, depth + 1));
            }
        }
    }
    // the *same* key object used repeatedly (a rejected key must stay rejected, and stay intact)
    for k in keys.iter().filter(|k| !k.name.contains("the_map")) {
        let mut prog = vec![class_stmt("K", None, Some("new"), vec![]), var_stmt("key", key_expr(k.name)), var_stmt("m", Expr::MapLit(vec![(num(7.0), s("seven"))]))];
        let uses: Vec<Expr> = vec![
            invoke(var("m"), "insert", vec![var("key"), s("first")]),
            invoke(var("m"), "insert", vec![var("key"), s("second")]),
            invoke(var("m"), "has_key", vec![var("key")]),
            invoke(var("m"), "get", vec![var("key")]),
            Expr::MapLit(vec![(var("key"), num(1.0))]),
            invoke(Expr::MapLit(vec![(var("key"), num(1.0))]), "has_key", vec![var("key")]),
            invoke(var("m"), "remove", vec![var("key")]),
            invoke(var("m"), "remove", vec![var("key")]),
            invoke(var("m"), "insert", vec![var("key"), s("third")]),
        ];
        for u in uses {
            prog.push(probe(u));
            // printing the key between uses: its own state must not have been disturbed
            if k.name != "lambda" && k.name != "instance" {
                prog.push(probe(var("key")));
            }
            prog.push(probe(invoke(var("m"), "len", vec![])));
        }
        cases.push(Case::new("one_key_object_reused", prog));
    }
    // values are stored as given: nil is a value like any other (an entry whose value is nil exists), and
    // writing a key again stores the new value also when it equals the old one (an equal but separately
    // built container, the zero of the other sign) - seen afterwards through what only the new one does
    for k in keys.iter().filter(|k| k.hashable && ["one", "str_a", "t12", "r12", "nil", "true"].contains(&k.name)) {
        let key = || key_expr(k.name);
        let dumpish = |m: &str| -> Vec<Stmt> {
            vec![
                probe(invoke(var(m), "len", vec![])),
                probe(invoke(var(m), "has_key", vec![key()])),
                probe(invoke(var(m), "get", vec![key()])),
                probe(invoke(invoke(var(m), "keys", vec![]), "len", vec![])),
                probe(invoke(invoke(var(m), "values", vec![]), "len", vec![])),
                probe(invoke(var(m), "items", vec![])),
            ]
        };
        // nil values: into an empty map, after a removal, after clear, over an old value, in a literal
        let mut prog = vec![class_stmt("K", None, Some("new"), vec![]), var_stmt("m", Expr::MapLit(vec![]))];
        prog.push(probe(invoke(var("m"), "insert", vec![key(), Expr::Nil])));
        prog.extend(dumpish("m"));
        prog.push(probe(invoke(var("m"), "remove", vec![key()])));
        prog.extend(dumpish("m"));
        prog.push(probe(invoke(var("m"), "insert", vec![key(), Expr::Nil])));
        prog.extend(dumpish("m"));
        prog.push(probe(invoke(var("m"), "insert", vec![key(), s("not nil")])));
        prog.push(probe(invoke(var("m"), "insert", vec![key(), Expr::Nil])));
        prog.extend(dumpish("m"));
        prog.push(probe(invoke(var("m"), "clear", vec![])));
        prog.push(probe(invoke(var("m"), "insert", vec![key(), Expr::Nil])));
        prog.extend(dumpish("m"));
        prog.push(var_stmt("lit", Expr::MapLit(vec![(key(), Expr::Nil)])));
        prog.extend(dumpish("lit"));
        prog.push(probe(bin(BinOp::Eq, var("lit"), var("m"))));
        cases.push(Case::new("values_are_stored_as_given", prog));
        // equal values that are different objects
        let pairs: Vec<(Expr, Expr, Vec<Stmt>, Expr)> = vec![
            // (first value, second value, what is done to the second afterwards, what is read)
            (Expr::VecLit(vec![num(1.0)]), Expr::VecLit(vec![num(1.0)]), vec![expr_stmt(invoke(var("second"), "push", vec![num(2.0)]))], invoke(var("m"), "get", vec![key()])),
            (Expr::MapLit(vec![]), Expr::MapLit(vec![]), vec![expr_stmt(invoke(var("second"), "insert", vec![s("added"), num(1.0)]))], invoke(var("m"), "get", vec![key()])),
            (num(0.0), num(-0.0), vec![], bin(BinOp::Div, num(1.0), invoke(var("m"), "get", vec![key()]))),
            (num(-0.0), num(0.0), vec![], bin(BinOp::Div, num(1.0), invoke(var("m"), "get", vec![key()]))),
            (Expr::TupleLit(vec![num(1.0), Expr::VecLit(vec![])]), Expr::TupleLit(vec![num(1.0), Expr::VecLit(vec![])]), vec![expr_stmt(invoke(index(var("second"), num(1.0)), "push", vec![s("through the tuple")]))], invoke(var("m"), "get", vec![key()])),
            (num(1.0), Expr::RawNum("1.0".into(), 1.0), vec![], invoke(var("m"), "get", vec![key()])),
        ];
        for (first, second, after, read) in pairs {
            let mut prog = vec![class_stmt("K", None, Some("new"), vec![]), var_stmt("m", Expr::MapLit(vec![])), var_stmt("first", first), var_stmt("second", second)];
            prog.push(probe(invoke(var("m"), "insert", vec![key(), var("first")])));
            prog.push(probe(invoke(var("m"), "insert", vec![key(), var("second")])));
            prog.extend(after);
            prog.push(probe(read.clone()));
            prog.push(probe(invoke(var("m"), "len", vec![])));
            // and back again
            prog.push(probe(invoke(var("m"), "insert", vec![key(), var("first")])));
            prog.push(probe(read));
            prog.push(probe(invoke(var("m"), "items", vec![])));
            cases.push(Case::new("values_are_stored_as_given", prog));
        }
    }
    // unhashable keys in a literal
    for k in keys.iter().filter(|k| !k.hashable && !k.name.contains("the_map")) {
        cases.push(Case::new(
            "unhashable_key_in_literal",
            vec![class_stmt("K", None, Some("new"), vec![]), probe(Expr::MapLit(vec![(num(1.0), num(2.0)), (key_expr(k.name), num(3.0))])), print_stmt(s("after"))],
        ));
    }
    let n_cases = cases.len();
    // vacuity guard: a program that ends early in the model (an error escaping a probe) would silently skip
    // everything behind that point
    let ended_early = std::sync::atomic::AtomicUsize::new(0);
    let hooks = Hooks {
        attribute: &|_c, _m, _o, _mm| None,
        nontrivial: &|_c, m| {
            if !matches!(m.outcome, crate::meval::Outcome::Ok) {
                if ended_early.fetch_add(1, std::sync::atomic::Ordering::Relaxed) == 0 {
                    eprintln!("C12: a batch program of family {} ends early in the model: {:?} after {} lines", _c.family, m.outcome, m.out.len());
                }
            }
            m.out.len() > 30
        },
        fuel: 20_000_000,
    };
    let stats = mcheck::run(ctx, cases.into_iter(), &hooks);
    if ended_early.load(std::sync::atomic::Ordering::Relaxed) > 0 {
        crate::pool::machinery_failure(&format!("C12: {} batch programs end before their last probe in the model", ended_early.load(std::sync::atomic::Ordering::Relaxed)));
    }
    mcheck::fill_report(
        &mut report,
        &stats,
        "breadth-first search over HashMap states (canonical = sorted reference contents) from the empty map and from 14 literals, over insert/remove with every key of a pool holding equal-but-separately-built keys (1 and 1.0, 0 and -0, two builds of (1,2), of \"a\" and of 1..2 - with ten (seventy in the thorough tier) other ranges built before every operation and every dump, so that the two builds are two objects -, a tuple holding a range, nested tuples, two pairs of tuples of different lengths whose hashes collide), NaN, a class, and eight unhashable values (three of them reach the map itself: the map, a vec holding it, a tuple holding such a vec), plus clear; every transition leaving every state is executed on the real HashMap from a rebuilt copy and followed by a full dump (len; has_key/get through every hashable pool key; keys/values/items enumerate each entry once; a map rebuilt from items is == the original). One program per state. Plus `values_are_stored_as_given`: nil as a value (into an empty map, after a removal, after clear, over an old value, in a literal) and a key written again with a value that equals the old one but is another object (vec, map, tuple holding a vec, the zero of the other sign, 1 / 1.0), under six kinds of key.",
        json!({"max_live_entries": max_live, "depth": max_depth, "pool_keys": keys.len()}),
    );
    report.cov("states", json!(states));
    report.cov("transitions", json!(transitions));
    report.cov("traces_validated_against_impl", json!(transitions));
    report.cov("evaluations", json!(transitions));
    report.cov("distinct_nontrivial", json!(states));
    report.cov("max_depth_reached", json!(max_seen_depth));
    report.cov("programs", json!(n_cases));
    report.assumptions = vec!["keys/values/items are compared as multisets through order-independent probes".into(), "an overwritten entry keeps the key object that was inserted first".into()];
    report.violations = stats.violations;
    crate::c12::run_cyclic_family(ctx, &mut report);
    crate::c12::run_keys_family(ctx, &mut report);
    report
}
