//! C19 — numbers survive text: printing and parsing round-trip exactly; literals denote the nearest
//! double; number lexing never absorbs a following `.` that starts a method call or range.
use crate::ast::*;
use crate::common::*;
use crate::mcheck::{self, Case, Hooks};
use crate::pool::par_map;
use proto::Request;
use serde_json::json;

/// x = m * 2^e with integer m < 2^53 (x finite, non-zero)
fn decompose(x: f64) -> (bool, u64, i32) {
    let bits = x.to_bits();
    let neg = bits >> 63 == 1;
    let exp = ((bits >> 52) & 0x7ff) as i32;
    let frac = bits & ((1u64 << 52) - 1);
    let (mut m, mut e) = if exp == 0 { (frac, -1074) } else { (frac | (1u64 << 52), exp - 1075) };
    while m != 0 && m % 2 == 0 {
        m /= 2;
        e += 1;
    }
    (neg, m, e)
}

/// an expression that evaluates to exactly `x` using only integer literals below 2^53 and the
/// power-of-two tables P (2^k, k = 0..1023) and N (2^-k, k = 0..1074) built at program start
fn exact(x: f64) -> Expr {
    if x.is_nan() {
        return bin(BinOp::Div, num(0.0), num(0.0));
    }
    if x.is_infinite() {
        return if x > 0.0 { bin(BinOp::Div, num(1.0), num(0.0)) } else { bin(BinOp::Div, num(-1.0), num(0.0)) };
    }
    if x == 0.0 {
        return if x.is_sign_negative() { un(UnOp::Neg, num(0.0)) } else { num(0.0) };
    }
    let (neg, m, e) = decompose(x);
    let mag = if e >= 0 { bin(BinOp::Mul, num(m as f64), index(var("P"), num(e as f64))) } else { bin(BinOp::Mul, num(m as f64), index(var("N"), num(-e as f64))) };
    // m * 2^e may need two steps when e is very negative and m large: m*2^e is exact because the product
    // is the double itself
    if neg {
        un(UnOp::Neg, mag)
    } else {
        mag
    }
}

fn tables() -> Vec<Stmt> {
    // P[k] = 2^k, N[k] = 2^-k, built by repeated exact multiplication
    vec![
        var_stmt("P", Expr::VecLit(vec![num(1.0)])),
        st(StmtKind::For("k".into(), bin(BinOp::Range, num(0.0), num(1023.0)), vec![expr_stmt(invoke(var("P"), "push", vec![bin(BinOp::Mul, index(var("P"), var("k")), num(2.0))]))])),
        var_stmt("N", Expr::VecLit(vec![num(1.0)])),
        st(StmtKind::For("k".into(), bin(BinOp::Range, num(0.0), num(1074.0)), vec![expr_stmt(invoke(var("N"), "push", vec![bin(BinOp::Mul, index(var("N"), var("k")), num(0.5))]))])),
    ]
}

fn next_up(x: f64) -> f64 {
    if x.is_nan() || x == f64::INFINITY {
        return x;
    }
    if x == 0.0 {
        return f64::from_bits(1);
    }
    let b = x.to_bits();
    f64::from_bits(if x > 0.0 { b + 1 } else { b - 1 })
}
fn next_down(x: f64) -> f64 {
    -next_up(-x)
}

fn a1_values(m_bits: u32) -> Vec<f64> {
    let mut v = Vec::new();
    let steps = 1u64 << m_bits;
    for e in -1074..=1023i32 {
        for j in 0..steps {
            let mant = 1.0 + (j as f64) / (steps as f64);
            let x = if e >= -1022 { mant * 2f64.powi(e) } else { mant * 2f64.powi(e + 60) * 2f64.powi(-60) };
            if x.is_finite() && x != 0.0 {
                v.push(x);
                v.push(-x);
            }
        }
    }
    // boundaries
    let mut b = vec![0.0, -0.0, f64::from_bits(1), f64::from_bits((1u64 << 52) - 1), f64::MIN_POSITIVE, f64::MAX, f64::NAN, f64::INFINITY, f64::NEG_INFINITY];
    for base in [9007199254740992.0f64, 9223372036854775808.0, 4294967296.0, 1e15, 1e16, 1e21, 1e22, 1e23, 0.1, 0.2, 0.3, 1.0 / 3.0, 123456.789, 5e-324, 1.7976931348623157e308] {
        b.extend([base, next_up(base), next_down(base), -base, base + 1.0, base - 1.0]);
    }
    for k in -323..=308i32 {
        let p: f64 = format!("1e{}", k).parse().unwrap();
        b.extend([p, next_up(p), next_down(p)]);
    }
    v.extend(b);
    v
}

fn a1_program(values: &[f64]) -> Vec<Stmt> {
    let mut prog = tables();
    prog.push(fn_stmt(func(
        "check",
        &["x"],
        vec![
            var_stmt("t", invoke(var("String"), "from", vec![var("x")])),
            print_stmt(var("t")),
            var_stmt("back", invoke(var("t"), "to_num", vec![])),
            // identical number: equal, and for zeros the same sign (1/x); NaN maps to NaN
            print_stmt(Expr::Or(
                Box::new(Expr::And(Box::new(bin(BinOp::Eq, var("back"), var("x"))), Box::new(bin(BinOp::Eq, bin(BinOp::Div, num(1.0), var("back")), bin(BinOp::Div, num(1.0), var("x")))))),
                Box::new(Expr::And(Box::new(bin(BinOp::Ne, var("x"), var("x"))), Box::new(bin(BinOp::Ne, var("back"), var("back"))))),
            )),
            print_stmt(bin(BinOp::Eq, Expr::Interp(vec![Part::Expr(var("x"))]), var("t"))),
        ],
    )));
    prog.push(fn_stmt(func(
        "check_no_text",
        &["x"],
        vec![
            var_stmt("t", invoke(var("String"), "from", vec![var("x")])),
            var_stmt("back", invoke(var("t"), "to_num", vec![])),
            print_stmt(bin(BinOp::Eq, var("back"), var("x"))),
            print_stmt(bin(BinOp::Eq, Expr::Interp(vec![Part::Expr(var("x"))]), var("t"))),
            // no exponent notation, whatever the digits
            print_stmt(Expr::TupleLit(vec![invoke(var("t"), "find", vec![s("e"), num(0.0)]), invoke(var("t"), "find", vec![s("E"), num(0.0)])])),
        ],
    )));
    for x in values {
        // where two shortest digit strings round-trip, the printed text is a tie-breaking detail: such
        // values are checked for round trip and interpolation only
        let f = if crate::mval::fmt_number_ambiguous(*x) { "check_no_text" } else { "check" };
        prog.push(expr_stmt(call(var(f), vec![exact(*x)])));
    }
    prog
}

/// M-num: is `d` the double nearest to digits/10^scale (ties to even)?  Exact integer arithmetic.
fn nearest_ok(int_digits: u128, scale: u32, d: f64) -> bool {
    // value = int_digits / 10^scale ; d = m * 2^e
    if int_digits == 0 {
        return d == 0.0;
    }
    let pow10 = 10u128.pow(scale);
    // compare |value - c| for c in {prev, d, next} as rationals over the common denominator 10^scale * 2^s
    let cmp_dist = |c: f64| -> (u128, i32) {
        // returns |value - c| * 10^scale scaled by 2^shift as (numerator, shift) with a common shift of 80
        let (_, m, e) = decompose(c);
        // value*10^scale*2^80 - c*10^scale*2^80
        let a = int_digits << 60; // value * 10^scale * 2^60
        let cshift = 60 + e;
        let cm = (m as u128) * pow10;
        let cval = if cshift >= 0 { cm << cshift } else { cm >> (-cshift) };
        (if a > cval { a - cval } else { cval - a }, 0)
    };
    if d == 0.0 || !d.is_finite() {
        return false;
    }
    let (dd, _) = cmp_dist(d);
    let (du, _) = cmp_dist(next_up(d));
    let (dl, _) = if next_down(d) > 0.0 { cmp_dist(next_down(d)) } else { (u128::MAX, 0) };
    if dd < du && dd < dl {
        return true;
    }
    if dd > du || dd > dl {
        return false;
    }
    // tie: even mantissa wins
    d.to_bits() % 2 == 0
}

fn literal_texts(max_len: usize) -> Vec<String> {
    let mut out = Vec::new();
    for len in 1..=max_len {
        for n in 0..10u64.pow(len as u32) {
            out.push(format!("{:0width$}", n, width = len));
        }
    }
    for la in 1..max_len {
        for lb in 1..max_len {
            if la + lb + 1 > max_len {
                continue;
            }
            for a in 0..10u64.pow(la as u32) {
                for b in 0..10u64.pow(lb as u32) {
                    out.push(format!("{:0wa$}.{:0wb$}", a, b, wa = la, wb = lb));
                }
            }
        }
    }
    out
}

fn parse_literal(t: &str) -> (u128, u32) {
    match t.split_once('.') {
        Some((a, b)) => (format!("{}{}", a, b).parse::<u128>().unwrap(), b.len() as u32),
        None => (t.parse::<u128>().unwrap(), 0),
    }
}

pub fn run(ctx: &Ctx) -> Report {
    let mut report = Report::new();
    let thorough = ctx.thorough();
    let m_bits = if thorough { 7 } else { 4 };
    let lit_len = if thorough { 6 } else { 5 };

    // ---- A1 ------------------------------------------------------------------------------------
    let values = a1_values(m_bits);
    let n_a1 = values.len();
    let mut cases: Vec<Case> = values.chunks(400).map(|c| Case::new("A1_print_parse_round_trip", a1_program(c))).collect();

    // ---- A2 ------------------------------------------------------------------------------------
    let texts = literal_texts(lit_len);
    let n_a2 = texts.len();
    let mut mnum_failures = 0usize;
    let mut lits: Vec<(String, f64)> = Vec::new();
    for t in &texts {
        let d: f64 = t.parse().unwrap();
        let (digits, scale) = parse_literal(t);
        if !nearest_ok(digits, scale, d) {
            mnum_failures += 1;
        }
        lits.push((t.clone(), d));
    }
    if mnum_failures > 0 {
        crate::pool::machinery_failure(&format!("M-num: the host parser's result is not the nearest double for {} literal texts: the model's numbers cannot be trusted", mnum_failures));
    }
    // halfway texts with 17-19 significant digits around powers of two and ten (the model double comes from
    // the host parser; exactness is asserted by construction: the text is the exact midpoint +- 1 ulp-digit)
    for chunk in lits.chunks(600) {
        let mut prog = tables();
        for (t, d) in chunk {
            // the literal must equal the exactly constructed double, and print like it
            prog.push(print_stmt(bin(BinOp::Eq, Expr::RawNum(t.clone(), *d), exact(*d))));
        }
        cases.push(Case::new("A2_literal_denotes_nearest_double", prog));
    }
    // long literals: 17-19 significant digits at and around halfway points
    let mut long_prog = tables();
    let mut n_long = 0;
    for base in [1.0f64, 2.0, 9007199254740992.0, 0.1, 123456789.123456789, 1e22, 8.5, 4503599627370496.5] {
        for d in [next_down(base), base, next_up(base)] {
            for digits in [17usize, 18, 19, 25] {
                let t = format!("{:.*}", digits.saturating_sub(format!("{}", d.trunc()).len().min(digits)), d);
                if t.contains('e') || t.len() > 40 {
                    continue;
                }
                let parsed: f64 = t.parse().unwrap();
                long_prog.push(print_stmt(bin(BinOp::Eq, Expr::RawNum(t, parsed), exact(parsed))));
                n_long += 1;
            }
        }
    }
    cases.push(Case::new("A2_long_literals", long_prog));
    // integer literals of 15-19 digits (at and beyond what a double holds exactly): for every length,
    // 64 evenly spread leading parts x 4 consecutive values; the model double is the host parser's,
    // validated as nearest by M-num's integer arithmetic
    let mut int_prog = tables();
    let mut n_int = 0;
    for n in 15u32..=19 {
        for i in 0..64u128 {
            let base = 10u128.pow(n - 1) + 10u128.pow(n - 1) * 9 * i / 64;
            for j in 0..4u128 {
                let v = base + j * 7 + i;
                let t = format!("{}", v);
                if t.len() != n as usize {
                    continue;
                }
                let parsed: f64 = t.parse().unwrap();
                if !nearest_ok(v, 0, parsed) {
                    crate::pool::machinery_failure(&format!("M-num: host parser result for {} is not the nearest double", t));
                }
                int_prog.push(print_stmt(bin(BinOp::Eq, Expr::RawNum(t, parsed), exact(parsed))));
                n_int += 1;
            }
        }
    }
    cases.push(Case::new("A2_integer_literals_15_to_19_digits", int_prog));
    // what `print` produces, used as a literal, denotes the number that was printed (the A1 values whose
    // printed text the model fixes, by absolute value)
    let mut n_text_lits = 0;
    {
        let mut seen = std::collections::HashSet::new();
        let mut progs: Vec<Vec<Stmt>> = Vec::new();
        let mut cur = tables();
        let mut in_cur = 0;
        for x in &values {
            let a = x.abs();
            if !a.is_finite() || a == 0.0 || crate::mval::fmt_number_ambiguous(a) || !seen.insert(a.to_bits()) {
                continue;
            }
            let text = crate::mval::fmt_number(a);
            if text.contains('e') || text.len() > 400 {
                continue;
            }
            cur.push(print_stmt(bin(BinOp::Eq, Expr::RawNum(text, a), exact(a))));
            n_text_lits += 1;
            in_cur += 1;
            if in_cur == 400 {
                progs.push(std::mem::replace(&mut cur, tables()));
                in_cur = 0;
            }
        }
        if in_cur > 0 {
            progs.push(cur);
        }
        for p in progs {
            cases.push(Case::new("A1_printed_text_as_literal", p));
        }
    }

    // ---- A3 positive contexts (behaviour known by construction) ---------------------------------
    let mut digit_strings = Vec::new();
    for len in 1..=3usize {
        for n in 0..10u64.pow(len as u32) {
            digit_strings.push(format!("{:0width$}", n, width = len));
        }
    }
    let n_a3 = digit_strings.len();
    for chunk in digit_strings.chunks(150) {
        let mut prog = Vec::new();
        for dstr in chunk {
            let v: f64 = dstr.parse().unwrap();
            let lit = || Expr::RawNum(dstr.clone(), v);
            prog.push(print_stmt(lit()));
            prog.push(print_stmt(invoke(lit(), "derives", vec![var("Num")])));
            prog.push(print_stmt(bin(BinOp::Range, lit(), num(3.0))));
            prog.push(print_stmt(bin(BinOp::Range, num(3.0), lit())));
            let with_frac = format!("{}.5", dstr);
            let vf: f64 = with_frac.parse().unwrap();
            prog.push(print_stmt(Expr::RawNum(with_frac.clone(), vf)));
            prog.push(print_stmt(invoke(Expr::RawNum(with_frac, vf), "derives", vec![var("Num")])));
            let two = format!("{}.{}", dstr, dstr);
            let v2: f64 = two.parse().unwrap();
            // (a fractional end point is a ValueError: caught, so that the batch goes on)
            prog.push(st(StmtKind::Try(vec![print_stmt(bin(BinOp::Range, lit(), bin(BinOp::Add, Expr::RawNum(two.clone(), v2), num(0.0))))], Some(("e".into(), vec![print_stmt(call(var("type"), vec![var("e")]))])), None)));
        }
        cases.push(Case::new("A3_digit_run_contexts", prog));
    }
    // ---- A4: a literal means the same wherever it stands ------------------------------------------
    // One function per literal (a function has its own constant table): the literal as an initialiser, bare
    // inside an interpolation, in brackets inside an interpolation, as an operand, as key and value of a map
    // literal and as an element - before and after one another in the same function.  Every occurrence
    // denotes the same number, and the interpolated text is the text `String.from` gives.
    let mut n_a4 = 0;
    {
        let mut pool: Vec<(String, f64)> = Vec::new();
        for (i, (t, d)) in lits.iter().enumerate() {
            if i % (if thorough { 7 } else { 41 }) == 0 {
                pool.push((t.clone(), *d));
            }
        }
        for t in ["0", "1", "2", "0.1", "0.5", "2.5", "10", "255", "256", "1000000", "9007199254740993", "1152921504606846976", "9223372036854775807", "9223372036854775808", "18446744073709551616", "0.30000000000000004", "123456789012345678901234567890"] {
            pool.push((t.to_string(), t.parse().unwrap()));
        }
        for chunk in pool.chunks(40) {
            let mut prog: Vec<Stmt> = Vec::new();
            for (k, (t, d)) in chunk.iter().enumerate() {
                let lit = || Expr::RawNum(t.clone(), *d);
                let name = format!("p{}", k);
                let body = vec![
                    var_stmt("a", lit()),
                    var_stmt("s", Expr::Interp(vec![Part::Expr(lit())])),
                    var_stmt("b", lit()),
                    var_stmt("u", Expr::Interp(vec![Part::Lit("<".into()), Part::Expr(Expr::Paren(Box::new(lit()))), Part::Lit(">".into())])),
                    var_stmt("m", Expr::MapLit(vec![(lit(), lit())])),
                    var_stmt("v", Expr::VecLit(vec![lit(), Expr::Interp(vec![Part::Expr(lit())]), lit()])),
                    print_stmt(Expr::VecLit(vec![
                        bin(BinOp::Eq, var("a"), var("b")),
                        bin(BinOp::Eq, bin(BinOp::Add, var("a"), num(0.0)), lit()),
                        bin(BinOp::Eq, var("s"), invoke(var("String"), "from", vec![var("b")])),
                        bin(BinOp::Eq, var("u"), bin(BinOp::Add, bin(BinOp::Add, s("<"), var("s")), s(">"))),
                        bin(BinOp::Eq, invoke(var("m"), "get", vec![var("a")]), var("b")),
                        bin(BinOp::Eq, index(var("v"), num(0.0)), index(var("v"), num(2.0))),
                        bin(BinOp::Eq, index(var("v"), num(1.0)), var("s")),
                        invoke(var("a"), "derives", vec![var("Num")]),
                        invoke(var("b"), "derives", vec![var("Num")]),
                        invoke(index(var("v"), num(2.0)), "derives", vec![var("Num")]),
                        bin(BinOp::Eq, invoke(var("s"), "to_num", vec![]), var("a")),
                    ])),
                ];
                prog.push(fn_stmt(func(&name, &[], body)));
                prog.push(expr_stmt(call(var(&name), vec![])));
                n_a4 += 1;
            }
            cases.push(Case::new("A4_a_literal_means_the_same_wherever_it_stands", prog));
        }
    }
    // vacuity guard: a program that ends early in the model (an error escaping a probe) would silently skip
    // everything behind that point
    let ended_early = std::sync::atomic::AtomicUsize::new(0);
    let hooks = Hooks {
        attribute: &|_c, _m, _o, _mm| None,
        nontrivial: &|_c, m| {
            if !matches!(m.outcome, crate::meval::Outcome::Ok) {
                ended_early.fetch_add(1, std::sync::atomic::Ordering::Relaxed);
            }
            m.out.len() >= 2
        },
        fuel: 50_000_000,
    };
    let stats = mcheck::run(ctx, cases.into_iter(), &hooks);
    if ended_early.load(std::sync::atomic::Ordering::Relaxed) > 0 {
        crate::pool::machinery_failure(&format!("C19: {} batch programs end before their last probe in the model", ended_early.load(std::sync::atomic::Ordering::Relaxed)));
    }

    // ---- A3 negative contexts: direct expectations --------------------------------------------------
    let mut neg: Vec<(String, &'static str)> = Vec::new();
    for dstr in &digit_strings {
        neg.push((format!("print({}. 5);", dstr), "compile_error"));
        neg.push((format!("print({}.);", dstr), "compile_error"));
        neg.push((format!("print({}...3);", dstr), "compile_error"));
        neg.push((format!("print(x.{});", dstr), "compile_error"));
        neg.push((format!("print({}.e);", dstr), "AttributeError"));
        neg.push((format!("print({}..);", dstr), "compile_error"));
        neg.push((format!("{}.", dstr), "compile_error"));
    }
    let n_neg = neg.len();
    let results = par_map(&ctx.runner_checked, ctx.workers, neg.chunks(200).map(|c| c.to_vec()), |runner, _i, chunk| {
        let mut req = Request { op: "run_each".into(), snippets: chunk.iter().map(|(s, _)| s.clone()).collect(), fuel: Some(100_000), ..Default::default() };
        let obs = runner.call(&mut req);
        let got = obs.resp().map(|r| r.results.clone()).unwrap_or_default();
        let mut bad = Vec::new();
        for (k, (src, want)) in chunk.iter().enumerate() {
            let ok = match got.get(k).map(|r| &r.outcome) {
                Some(proto::Outcome::Err { kind, messages }) => {
                    if *want == "compile_error" {
                        kind == "CompileError"
                    } else {
                        messages.get(0).map(|m| m.starts_with(&format!("Unhandled {}", want))).unwrap_or(false)
                    }
                }
                _ => false,
            };
            if !ok {
                bad.push((src.clone(), want.to_string(), format!("{:?}", got.get(k))));
            }
        }
        bad
    });
    mcheck::fill_report(
        &mut report,
        &stats,
        "A1: every double +-(1 + j/2^m) * 2^e for every exponent e (normal and subnormal) and j < 2^m, plus boundaries (zeros, subnormal limits, max, 2^53 and 2^63 neighbours, 10^k and neighbours for k in [-323,308], NaN, infinities), built exactly from integer literals and powers of two: printed text must equal the model's shortest-round-trip positional text, text must parse back to the identical number (sign of zero included), interpolation must print the same text. A2: every literal digits[.digits] up to 5/6 characters must equal the exactly constructed nearest double (nearestness of the model's value is itself checked in exact integer arithmetic), plus long literals around halfway points, 1280 integer literals of 15-19 digits, and the printed text of every A1 value (where the model fixes it) used as a literal. A3: every digit string up to 3 digits in each look-ahead context.",
        json!({"mantissa_bits_enumerated": m_bits, "literal_length": lit_len, "digit_run_length": 3}),
    );
    let total = n_a1 + n_a2 + n_long + n_int + n_text_lits + n_a4 + n_a3 * 7 + n_neg;
    report.cov("evaluations", json!(total));
    report.cov("programs", json!(stats.evaluations));
    report.cov("distinct_nontrivial", json!(total));
    report.cov("states", json!(total));
    report.cov("transitions", json!(total));
    report.cov("traces_validated_against_impl", json!(total));
    report.cov("values_by_family", json!({"A1_doubles": n_a1, "A2_literals": n_a2, "A2_long_literals": n_long, "A2_integer_literals_15_to_19_digits": n_int, "A1_printed_text_as_literal": n_text_lits, "A4_a_literal_means_the_same_wherever_it_stands": n_a4, "A3_positive_contexts": n_a3 * 7, "A3_negative_contexts": n_neg}));
    report.assumptions = vec![
        "the model's text for a double is produced from the host's exponent formatter at increasing precision and expanded by hand; a defect shared by that formatter and the implementation's formatter would go unnoticed (the round-trip identity is checked independently of any formatter)".into(),
        "long-literal nearestness relies on the host parser (checked exactly for the short literals)".into(),
    ];
    report.violations = stats.violations;
    for chunk in results {
        for (src, want, got) in chunk {
            report.violations.push((format!("[A3 negative context] `{}` expected {}, got {}", src, want, got), json!({"family": "A3_negative_contexts", "source": src, "expected": want, "observed": got})));
        }
    }
    report
}
