//! Differential comparison of a model run (M-eval) with what the real interpreter did.
use crate::ast::*;
use crate::meval::{Event, Interp, ModuleSource, Outcome, Uncaught};
use proto::SnippetResult;
use std::collections::BTreeMap;
use std::rc::Rc;
use std::sync::Arc;

pub struct ModelRun {
    pub out: Vec<String>,
    pub outcome: Outcome,
    pub events: Vec<Event>,
    pub max_frames: usize,
}

pub fn model_run(prog: Arc<Vec<Stmt>>, modules: &BTreeMap<String, ModuleSource>) -> ModelRun {
    let mut it = Interp::new(modules);
    let outcome = it.run_main(prog);
    ModelRun { out: std::mem::take(&mut it.out), outcome, events: std::mem::take(&mut it.events), max_frames: it.max_frames_seen }
}

/// Replace printed addresses by a fixed token.
pub fn normalise(line: &str) -> String {
    let b = line.as_bytes();
    let mut out = String::with_capacity(line.len());
    let mut i = 0;
    while i < b.len() {
        if b[i] == b'0' && i + 1 < b.len() && b[i + 1] == b'x' {
            let mut j = i + 2;
            while j < b.len() && b[j].is_ascii_hexdigit() {
                j += 1;
            }
            if j > i + 2 {
                out.push_str("[ADDR]");
                i = j;
                continue;
            }
        }
        // copy one UTF-8 character
        let mut j = i + 1;
        while j < b.len() && (b[j] & 0xC0) == 0x80 {
            j += 1;
        }
        out.push_str(&line[i..j]);
        i = j;
    }
    out
}

#[derive(Clone, Copy)]
pub struct CmpOpts {
    pub trace: bool,
    pub kind: bool,
}

pub fn trace_line(module: &str, line: usize, func: &str) -> String {
    if func.is_empty() {
        format!("[module \"{}\", line {}] in script", module, line)
    } else {
        format!("[module \"{}\", line {}] in {}()", module, line, func)
    }
}

fn compare_uncaught(u: &Uncaught, kind: &str, messages: &[String], opts: CmpOpts) -> Option<String> {
    if messages.is_empty() {
        return Some("error without messages".into());
    }
    let head = format!("Unhandled {}: ", u.class);
    if !messages[0].starts_with(&head) {
        return Some(format!("expected the run to end with `{}...`, got `{}`", head, messages[0]));
    }
    let mut consumed = 1;
    if let Some(text) = &u.text {
        let full = format!("{}{}", head, text);
        let want: Vec<&str> = full.lines().collect();
        let want: Vec<String> = want.iter().map(|l| normalise(l)).collect();
        let got: Vec<String> = messages.iter().take(want.len()).map(|l| normalise(l)).collect();
        if want != got {
            return Some(format!("uncaught-error text differs: expected {:?}, got {:?}", want, got));
        }
        consumed = want.len().max(1);
    } else {
        // text not defined by the model: the header line(s) end where the trace starts
        while consumed < messages.len() && !messages[consumed].starts_with("[module \"") {
            consumed += 1;
        }
    }
    if opts.kind && kind != u.kind.as_str() {
        return Some(format!("error kind differs: expected {}, got {}", u.kind, kind));
    }
    if opts.trace {
        let got = &messages[consumed..];
        if got.len() != u.trace.len() {
            return Some(format!("trace has {} entries, expected {}: {:?}", got.len(), u.trace.len(), got));
        }
        for (g, t) in got.iter().zip(u.trace.iter()) {
            if t.core {
                // frames of the library written in the language itself: name and position only
                let suffix = if t.func.is_empty() { "] in script".to_string() } else { format!("] in {}()", t.func) };
                if !(g.starts_with("[module \"main\", line ") && g.ends_with(&suffix)) {
                    return Some(format!("trace entry differs: expected a library frame of {}(), got `{}`", t.func, g));
                }
            } else {
                let want = trace_line(&t.module, t.line, &t.func);
                if *g != want {
                    return Some(format!("trace entry differs: expected `{}`, got `{}`", want, g));
                }
            }
        }
    }
    None
}

/// None = agreement.
pub fn compare(model: &ModelRun, obs: &SnippetResult, opts: CmpOpts) -> Option<String> {
    let got: Vec<String> = obs.out.iter().map(|l| normalise(l)).collect();
    let want: Vec<String> = model.out.iter().map(|l| normalise(l)).collect();
    if got != want {
        let k = got.iter().zip(want.iter()).take_while(|(a, b)| a == b).count();
        return Some(format!(
            "printed output differs at line {}: expected {:?}, got {:?}",
            k + 1,
            want.get(k),
            got.get(k)
        ));
    }
    match (&model.outcome, &obs.outcome) {
        (Outcome::Ok, proto::Outcome::Ok) => None,
        (Outcome::Ok, proto::Outcome::Err { messages, .. }) => Some(format!("expected a normal end, run ended with {:?}", messages)),
        (Outcome::Uncaught(u), proto::Outcome::Ok) => Some(format!("expected `Unhandled {}`, run ended normally", u.class)),
        (Outcome::Uncaught(u), proto::Outcome::Err { kind, messages }) => compare_uncaught(u, kind, messages, opts),
        (_, proto::Outcome::Panic { msg }) => Some(format!("interpreter panicked: {}", msg)),
        (Outcome::Unsupported(_), _) => None,
    }
}

/// number of leading output lines on which model and implementation agree
pub fn agreed_prefix(model: &ModelRun, obs: &SnippetResult) -> usize {
    obs.out.iter().zip(model.out.iter()).take_while(|(a, b)| normalise(a) == normalise(b)).count()
}
