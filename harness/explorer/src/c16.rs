//! C16 — garbage is reclaimed: heap size is bounded by live data.
//! Generated loop programs with a bounded live set run in the *optimised* build (threshold-paced
//! collection) with the allocation log on; an invariant monitor checks the pacing rule at every
//! allocation event and every collection, exact accounting, and that twice as many iterations leave
//! the same number of objects behind.
use crate::common::*;
use crate::pool::{par_map, Obs, Runner};
use proto::{HeapDump, Request};
use serde_json::json;
use std::collections::BTreeMap;

const INIT_BUDGET: usize = 65536;
const GROWTH: usize = 2;

const PRELUDE: &str = r#"
#[constructor(new)]
class K { fn m(self) { return 1; } }
var handed_on = nil;
var chain = nil;
"#;

fn kinds() -> Vec<(&'static str, &'static str)> {
    vec![
        ("vec", "var a = [i, i + 1, [i]];"),
        ("tuple", "var a = (i, (i, i));"),
        ("map", "var a = {i: [i], \"k\": i};"),
        ("instance", "var a = K.new(); a.f = [i];"),
        ("class_declaration", "class L { fn m(self) { return i; } } var a = L;"),
        ("closure", "var c = [i]; var a = || c;"),
        ("bound_method", "var k = K.new(); var a = k.m;"),
        ("bound_native", "var a = [i].len;"),
        ("vec_iter", "var a = [i, i].iter(); a.next();"),
        ("string_iter", "var a = \"abc\".iter(); a.next();"),
        ("range_uncached", "var a = (i + 1000)..(i + 1003);"),
        ("range_iter", "var a = (0..3).iter(); a.next();"),
        ("caught_error", "var a = nil; try { [][1]; } catch e { a = e; }"),
        ("fiber_completed", "var a = Fiber.new(|| [i]); a.call();"),
        ("fiber_suspended", "var a = Fiber.new(|| { var l = [i]; Fiber.yield(l); return l; }); a.call();"),
        ("map_filter_chain", "var a = [i, i + 1, i + 2].iter().map(|e| [e]).filter(|e| true).collect();"),
        ("interpolated_string_same", "var a = \"v${i % 3}\";"),
        ("slice", "var a = [i, i, i, i][1..3];"),
        ("hash_map_items", "var a = {1: i, 2: i}.items();"),
        ("error_instance", "var a = Error.new([i]);"),
        // a fiber run to its end by a short-lived fiber and handed on to the next round, which holds it on
        // its own stack while it finishes
        ("fiber_run_by_a_fiber_and_handed_on", "var a = Fiber.new(|| { var hold = handed_on; var t = Fiber.new(|| [i]); t.call(); handed_on = t; }); a.call();"),
        // closures made at every level of a recursion; only the innermost one survives the call
        ("closure_from_the_bottom_of_a_recursion", "fn rec(d) { var big = [d, [d]]; var c = || big; if d == 0 { return c; } return rec(d - 1); } var a = rec(i % 40);"),
        // exceptions carrying objects: caught, re-thrown through a finally block, and given up because the
        // finally block is left by continue / break (the thrown object and the value of a return that was
        // waiting are garbage from then on)
        ("caught_throw_of_an_object", "var a = nil; try { throw [i, [i]]; } catch e { a = e; }"),
        ("throw_through_finally_then_caught", "var a = nil; try { try { throw [i, [i]]; } finally { a = [i]; } } catch e { a = e; }"),
        ("throw_given_up_by_continue_in_finally", "var a = [i]; for k in 0..2 { try { throw [a, [k]]; } finally { continue; } }"),
        ("throw_given_up_by_break_in_finally", "var a = [i]; while true { try { throw [a, [i]]; } finally { break; } }"),
        // two captured locals of one call closed together (by the return, by an exception unwinding the
        // call, by a return through a finally block): the closure over the upper one is kept from round to
        // round, the lower one refers to the previous round's closure - which must not be kept alive by it
        ("two_captured_locals_closed_by_return", "fn mk(prev) { var lower = prev; var peek = || lower; var upper = [i]; var c = || upper; return c; } var a = mk(chain); chain = a;"),
        ("two_captured_locals_closed_by_unwinding", "fn mk(prev) { var lower = prev; var peek = || lower; var upper = [i]; chain = || upper; throw [i]; } var a = nil; try { mk(chain); } catch e { a = e; }"),
        ("two_captured_locals_closed_by_return_through_finally", "fn mk(prev) { var lower = prev; var peek = || lower; var upper = [i]; try { return || upper; } finally { lower = [prev]; } } var a = mk(chain); chain = a;"),
        // a closure made inside a fiber over a local of that fiber, kept after the fiber ended; the fiber
        // had the previous round's closure on its stack (its parameter): the kept closure must not keep the
        // dead fiber, or what lay on its stack, alive
        ("closure_made_in_a_fiber_that_ended", "var a = Fiber.new(|prev| { var hold = prev; var mine = [i]; return || mine; }).call(chain); chain = a;"),
        // (a fiber left suspended is kept by a closure over one of its locals - the variable lives on its
        // stack - and goes when that closure goes)
        ("closure_made_in_a_fiber_left_suspended", "var fb = Fiber.new(|| { var mine = [i]; chain = || mine; Fiber.yield(1); return 2; }); fb.call(); var a = chain;"),
        ("return_given_up_by_break_in_finally", "fn giveup() { for k in 0..2 { try { return [i, [k]]; } finally { break; } } return [i]; } var a = giveup();"),
    ]
}

fn live_shapes() -> Vec<(&'static str, &'static str, &'static str)> {
    // (name, setup before the loop, statement keeping `a` alive or not)
    vec![
        ("nothing_kept", "", ""),
        ("ring_of_4", "var ring = [nil, nil, nil, nil];", "ring[i % 4] = a;"),
        ("map_rotating_key", "var keep = {};", "keep.insert(i % 3, a);"),
    ]
}

struct Prog {
    describe: String,
    /// (iterations, statement appended to the loop body)
    make: Box<dyn Fn(usize, &str) -> String + Send + Sync>,
}

fn programs(thorough: bool) -> Vec<Prog> {
    let ks = kinds();
    let mut out = Vec::new();
    let mut bodies: Vec<(String, String)> = Vec::new();
    for (n1, b1) in &ks {
        bodies.push((n1.to_string(), format!("{{ {} KEEP }}", b1)));
        for (n2, b2) in &ks {
            if n1 < n2 {
                bodies.push((format!("{}+{}", n1, n2), format!("{{ {} KEEP }} {{ {} KEEP }}", b1, b2)));
                if thorough {
                    for (n3, b3) in &ks {
                        if n2 < n3 && (n3.len() + n1.len()) % 3 == 0 {
                            bodies.push((format!("{}+{}+{}", n1, n2, n3), format!("{{ {} KEEP }} {{ {} KEEP }} {{ {} KEEP }}", b1, b2, b3)));
                        }
                    }
                }
            }
        }
    }
    for (bname, body) in bodies {
        for (lname, setup, keep) in live_shapes() {
            let body = body.replace("KEEP", keep);
            let setup = setup.to_string();
            let d = format!("body={} live={}", bname, lname);
            out.push(Prog {
                describe: d,
                make: Box::new(move |n, extra| format!("{}\n{}\nfor i in 0..{} {{ {} {} }}\nprint(\"done\");\n", PRELUDE, setup, n, body, extra)),
            });
        }
    }
    out
}

fn run_prog(runner: &mut Runner, src: &str, want: &[&str], drop_stats: bool) -> Obs {
    let mut req = Request { op: "run".into(), snippets: vec![src.to_string()], natives: vec!["heap_probe".into()], fuel: Some(200_000_000), want: want.iter().map(|s| s.to_string()).collect(), drop_vm_stats: drop_stats, ..Default::default() };
    runner.call(&mut req)
}

/// the pacing / accounting invariants over one allocation log; returns (problem, events, collections, max overshoot)
fn check_log(log: &[(u8, usize, usize, usize, usize)]) -> (Option<String>, usize, usize, usize) {
    let mut collections = 0;
    let mut max_over = 0usize;
    // the log starts after the interpreter was constructed: the threshold in effect is the first event's
    let mut prev_threshold = match log.first() {
        Some(e) if e.0 == 0 => e.3,
        _ => 0,
    };
    let mut prev_bytes: Option<usize> = None;
    let mut prev_was_collect = false;
    for (k, e) in log.iter().enumerate() {
        match e.0 {
            1 => {
                // collect: (before, after, threshold, live)
                let (before, after, threshold) = (e.1, e.2, e.3);
                collections += 1;
                if after > before {
                    return (Some(format!("event {}: a collection grew the heap from {} to {} bytes", k, before, after)), log.len(), collections, max_over);
                }
                if threshold != after * GROWTH {
                    return (Some(format!("event {}: threshold after a collection is {}, expected {} x survivors {}", k, threshold, GROWTH, after)), log.len(), collections, max_over);
                }
                // a collection happens only when the heap has reached the threshold in effect
                if before < prev_threshold {
                    return (Some(format!("event {}: collected at {} bytes, below the threshold {} in effect", k, before, prev_threshold)), log.len(), collections, max_over);
                }
                if let Some(pb) = prev_bytes {
                    if pb != before {
                        return (Some(format!("event {}: heap size changed from {} to {} between two events", k, pb, before)), log.len(), collections, max_over);
                    }
                }
                prev_threshold = threshold;
                prev_bytes = Some(after);
                prev_was_collect = true;
            }
            _ => {
                // alloc: (size, bytes after, threshold, live)
                let (size, bytes, threshold) = (e.1, e.2, e.3);
                let before = bytes - size;
                if let Some(pb) = prev_bytes {
                    if pb != before {
                        return (Some(format!("event {}: heap accounted {} bytes before this allocation, {} after the previous event", k, before, pb)), log.len(), collections, max_over);
                    }
                }
                if threshold != prev_threshold {
                    return (Some(format!("event {}: threshold changed from {} to {} without a collection", k, prev_threshold, threshold)), log.len(), collections, max_over);
                }
                // no collection right before this allocation: the heap must have been below the threshold
                if !prev_was_collect && before >= threshold {
                    return (Some(format!("event {}: allocation of {} bytes at heap size {} >= threshold {} without a collection", k, size, before, threshold)), log.len(), collections, max_over);
                }
                // between collections the heap exceeds max(2 x survivors, initial budget) by at most one allocation
                let bound = threshold.max(INIT_BUDGET);
                if bytes > bound + size {
                    return (Some(format!("event {}: heap {} bytes exceeds the bound {} by more than this allocation ({} bytes)", k, bytes, bound, size)), log.len(), collections, max_over);
                }
                if bytes > bound {
                    max_over = max_over.max(bytes - bound);
                }
                prev_bytes = Some(bytes);
                prev_was_collect = false;
            }
        }
    }
    (None, log.len(), collections, max_over)
}

fn non_retained(h: &HeapDump) -> BTreeMap<String, usize> {
    // interned strings and compiled code are retained for the interpreter's lifetime by design
    h.by_type.iter().filter(|(k, _)| !k.contains("ObjString") && !k.contains("Chunk") && !k.contains("ObjFunction")).map(|(k, v)| (k.clone(), *v)).collect()
}

#[derive(Default)]
struct Acc {
    programs: usize,
    events: usize,
    collections: usize,
    max_over: usize,
    programs_with_collection: usize,
    violations: Vec<(String, serde_json::Value)>,
    samples: Vec<serde_json::Value>,
}

pub fn run(ctx: &Ctx) -> Report {
    let mut report = Report::new();
    let thorough = ctx.thorough();
    // (n2 - n1 is a multiple of every period a loop body uses - 3, 4, 40 - so that the two probes inside
    // the loop see it in the same phase)
    let (n1, n2) = if thorough { (2400usize, 4800usize) } else { (600usize, 1200usize) };
    let progs = programs(thorough);
    let n_progs = progs.len();
    // baseline: what a fresh interpreter leaves behind when dropped
    let baseline = {
        let mut r = Runner::new(ctx.runner_opt.clone());
        match run_prog(&mut r, "print(1);\n", &[], true) {
            Obs::Resp(resp) => resp.heap_after_drop.map(|h| h.objects).unwrap_or(usize::MAX),
            _ => crate::pool::machinery_failure("C16: the optimised runner did not answer"),
        }
    };
    let nondeterministic = std::sync::atomic::AtomicUsize::new(0);
    let accs = par_map(&ctx.runner_opt, ctx.workers, progs.into_iter().enumerate(), |runner, _i, (idx, p)| {
      // a failing program is judged a second time: only what fails both times is reported, a program that
      // fails once and passes once is a machinery failure (no verdict)
      let judge_once = |runner: &mut Runner| -> Acc {
        runner.timeout = std::time::Duration::from_secs(120);
        let mut acc = Acc::default();
        acc.programs += 1;
        let src1 = (p.make)(n1, "");
        // the longer run collects and counts what is alive at the end of iteration n1 and of iteration n2,
        // while the loop is still running
        let src2 = (p.make)(n2, &format!("if i == {} {{ heap_probe(); }} if i == {} {{ heap_probe(); }}", n1 - 1, n2 - 1));
        let fail = |acc: &mut Acc, what: String, src: &str| {
            acc.violations.push((format!("[{}] {}", p.describe, what), json!({"program": p.describe, "request": {"op": "run", "snippets": [src], "want": ["alloc_log", "gc_then_heap"]}, "problem": what})));
        };
        // run 1: allocation log + what survives a collection + what survives dropping the interpreter
        let o1 = run_prog(runner, &src1, &["alloc_log", "gc_then_heap"], true);
        let Some(r1) = o1.resp() else {
            fail(&mut acc, format!("run ended in {}", o1.describe()), &src1);
            return acc;
        };
        if !r1.config.starts_with("opt") {
            crate::pool::machinery_failure("C16 must run on the optimised runner");
        }
        if !matches!(r1.results.get(0).map(|x| &x.outcome), Some(proto::Outcome::Ok)) {
            fail(&mut acc, format!("program did not run: {:?}", r1.results.get(0)), &src1);
            return acc;
        }
        let (problem, events, collections, over) = check_log(&r1.alloc_log);
        acc.events += events;
        acc.collections += collections;
        acc.max_over = acc.max_over.max(over);
        if collections > 0 {
            acc.programs_with_collection += 1;
        }
        if idx % 211 == 0 {
            acc.samples.push(json!({"program": p.describe, "iterations": n1, "allocation_events": events, "collections": collections}));
        }
        if let Some(pb) = problem {
            fail(&mut acc, pb, &src1);
            return acc;
        }
        let h1 = r1.heap.clone().unwrap_or_default();
        if h1.bytes_allocated != h1.live_bytes {
            fail(&mut acc, format!("accounting: bytes_allocated {} but live objects sum to {}", h1.bytes_allocated, h1.live_bytes), &src1);
        }
        if let Some(hd) = &r1.heap_after_drop {
            if hd.objects != baseline {
                fail(&mut acc, format!("after dropping the interpreter and collecting, {} objects remain (a fresh interpreter leaves {}): {:?}", hd.objects, baseline, hd.by_type), &src1);
            }
        }
        // run 2: twice as many iterations must not leave more (non-retained) objects behind
        let o2 = run_prog(runner, &src2, &["gc_then_heap"], false);
        let Some(r2) = o2.resp() else {
            fail(&mut acc, format!("run with twice the iterations ended in {}", o2.describe()), &src2);
            return acc;
        };
        if !matches!(r2.results.get(0).map(|x| &x.outcome), Some(proto::Outcome::Ok)) {
            fail(&mut acc, format!("the run with twice the iterations did not end normally: {:?}", r2.results.get(0)), &src2);
            return acc;
        }
        if r2.probes.len() != 2 {
            crate::pool::machinery_failure(&format!("C16: {} heap probes came back, expected 2", r2.probes.len()));
        }
        let (pa, pb) = (non_retained(&r2.probes[0]), non_retained(&r2.probes[1]));
        if pa != pb {
            fail(&mut acc, format!("inside the loop, after a collection at the end of iteration {} these objects are alive: {:?}; at the end of iteration {}: {:?}", n1, pa, n2, pb), &src2);
        }
        let h2 = r2.heap.clone().unwrap_or_default();
        let (a, b) = (non_retained(&h1), non_retained(&h2));
        if a != b {
            fail(&mut acc, format!("live objects after {} iterations {:?} differ from those after {} iterations {:?}", n1, a, n2, b), &src2);
        }
        acc
      };
      let first = judge_once(runner);
      if first.violations.is_empty() {
          return first;
      }
      let second = judge_once(runner);
      if second.violations.is_empty() {
          nondeterministic.fetch_add(1, std::sync::atomic::Ordering::Relaxed);
          return second;
      }
      first
    });
    // (a program that fails once and passes once gives no verdict by itself; when other programs fail
    // both times the run has its verdict from them - a collector whose pacing depends on what the process
    // did before behaves exactly like this)
    if nondeterministic.load(std::sync::atomic::Ordering::Relaxed) > 0 && accs.iter().all(|a| a.violations.is_empty()) {
        crate::pool::machinery_failure(&format!("C16: {} programs failed once and passed when run again: the harness does not own all nondeterminism", nondeterministic.load(std::sync::atomic::Ordering::Relaxed)));
    }
    // what is left behind must not depend on how deep the recursion was that produced the one value kept:
    // the same program with the escaping closure made at depth 0 / 1 / 7 / 39 of a recursion in which
    // every level makes a closure over a local of its own
    let mut depth_violations: Vec<(String, serde_json::Value)> = Vec::new();
    {
        let mut r = Runner::new(ctx.runner_opt.clone());
        let mk = |depth: usize| format!("{}\nfn rec(d) {{ var big = [d, [d]]; var c = || big; if d == 0 {{ return c; }} return rec(d - 1); }}\nvar ring = [nil, nil, nil, nil];\nfor i in 0..200 {{ ring[i % 4] = rec({}); }}\nprint(\"done\");\n", PRELUDE, depth);
        let mut reference: Option<BTreeMap<String, usize>> = None;
        for depth in [0usize, 1, 7, 39] {
            let src = mk(depth);
            match run_prog(&mut r, &src, &["gc_then_heap"], false) {
                Obs::Resp(resp) => {
                    let left = non_retained(&resp.heap.clone().unwrap_or_default());
                    match &reference {
                        None => reference = Some(left),
                        Some(want) => {
                            if *want != left {
                                depth_violations.push((format!("[objects left behind vs recursion depth] keeping the closure from the bottom of a recursion of depth {} leaves {:?}; from depth 0 it leaves {:?}", depth, left, want), json!({"family": "left_behind_vs_recursion_depth", "source": src, "left": left, "reference": want})));
                            }
                        }
                    }
                }
                other => depth_violations.push((format!("[objects left behind vs recursion depth] run ended in {}", other.describe()), json!({"source": src}))),
            }
        }
    }
    // what a finished fiber keeps: a program that holds on to fibers that have run to their end (to ask
    // `has_finished`, say) keeps the fiber objects - not what their locals, temporaries and callees held.
    // The objects left behind by keeping twelve finished fibers must not depend on what their bodies did.
    {
        let mut r = Runner::new(ctx.runner_opt.clone());
        let bodies: [(&str, &str); 7] = [
            ("returns at once", "return 1;"),
            ("three locals", "var a = [1, 2, 3]; var b = (4, [5]); var c = {\"k\": [6]}; return 1;"),
            ("locals of a callee that returned", "fn inner() { var x = [[1], [2]]; return x.len(); } var n = inner(); return n;"),
            ("yielded twice before finishing", "var a = [1, 2, 3]; Fiber.yield(a); var b = [a, a]; Fiber.yield(b); return 1;"),
            ("a loop with a body local", "var t = 0; for i in 0..5 { var row = [i, [i]]; t += row[0]; } return t;"),
            ("finished through try/finally with a pending return", "try { var a = [1, [2]]; return a.len(); } finally { var z = [[3]]; }"),
            ("an instance and a closure", "var o = K.new(); o.f = [1, 2]; var c = || o; return c().f.len();"),
        ];
        let mk = |body: &str| format!("{}\nvar kept = [];\nfor i in 0..12 {{ var f = Fiber.new(|| {{ {} }}); while !f.has_finished() {{ f.call(); }} kept.push(f); }}\nprint(kept.len());\n", PRELUDE, body);
        let mut reference: Option<BTreeMap<String, usize>> = None;
        for (what, body) in bodies {
            let src = mk(body);
            match run_prog(&mut r, &src, &["gc_then_heap"], false) {
                Obs::Resp(resp) => {
                    let mut left = non_retained(&resp.heap.clone().unwrap_or_default());
                    // the bodies differ in their code: closures and functions are compiled code's business
                    // (and the interpreter keeps the last eight ranges at hand whoever made them)
                    left.retain(|k, _| !k.contains("ObjClosure") && !k.contains("ObjFunction") && !k.contains("ObjUpvalue") && !k.contains("ObjRange"));
                    match &reference {
                        None => reference = Some(left),
                        Some(want) => {
                            if *want != left {
                                depth_violations.push((format!("[what a finished fiber keeps] twelve kept fibers whose body `{}` leave {:?}; fibers that return at once leave {:?}", what, left, want), json!({"family": "what_a_finished_fiber_keeps", "source": src, "left": left, "reference": want})));
                            }
                        }
                    }
                }
                other => depth_violations.push((format!("[what a finished fiber keeps] run ended in {}", other.describe()), json!({"source": src}))),
            }
        }
    }
    let mut acc = Acc::default();
    acc.violations.extend(depth_violations);
    for a in accs {
        acc.programs += a.programs;
        acc.events += a.events;
        acc.collections += a.collections;
        acc.max_over = acc.max_over.max(a.max_over);
        acc.programs_with_collection += a.programs_with_collection;
        acc.violations.extend(a.violations);
        if acc.samples.len() < 4 {
            acc.samples.extend(a.samples);
        }
    }
    if acc.violations.is_empty() && acc.programs_with_collection * 10 < acc.programs * 9 {
        crate::pool::machinery_failure(&format!("C16: a collection was observed in only {} of {} programs", acc.programs_with_collection, acc.programs));
    }
    report.cov("evaluations", json!(acc.programs * 2));
    report.cov("states", json!(acc.events));
    report.cov("transitions", json!(acc.events));
    report.cov("traces_validated_against_impl", json!(acc.events));
    report.cov("distinct_nontrivial", json!(n_progs));
    report.cov("exhaustive", json!(true));
    report.cov("rule", json!("every loop program `for i in 0..n { body }` whose body is a multiset of one or two (three in the thorough tier) of 32 allocation kinds (incl. thrown objects caught, re-thrown through finally blocks, and given up because a finally block is left by break / continue), crossed with three live-set shapes (nothing kept, a ring of the last 4, a map under a rotating key), run in the optimised build: at every allocation event and every collection of the log the monitor checks (1) no allocation at or above the threshold without a collection, heap <= max(2 x survivors, 64 KiB) + that allocation; (2) threshold after a collection = 2 x survivors, a collection never grows the heap, accounting continuous between events; (3) a collection only when the threshold in effect was reached; at the end bytes_allocated = sum of live object sizes; after dropping the interpreter exactly a fresh interpreter's residue remains; n and 2n iterations leave the same live objects by type (interned strings and compiled code excluded), and so do two collections forced from inside the running loop at the end of iteration n and of iteration 2n; the objects left behind by keeping the closure from the bottom of a recursion do not depend on its depth (0, 1, 7, 39); the objects left behind by keeping twelve fibers that have run to their end do not depend on what their bodies did (locals, callees, yields, loops, try/finally, instances)."));
    report.cov("bounds", json!({"iterations": [n1, n2], "kinds": kinds().len(), "live_set_shapes": 3}));
    report.cov("programs", json!(n_progs));
    report.cov("allocation_events_checked", json!(acc.events));
    report.cov("collections_observed", json!(acc.collections));
    report.cov("programs_with_a_collection", json!(acc.programs_with_collection));
    report.cov("max_overshoot_bytes", json!(acc.max_over));
    report.cov("samples", json!(acc.samples));
    report.assumptions = vec!["the allocation log is written by feature-guarded hooks after the heap's own accounting; the build is the optimised (release) profile, where collection is threshold-paced".into()];
    report.violations.extend(acc.violations);
    crate::c12::run_cyclic_family(ctx, &mut report);
    report
}
