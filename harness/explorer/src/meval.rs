//! M-eval: the reference evaluator.  A tree-walking interpreter over the generators' AST, written
//! independently of the implementation's mechanisms (environments of heap cells instead of stack slots
//! and upvalues; class chain walks instead of copy-down tables; Rust `Result` for control flow instead
//! of handler stacks).  It defines only what the properties define.
use crate::ast::*;
use crate::mnat::{self, NErr};
use crate::mresolve::{Res, Resolution, Resolver};
use crate::mval::*;
use std::cell::{Cell, RefCell};
use std::collections::{BTreeMap, HashMap};
use std::rc::Rc;
use std::sync::Arc;

pub const FRAMES_MAX: usize = 64;

pub enum Ctl {
    Break,
    Continue,
    Return(V),
    Throw(V),
    /// the program left the modelled language (fuel, an (X) construct): the case is not judged
    Unsupported(String),
    /// an exception left a fiber's outermost frame: the whole run ends (no handler of the calling fiber
    /// sees it, no finally block runs)
    Abort(V, Vec<TraceEntry>),
}

pub type R<T> = Result<T, Ctl>;

#[derive(Clone, Debug)]
pub struct Frame {
    pub func: String,
    pub module: String,
    pub line: usize,
    /// true for frames of the built-in library written in the language itself (core.yl)
    pub core: bool,
}

#[derive(Clone, Debug, PartialEq, serde::Serialize, serde::Deserialize)]
pub struct TraceEntry {
    pub module: String,
    pub line: usize,
    pub func: String,
    pub core: bool,
}

#[derive(Clone, Debug, serde::Serialize, serde::Deserialize)]
pub struct Uncaught {
    /// class name for error instances, "exception" for other values
    pub class: String,
    /// text after "Unhandled <class>: " when the model defines it
    pub text: Option<String>,
    pub kind: String,
    pub trace: Vec<TraceEntry>,
}

#[derive(Clone, Debug, serde::Serialize, serde::Deserialize)]
pub enum Outcome {
    Ok,
    Uncaught(Uncaught),
    Unsupported(String),
}

/// Something that happened in the model's own execution; used to attribute disagreements to listed
/// findings (DESIGN.md 4.1).  `at` = number of lines printed when it happened.
#[derive(Clone, Debug, PartialEq)]
pub struct Event {
    pub name: &'static str,
    pub at: usize,
}

#[derive(Clone)]
pub struct ModuleSource {
    pub program: Option<Vec<Stmt>>,
    /// when the module is meant not to compile
    pub compile_error: bool,
}

struct Core {
    object: Rc<Class>,
    type_: Rc<Class>,
    nil: Rc<Class>,
    boolean: Rc<Class>,
    num: Rc<Class>,
    func: Rc<Class>,
    builtin: Rc<Class>,
    method: Rc<Class>,
    builtin_method: Rc<Class>,
    string: Rc<Class>,
    iter: Rc<Class>,
    tuple: Rc<Class>,
    tuple_iter: Rc<Class>,
    vec: Rc<Class>,
    vec_iter: Rc<Class>,
    range: Rc<Class>,
    range_iter: Rc<Class>,
    hash_map: Rc<Class>,
    module: Rc<Class>,
    string_iter: Rc<Class>,
    fiber: Rc<Class>,
    error: Rc<Class>,
    stop_iter: Rc<Class>,
    errors: BTreeMap<ErrKind, Rc<Class>>,
}

pub struct Interp<'a> {
    pub out: Vec<String>,
    pub events: Vec<Event>,
    pub fuel: u64,
    pub max_frames_seen: usize,
    res: Vec<Resolution>,
    modules: HashMap<String, Rc<Module>>,
    module_sources: &'a BTreeMap<String, ModuleSource>,
    loading: Vec<String>,
    frames: Vec<Frame>,
    /// saved frame stacks of the callers of the running fiber
    fiber_stack: Vec<Vec<Frame>>,
    core: Option<Core>,
    metaclasses: RefCell<HashMap<usize, Rc<Class>>>,
    keep_alive: Vec<Arc<Vec<Stmt>>>,
    /// depth of enclosing try statements being executed (for events)
    try_depth: Cell<usize>,
    last_throw: Vec<TraceEntry>,
    core_fn_ptrs: std::collections::HashSet<usize>,
}

impl<'a> Drop for Interp<'a> {
    /// A model run leaves reference cycles behind (module -> global function -> module; class -> method
    /// -> captured scope -> class; variable -> closure -> scope -> variable): empty the containers.
    fn drop(&mut self) {
        for m in self.modules.values() {
            m.globals.borrow_mut().clear();
        }
        for c in self.metaclasses.borrow().values() {
            c.methods.borrow_mut().clear();
            c.statics.borrow_mut().clear();
        }
        crate::mval::release_scopes();
    }
}

fn new_class(name: &str, parent: Option<Rc<Class>>) -> Rc<Class> {
    Rc::new(Class { name: name.to_string(), parent, methods: RefCell::new(HashMap::new()), statics: RefCell::new(HashMap::new()) })
}

fn native_class(name: &str, parent: &Rc<Class>, tag: &'static str, methods: &[&'static str]) -> Rc<Class> {
    let c = new_class(name, Some(parent.clone()));
    for m in methods {
        c.methods.borrow_mut().insert(m.to_string(), Method::Native(tag, m));
    }
    c
}

fn key<T>(t: &T) -> usize {
    t as *const T as usize
}

/// The part of the built-in library that is written in the language itself, as an AST (mirrors
/// core.yl: Error and its subclasses, StopIter, Iter, MapIter, FilterIter).
fn core_program() -> Vec<Stmt> {
    let mut p = Vec::new();
    p.push(class_stmt(
        "Error",
        None,
        None,
        vec![method(FnKind::Ctor, "new", &["context"], vec![expr_stmt(set(Expr::SelfRef, "context", var("context")))])],
    ));
    for n in ["RuntimeError", "AttributeError", "IndexError", "ImportError", "NameError", "TypeError", "ValueError"] {
        p.push(class_stmt(n, Some("Error"), None, vec![]));
    }
    p.push(class_stmt(
        "StopIter",
        Some("Error"),
        None,
        vec![method(FnKind::Ctor, "new", &[], vec![expr_stmt(Expr::SuperInvoke("new".into(), vec![Expr::Nil]))])],
    ));
    let ret = |e: Expr| st(StmtKind::Return(Some(e)));
    p.push(class_stmt(
        "Iter",
        None,
        None,
        vec![
            method(FnKind::Method, "iter", &[], vec![ret(Expr::SelfRef)]),
            method(FnKind::Method, "map", &["f"], vec![ret(invoke(var("MapIter"), "new", vec![invoke(Expr::SelfRef, "iter", vec![]), var("f")]))]),
            method(
                FnKind::Method,
                "collect",
                &[],
                vec![
                    var_stmt("ret", Expr::VecLit(vec![])),
                    st(StmtKind::For("v".into(), Expr::SelfRef, vec![expr_stmt(invoke(var("ret"), "push", vec![var("v")]))])),
                    ret(var("ret")),
                ],
            ),
            method(FnKind::Method, "filter", &["pred"], vec![ret(invoke(var("FilterIter"), "new", vec![invoke(Expr::SelfRef, "iter", vec![]), var("pred")]))]),
            method(
                FnKind::Method,
                "reduce",
                &["func", "init"],
                vec![
                    var_stmt("ret", var("init")),
                    st(StmtKind::For("v".into(), Expr::SelfRef, vec![expr_stmt(assign("ret", call(var("func"), vec![var("ret"), var("v")])))])),
                    ret(var("ret")),
                ],
            ),
        ],
    ));
    p.push(class_stmt(
        "MapIter",
        Some("Iter"),
        None,
        vec![
            method(
                FnKind::Ctor,
                "new",
                &["iterable", "func"],
                vec![expr_stmt(set(Expr::SelfRef, "iterable", var("iterable"))), expr_stmt(set(Expr::SelfRef, "func", var("func")))],
            ),
            method(FnKind::Method, "iter", &[], vec![ret(Expr::SelfRef)]),
            method(
                FnKind::Method,
                "next",
                &[],
                vec![
                    var_stmt("next", invoke(get(Expr::SelfRef, "iterable"), "next", vec![])),
                    st(StmtKind::If(invoke(var("next"), "derives", vec![var("StopIter")]), vec![ret(var("next"))], None)),
                    ret(invoke(Expr::SelfRef, "func", vec![var("next")])),
                ],
            ),
        ],
    ));
    p.push(class_stmt(
        "FilterIter",
        Some("Iter"),
        None,
        vec![
            method(
                FnKind::Ctor,
                "new",
                &["iterable", "predicate"],
                vec![expr_stmt(set(Expr::SelfRef, "iterable", var("iterable"))), expr_stmt(set(Expr::SelfRef, "predicate", var("predicate")))],
            ),
            method(FnKind::Method, "iter", &[], vec![ret(Expr::SelfRef)]),
            method(
                FnKind::Method,
                "next",
                &[],
                vec![
                    var_stmt("next", invoke(get(Expr::SelfRef, "iterable"), "next", vec![])),
                    st(StmtKind::While(
                        Expr::And(
                            Box::new(un(UnOp::Not, invoke(var("next"), "derives", vec![var("StopIter")]))),
                            Box::new(un(UnOp::Not, invoke(Expr::SelfRef, "predicate", vec![var("next")]))),
                        ),
                        vec![expr_stmt(assign("next", invoke(get(Expr::SelfRef, "iterable"), "next", vec![])))],
                    )),
                    ret(var("next")),
                ],
            ),
        ],
    ));
    p
}

impl<'a> Interp<'a> {
    pub fn new(module_sources: &'a BTreeMap<String, ModuleSource>) -> Interp<'a> {
        let mut it = Interp {
            out: Vec::new(),
            events: Vec::new(),
            fuel: 2_000_000,
            max_frames_seen: 0,
            res: Vec::new(),
            modules: HashMap::new(),
            module_sources,
            loading: Vec::new(),
            frames: Vec::new(),
            fiber_stack: Vec::new(),
            core: None,
            metaclasses: RefCell::new(HashMap::new()),
            keep_alive: Vec::new(),
            try_depth: Cell::new(0),
            last_throw: Vec::new(),
            core_fn_ptrs: Default::default(),
        };
        it.init_core();
        it
    }

    fn init_core(&mut self) {
        let object = new_class("Object", None);
        object.methods.borrow_mut().insert("derives".into(), Method::Native("Object", "derives"));
        let type_ = new_class("Type", Some(object.clone()));
        let main = Rc::new(Module { path: "main".into(), globals: RefCell::new(HashMap::new()), imported: Cell::new(true) });
        self.modules.insert("main".into(), main.clone());
        // run the language-level part of the library in "main" (with Object as the implicit parent)
        let prog = Arc::new(core_program());
        self.keep_alive.push(prog.clone());
        for s in prog.iter() {
            if let StmtKind::Class(c) = &s.kind {
                for m in &c.methods {
                    self.core_fn_ptrs.insert(Arc::as_ptr(m) as usize);
                }
            }
        }
        let res = Resolver::new().resolve_program(&prog);
        self.res.push(res);
        // temporary core with placeholders so class declarations can run
        let placeholder = new_class("?", None);
        let mut errors = BTreeMap::new();
        for k in [ErrKind::Attribute, ErrKind::Index, ErrKind::Import, ErrKind::Name, ErrKind::Runtime, ErrKind::Type, ErrKind::Value] {
            errors.insert(k, placeholder.clone());
        }
        let nat = |name: &str, tag: &'static str, methods: &[&'static str], parent: &Rc<Class>| native_class(name, parent, tag, methods);
        self.core = Some(Core {
            nil: nat("Nil", "", &[], &object),
            boolean: nat("Boolean", "", &[], &object),
            num: nat("Num", "", &[], &object),
            func: nat("Func", "", &[], &object),
            builtin: nat("BuiltIn", "", &[], &object),
            method: nat("Method", "", &[], &object),
            builtin_method: nat("BuiltInMethod", "", &[], &object),
            string: nat("String", "String", mnat::STRING_METHODS, &object),
            iter: placeholder.clone(),
            tuple: nat("Tuple", "Tuple", mnat::TUPLE_METHODS, &object),
            tuple_iter: placeholder.clone(),
            vec: nat("Vec", "Vec", mnat::VEC_METHODS, &object),
            vec_iter: placeholder.clone(),
            range: nat("Range", "Range", mnat::RANGE_METHODS, &object),
            range_iter: placeholder.clone(),
            hash_map: nat("HashMap", "HashMap", mnat::MAP_METHODS, &object),
            module: nat("Module", "", &[], &object),
            string_iter: placeholder.clone(),
            fiber: nat("Fiber", "Fiber", &["call", "has_finished"], &object),
            error: placeholder.clone(),
            stop_iter: placeholder.clone(),
            errors,
            object: object.clone(),
            type_: type_.clone(),
        });
        {
            let c = self.core.as_ref().unwrap();
            for s in ["from", "from_ascii", "from_utf8", "from_code_points"] {
                c.string.statics.borrow_mut().insert(s.to_string(), Method::Native("StringClass", s));
            }
            c.fiber.statics.borrow_mut().insert("new".into(), Method::Native("FiberClass", "new"));
            c.fiber.statics.borrow_mut().insert("yield".into(), Method::Native("FiberClass", "yield"));
        }
        self.frames.push(Frame { func: String::new(), module: "main".into(), line: 0, core: true });
        let env = Scope::new(None);
        env.declare(V::Nil);
        let prog2 = prog.clone();
        for s in prog2.iter() {
            if self.exec(s, &env, &main).is_err() {
                panic!("core program failed in the model");
            }
        }
        self.frames.pop();
        let g = |n: &str| -> Rc<Class> {
            match main.globals.borrow().get(n) {
                Some(V::Class(c)) => c.clone(),
                _ => panic!("core class {} missing", n),
            }
        };
        let iter = g("Iter");
        {
            let c = self.core.as_mut().unwrap();
            c.iter = iter.clone();
            c.error = g("Error");
            c.stop_iter = g("StopIter");
            c.errors.insert(ErrKind::Attribute, g("AttributeError"));
            c.errors.insert(ErrKind::Index, g("IndexError"));
            c.errors.insert(ErrKind::Import, g("ImportError"));
            c.errors.insert(ErrKind::Name, g("NameError"));
            c.errors.insert(ErrKind::Runtime, g("RuntimeError"));
            c.errors.insert(ErrKind::Type, g("TypeError"));
            c.errors.insert(ErrKind::Value, g("ValueError"));
            c.tuple_iter = native_class("TupleIter", &iter, "Iterator", &["next"]);
            c.vec_iter = native_class("VecIter", &iter, "Iterator", &["next"]);
            c.range_iter = native_class("RangeIter", &iter, "Iterator", &["next"]);
            c.string_iter = native_class("StringIter", &iter, "Iterator", &["next"]);
        }
        self.seed_builtins(&main);
    }

    fn seed_builtins(&self, m: &Rc<Module>) {
        let c = self.core.as_ref().unwrap();
        let mut g = m.globals.borrow_mut();
        for n in ["clock", "type", "print"] {
            g.insert(n.to_string(), V::Native(match n {
                "clock" => "clock",
                "type" => "type",
                _ => "print",
            }));
        }
        let classes: Vec<(&str, &Rc<Class>)> = vec![
            ("Type", &c.type_), ("Object", &c.object), ("Nil", &c.nil), ("Bool", &c.boolean), ("Num", &c.num), ("Func", &c.func),
            ("BuiltIn", &c.builtin), ("Method", &c.method), ("BuiltInMethod", &c.builtin_method), ("String", &c.string),
            ("Iter", &c.iter), ("Tuple", &c.tuple), ("Vec", &c.vec), ("Range", &c.range), ("HashMap", &c.hash_map), ("Fiber", &c.fiber),
            ("Error", &c.error), ("StopIter", &c.stop_iter),
        ];
        for (n, k) in classes {
            g.insert(n.to_string(), V::Class(k.clone()));
        }
        for (k, cls) in &c.errors {
            g.insert(k.class_name().to_string(), V::Class(cls.clone()));
        }
        let main = self.modules.get("main").unwrap();
        if !Rc::ptr_eq(main, m) {
            for n in ["MapIter", "FilterIter"] {
                if let Some(v) = main.globals.borrow().get(n) {
                    g.insert(n.to_string(), v.clone());
                }
            }
        }
    }

    fn core(&self) -> &Core {
        self.core.as_ref().unwrap()
    }

    // ---------------------------------------------------------------------------------------------
    // entry points

    /// Run a program as module "main" (a snippet on a reused interpreter: call again).
    pub fn run_main(&mut self, stmts: Arc<Vec<Stmt>>) -> Outcome {
        self.keep_alive.push(stmts.clone());
        let res = Resolver::new().resolve_program(&stmts);
        if let Some(u) = res.unsupported.first() {
            return Outcome::Unsupported(u.clone());
        }
        self.res.push(res);
        let main = self.modules.get("main").unwrap().clone();
        self.frames.clear();
        self.fiber_stack.clear();
        self.frames.push(Frame { func: String::new(), module: "main".into(), line: 0, core: false });
        let env = Scope::new(None);
        env.declare(V::Nil);
        let mut outcome = Outcome::Ok;
        for s in stmts.iter() {
            match self.exec(s, &env, &main) {
                Ok(()) => {}
                Err(Ctl::Throw(v)) => {
                    let trace = std::mem::take(&mut self.last_throw);
                    outcome = Outcome::Uncaught(self.describe_uncaught(&v, trace));
                    break;
                }
                Err(Ctl::Abort(v, trace)) => {
                    outcome = Outcome::Uncaught(self.describe_uncaught(&v, trace));
                    break;
                }
                Err(Ctl::Unsupported(why)) => {
                    outcome = Outcome::Unsupported(why);
                    break;
                }
                Err(_) => {
                    outcome = Outcome::Unsupported("break/continue/return escaped to top level".into());
                    break;
                }
            }
        }
        self.frames.clear();
        outcome
    }

    fn trace(&self) -> Vec<TraceEntry> {
        self.frames
            .iter()
            .rev()
            .map(|f| TraceEntry { module: f.module.clone(), line: f.line, func: f.func.clone(), core: f.core })
            .collect()
    }

    fn describe_uncaught(&self, v: &V, trace: Vec<TraceEntry>) -> Uncaught {
        match v {
            V::Instance(i) => {
                let c = self.core();
                let mut kind = "RuntimeError";
                for (k, cls) in &c.errors {
                    if Rc::ptr_eq(cls, &i.class) {
                        kind = k.class_name();
                    }
                }
                let text = match i.get_field("context") {
                    Some(V::Str(s)) if &*s == UNKNOWN_TEXT => None,
                    Some(ctx) => Some(display(&ctx)),
                    None => Some(display(v)),
                };
                Uncaught { class: i.class.name.clone(), text, kind: kind.to_string(), trace }
            }
            other => Uncaught { class: "exception".into(), text: Some(display(other)), kind: "RuntimeError".to_string(), trace },
        }
    }

    // ---------------------------------------------------------------------------------------------
    // errors

    fn throw_kind(&mut self, kind: ErrKind, msg: Option<String>) -> Ctl {
        self.last_throw = self.trace();
        let cls = self.core().errors.get(&kind).unwrap().clone();
        let inst = Rc::new(Inst { class: cls, fields: RefCell::new(Vec::new()) });
        inst.set_field("context", vstr(&msg.unwrap_or_else(|| UNKNOWN_TEXT.to_string())));
        Ctl::Throw(V::Instance(inst))
    }

    fn nerr(&mut self, e: NErr) -> Ctl {
        self.throw_kind(e.kind, e.msg)
    }

    fn event(&mut self, name: &'static str) {
        let at = self.out.len();
        self.events.push(Event { name, at });
    }

    fn burn(&mut self) -> R<()> {
        if self.fuel == 0 {
            return Err(Ctl::Unsupported("model fuel exhausted".into()));
        }
        self.fuel -= 1;
        Ok(())
    }

    // ---------------------------------------------------------------------------------------------
    // variables

    fn resolution(&self, k: usize) -> Option<Res> {
        for r in self.res.iter().rev() {
            if let Some(x) = r.at.get(&k) {
                return Some(*x);
            }
        }
        None
    }

    fn lambda_name(&self, k: usize) -> String {
        for r in self.res.iter().rev() {
            if let Some(x) = r.lambda_names.get(&k) {
                return x.clone();
            }
        }
        "lambda-?".into()
    }

    fn cell(&self, env: &Rc<Scope>, hops: usize, idx: usize) -> R<Rc<RefCell<V>>> {
        let mut s = env.clone();
        for _ in 0..hops {
            s = match &s.parent {
                Some(p) => p.clone(),
                None => return Err(Ctl::Unsupported("model scope chain too short".into())),
            };
        }
        let v = s.vars.borrow();
        match v.get(idx) {
            Some(c) => Ok(c.clone()),
            None => Err(Ctl::Unsupported("model variable not yet declared at run time".into())),
        }
    }

    fn get_var(&mut self, res: Res, name: &str, env: &Rc<Scope>, module: &Rc<Module>) -> R<V> {
        match res {
            Res::Local(h, i) => Ok(self.cell(env, h, i)?.borrow().clone()),
            Res::Global => match module.globals.borrow().get(name) {
                Some(v) => Ok(v.clone()),
                None => Err(self.throw_kind(ErrKind::Name, Some(format!("Undefined variable '{}'.", name)))),
            },
        }
    }

    fn set_var(&mut self, res: Res, name: &str, v: V, env: &Rc<Scope>, module: &Rc<Module>) -> R<()> {
        match res {
            Res::Local(h, i) => {
                *self.cell(env, h, i)?.borrow_mut() = v;
                Ok(())
            }
            Res::Global => {
                let mut g = module.globals.borrow_mut();
                if g.contains_key(name) {
                    g.insert(name.to_string(), v);
                    Ok(())
                } else {
                    drop(g);
                    Err(self.throw_kind(ErrKind::Name, Some(format!("Undefined variable '{}'.", name))))
                }
            }
        }
    }

    /// declare a variable where a declaration statement executes: global at top level of a module,
    /// else a new cell in the current scope
    fn declare(&self, name: &str, v: V, env: &Rc<Scope>, module: &Rc<Module>) {
        // only a module's root scope has no parent (every function scope hangs off its closure's scope)
        if env.parent.is_none() {
            module.globals.borrow_mut().insert(name.to_string(), v);
        } else {
            env.declare(v);
        }
    }
}

pub const UNKNOWN_TEXT: &str = "\u{1}<message text not defined by the model>";

// =====================================================================================================
// statements

impl<'a> Interp<'a> {
    fn set_line(&mut self, line: usize) {
        if let Some(f) = self.frames.last_mut() {
            f.line = line;
        }
    }

    fn exec_block(&mut self, stmts: &[Stmt], env: &Rc<Scope>, module: &Rc<Module>) -> R<()> {
        let scope = Scope::new(Some(env.clone()));
        for s in stmts {
            self.exec(s, &scope, module)?;
        }
        Ok(())
    }

    pub fn exec(&mut self, s: &Stmt, env: &Rc<Scope>, module: &Rc<Module>) -> R<()> {
        self.burn()?;
        self.set_line(s.line.get());
        match &s.kind {
            StmtKind::Expr(e) => {
                self.eval(e, env, module)?;
                Ok(())
            }
            StmtKind::Var(n, init) => {
                let v = match init {
                    Some(e) => self.eval(e, env, module)?,
                    None => V::Nil,
                };
                self.declare(n, v, env, module);
                Ok(())
            }
            StmtKind::Block(b) => self.exec_block(b, env, module),
            StmtKind::If(c, then, els) => {
                if self.eval(c, env, module)?.truthy() {
                    self.exec_block(then, env, module)
                } else if let Some(e) = els {
                    self.exec(e, env, module)
                } else {
                    Ok(())
                }
            }
            StmtKind::While(c, body) => {
                loop {
                    self.burn()?;
                    self.set_line(s.line.get());
                    if !self.eval(c, env, module)?.truthy() {
                        break;
                    }
                    match self.exec_block(body, env, module) {
                        Ok(()) | Err(Ctl::Continue) => {}
                        Err(Ctl::Break) => break,
                        Err(e) => return Err(e),
                    }
                }
                Ok(())
            }
            StmtKind::For(v, it, body) => {
                let scope = Scope::new(Some(env.clone()));
                let iterable = self.eval(it, &scope, module)?;
                let var_cell = scope.declare(V::Nil);
                let _ = v;
                let iter = self.invoke_value(&iterable, "iter", vec![])?;
                scope.declare(iter.clone());
                loop {
                    self.burn()?;
                    self.set_line(s.line.get());
                    let next = self.invoke_value(&iter, "next", vec![])?;
                    *var_cell.borrow_mut() = next.clone();
                    if let V::Instance(i) = &next {
                        if Rc::ptr_eq(&i.class, &self.core().stop_iter) {
                            break;
                        }
                    }
                    match self.exec_block(body, &scope, module) {
                        Ok(()) | Err(Ctl::Continue) => {}
                        Err(Ctl::Break) => break,
                        Err(e) => return Err(e),
                    }
                }
                Ok(())
            }
            StmtKind::Break => Err(Ctl::Break),
            StmtKind::Continue => Err(Ctl::Continue),
            StmtKind::Return(e) => {
                let v = match e {
                    Some(e) => self.eval(e, env, module)?,
                    None => V::Nil,
                };
                Err(Ctl::Return(v))
            }
            StmtKind::Throw(e) => {
                let v = self.eval(e, env, module)?;
                self.set_line(s.line.get());
                self.last_throw = self.trace();
                Err(Ctl::Throw(v))
            }
            StmtKind::Try(body, catch, finally) => {
                self.try_depth.set(self.try_depth.get() + 1);
                let depth_inside = self.try_depth.get();
                let mut r = self.exec_block(body, env, module);
                self.try_depth.set(depth_inside - 1);
                if matches!(r, Err(Ctl::Unsupported(_)) | Err(Ctl::Abort(..))) {
                    return r;
                }
                let _ = depth_inside;
                let mut via_exception = false;
                if let Err(Ctl::Throw(v)) = &r {
                    via_exception = true;
                    if let Some((_name, cb)) = catch {
                        let scope = Scope::new(Some(env.clone()));
                        scope.declare(v.clone());
                        // while the catch block runs, a handler routes every exit from it through the
                        // statement's finally block: the block counts as the inside of a try statement
                        self.try_depth.set(depth_inside);
                        let mut cr = Ok(());
                        for s in cb {
                            cr = self.exec(s, &scope, module);
                            if cr.is_err() {
                                break;
                            }
                        }
                        self.try_depth.set(depth_inside - 1);
                        if matches!(cr, Err(Ctl::Unsupported(_)) | Err(Ctl::Abort(..))) {
                            return cr;
                        }

                        via_exception = matches!(cr, Err(Ctl::Throw(_)));
                        r = cr;
                    }
                }
                if let Some(fb) = finally {
                    if via_exception {
                        self.event("finally_on_exception_path");
                    }
                    // the block may raise and handle exceptions of its own: the pending one keeps its trace
                    let saved_trace = if via_exception { Some(self.last_throw.clone()) } else { None };
                    let fr = self.exec_block(fb, env, module);
                    if let (Some(mut tr), Ok(())) = (saved_trace, &fr) {
                        // calls that the exception has left are no longer active when it is reported:
                        // the trace keeps the entries of this frame and its callers
                        let keep = self.frames.len();
                        if tr.len() > keep {
                            tr.drain(..tr.len() - keep);
                        }
                        self.last_throw = tr;
                    }
                    if fr.is_err() {
                        // an exception raised by the finally block, or a return / break / continue that
                        // leaves it, supersedes whatever outcome was waiting for the block to finish
                        return fr;
                    }
                }
                r
            }
            StmtKind::Fn(f) => {
                // the name is declared before the closure is created so the body can refer to it
                if env.parent.is_none() {
                    let c = self.make_closure(f, env, module);
                    module.globals.borrow_mut().insert(f.name.clone(), c);
                } else {
                    let cell = env.declare(V::Nil);
                    let c = self.make_closure(f, env, module);
                    *cell.borrow_mut() = c;
                }
                Ok(())
            }
            StmtKind::Class(c) => self.exec_class(c, env, module),
            StmtKind::Import(path, alias) => {
                let name = alias.clone().unwrap_or_else(|| path.rsplit('/').next().unwrap_or(path).to_string());
                let m = self.import(path)?;
                self.declare(&name, V::Module(m), env, module);
                Ok(())
            }
        }
    }

    fn make_closure(&self, f: &Arc<FnDecl>, env: &Rc<Scope>, module: &Rc<Module>) -> V {
        let name = if f.name.is_empty() { self.lambda_name(key(&**f)) } else { f.name.clone() };
        V::Closure(Rc::new(Closure { decl: f.clone(), name, env: Some(env.clone()), module: module.clone() }))
    }

    fn exec_class(&mut self, c: &Arc<ClassDecl>, env: &Rc<Scope>, module: &Rc<Module>) -> R<()> {
        // the name exists (holding nil) while the body is being defined
        let cell = if env.parent.is_none() {
            module.globals.borrow_mut().insert(c.name.clone(), V::Nil);
            None
        } else {
            Some(env.declare(V::Nil))
        };
        let mut parent = self.core().object.clone();
        let mut method_env = env.clone();
        if let Some(sup) = &c.superclass {
            let res = self.resolution(key(&**c)).unwrap_or(Res::Global);
            let sv = self.get_var(res, sup, env, module)?;
            let scope = Scope::new(Some(env.clone()));
            scope.declare(sv.clone());
            method_env = scope;
            match sv {
                V::Class(p) => parent = p,
                _ => return Err(self.throw_kind(ErrKind::Runtime, Some("Superclass must be a class.".into()))),
            }
        }
        let class = new_class(&c.name, Some(parent));
        if let Some(ctor) = &c.default_ctor {
            let decl = Arc::new(FnDecl { name: ctor.clone(), params: vec![], body: FnBody::Block(vec![]), kind: FnKind::Ctor, line: crate::ast::Cell::new(0) });
            let clo = Rc::new(Closure { decl, name: ctor.clone(), env: Some(method_env.clone()), module: module.clone() });
            class.methods.borrow_mut().insert(ctor.clone(), Method::Closure(clo.clone()));
            class.statics.borrow_mut().insert(ctor.clone(), Method::Closure(clo));
        }
        for m in &c.methods {
            let clo = Rc::new(Closure { decl: m.clone(), name: m.name.clone(), env: Some(method_env.clone()), module: module.clone() });
            class.methods.borrow_mut().insert(m.name.clone(), Method::Closure(clo.clone()));
            if matches!(m.kind, FnKind::Static | FnKind::Ctor) {
                class.statics.borrow_mut().insert(m.name.clone(), Method::Closure(clo));
            } else {
                class.statics.borrow_mut().remove(&m.name);
            }
        }
        let v = V::Class(class);
        match cell {
            Some(cell) => *cell.borrow_mut() = v,
            None => {
                module.globals.borrow_mut().insert(c.name.clone(), v);
            }
        }
        Ok(())
    }

    fn import(&mut self, path: &str) -> R<Rc<Module>> {
        if let Some(m) = self.modules.get(path) {
            if m.imported.get() {
                return Ok(m.clone());
            }
            return Err(self.throw_kind(ErrKind::Import, Some(format!("Circular dependency encountered when importing module '{}'.", path))));
        }
        let src = match self.module_sources.get(path) {
            None => return Err(self.throw_kind(ErrKind::Import, Some(format!("Unable to read file '{}.yl' (file not found).", path)))),
            Some(s) => s,
        };
        if src.compile_error {
            return Err(self.throw_kind(ErrKind::Import, None));
        }
        let prog: Arc<Vec<Stmt>> = Arc::new(src.program.clone().unwrap_or_default());
        // cloning gives new node addresses: resolve the clone that is kept alive and executed
        self.keep_alive.push(prog.clone());
        let res = Resolver::new().resolve_program(&prog);
        if let Some(u) = res.unsupported.first() {
            return Err(Ctl::Unsupported(u.clone()));
        }
        self.res.push(res);
        let m = Rc::new(Module { path: path.to_string(), globals: RefCell::new(HashMap::new()), imported: Cell::new(false) });
        self.seed_builtins(&m);
        self.modules.insert(path.to_string(), m.clone());
        if self.frames.len() >= FRAMES_MAX {
            // the body never started: nothing was loaded
            self.modules.remove(path);
            return Err(self.throw_kind(ErrKind::Index, Some("Stack overflow.".into())));
        }
        self.frames.push(Frame { func: String::new(), module: path.to_string(), line: 0, core: false });
        self.max_frames_seen = self.max_frames_seen.max(self.frames.len());
        let env = Scope::new(None);
        env.declare(V::Nil);
        let mut result = Ok(());
        for s in prog.iter() {
            result = self.exec(s, &env, &m);
            if result.is_err() {
                break;
            }
        }
        match result {
            Ok(()) => {
                self.frames.pop();
                m.imported.set(true);
                Ok(m)
            }
            Err(Ctl::Throw(v)) => {
                // a module whose top-level code was abandoned has not been loaded: it is forgotten, and a
                // later import of the same path starts afresh.  The trace was captured when the value was
                // thrown.
                self.event("module_body_threw");
                self.frames.pop();
                self.modules.remove(path);
                Err(Ctl::Throw(v))
            }
            Err(e) => Err(e),
        }
    }
}

// =====================================================================================================
// expressions

fn sat_i64(n: f64) -> i64 {
    // Rust's saturating float-to-int conversion, NaN -> 0
    if n.is_nan() {
        0
    } else if n >= 9223372036854775807.0 {
        i64::MAX
    } else if n <= -9223372036854775808.0 {
        i64::MIN
    } else {
        n as i64
    }
}

fn sat_u32(n: f64) -> u32 {
    if n.is_nan() || n <= 0.0 {
        0
    } else if n >= 4294967295.0 {
        u32::MAX
    } else {
        n as u32
    }
}

impl<'a> Interp<'a> {
    fn eval_list(&mut self, es: &[Expr], env: &Rc<Scope>, module: &Rc<Module>) -> R<Vec<V>> {
        let mut out = Vec::with_capacity(es.len());
        for e in es {
            out.push(self.eval(e, env, module)?);
        }
        Ok(out)
    }

    pub fn binary(&mut self, op: BinOp, a: V, b: V) -> R<V> {
        use BinOp::*;
        match op {
            Eq => return Ok(V::Bool(values_equal(&a, &b))),
            Ne => return Ok(V::Bool(!values_equal(&a, &b))),
            Add => {
                return match (&a, &b) {
                    (V::Num(x), V::Num(y)) => Ok(V::Num(x + y)),
                    (V::Str(x), V::Str(y)) => Ok(vstr(&format!("{}{}", x, y))),
                    _ => Err(self.throw_kind(ErrKind::Type, Some("Binary operands must be two numbers or two strings.".into()))),
                }
            }
            Range => {
                // the end operand is validated first
                let e = mnat::validate_integer(&b).map_err(|e| self.nerr(e))?;
                let s = mnat::validate_integer(&a).map_err(|e| self.nerr(e))?;
                return Ok(V::Range(s, e));
            }
            _ => {}
        }
        let (x, y) = match (&a, &b) {
            (V::Num(x), V::Num(y)) => (*x, *y),
            _ => return Err(self.throw_kind(ErrKind::Type, Some("Binary operands must both be numbers.".into()))),
        };
        Ok(match op {
            Sub => V::Num(x - y),
            Mul => V::Num(x * y),
            Div => V::Num(x / y),
            Mod => V::Num(x % y),
            Lt => V::Bool(x < y),
            Gt => V::Bool(x > y),
            // (Q) `<=` is defined as not `>` and `>=` as not `<` (so both are true for NaN operands)
            Le => V::Bool(!(x > y)),
            Ge => V::Bool(!(x < y)),
            BitAnd => V::Num((sat_i64(x) & sat_i64(y)) as f64),
            BitOr => V::Num((sat_i64(x) | sat_i64(y)) as f64),
            BitXor => V::Num((sat_i64(x) ^ sat_i64(y)) as f64),
            Shl => {
                let s = sat_u32(y);
                V::Num(if s >= 64 { 0 } else { ((sat_i64(x) as u64) << s) as i64 } as f64)
            }
            Shr => {
                let s = sat_u32(y);
                V::Num(if s >= 64 { 0 } else { sat_i64(x) >> s } as f64)
            }
            Eq | Ne | Add | Range => unreachable!(),
        })
    }

    pub fn eval(&mut self, e: &Expr, env: &Rc<Scope>, module: &Rc<Module>) -> R<V> {
        self.burn()?;
        match e {
            Expr::Nil => Ok(V::Nil),
            Expr::True => Ok(V::Bool(true)),
            Expr::False => Ok(V::Bool(false)),
            Expr::Num(n) => Ok(V::Num(*n)),
            Expr::RawNum(_, n) => Ok(V::Num(*n)),
            Expr::Str(s) => Ok(vstr(s)),
            Expr::RawStr(_, v) => Ok(vstr(v)),
            Expr::Interp(parts) => {
                let mut out = String::new();
                for p in parts {
                    match p {
                        Part::Lit(t) => out.push_str(t),
                        Part::Expr(e) => {
                            let v = self.eval(e, env, module)?;
                            out.push_str(&display(&v));
                        }
                    }
                }
                Ok(vstr(&out))
            }
            Expr::Paren(a) => self.eval(a, env, module),
            Expr::Var(n) => {
                let r = self.resolution(key(e)).unwrap_or(Res::Global);
                self.get_var(r, n, env, module)
            }
            Expr::Assign(n, v) => {
                let r = self.resolution(key(e)).unwrap_or(Res::Global);
                let val = self.eval(v, env, module)?;
                self.set_var(r, n, val.clone(), env, module)?;
                Ok(val)
            }
            Expr::CompoundAssign(n, op, v) => {
                let r = self.resolution(key(e)).unwrap_or(Res::Global);
                let old = self.get_var(r, n, env, module)?;
                let rhs = self.eval(v, env, module)?;
                let val = self.binary(*op, old, rhs)?;
                self.set_var(r, n, val.clone(), env, module)?;
                Ok(val)
            }
            Expr::Unary(op, a) => {
                let v = self.eval(a, env, module)?;
                match op {
                    UnOp::Not => Ok(V::Bool(!v.truthy())),
                    UnOp::Neg => match v {
                        V::Num(n) => Ok(V::Num(-n)),
                        _ => Err(self.throw_kind(ErrKind::Type, Some("Unary operand must be a number.".into()))),
                    },
                    UnOp::BitNot => match v {
                        V::Num(n) => Ok(V::Num(!sat_i64(n) as f64)),
                        _ => Err(self.throw_kind(ErrKind::Type, Some("Unary operand must be a number.".into()))),
                    },
                }
            }
            Expr::Binary(op, a, b) => {
                let x = self.eval(a, env, module)?;
                let y = self.eval(b, env, module)?;
                self.binary(*op, x, y)
            }
            Expr::And(a, b) => {
                let x = self.eval(a, env, module)?;
                if !x.truthy() {
                    Ok(x)
                } else {
                    self.eval(b, env, module)
                }
            }
            Expr::Or(a, b) => {
                let x = self.eval(a, env, module)?;
                if x.truthy() {
                    Ok(x)
                } else {
                    self.eval(b, env, module)
                }
            }
            Expr::Call(f, args) => {
                let callee = self.eval(f, env, module)?;
                let argv = self.eval_list(args, env, module)?;
                self.call_value(&callee, argv)
            }
            Expr::Invoke(r, name, args) => {
                let recv = self.eval(r, env, module)?;
                let argv = self.eval_list(args, env, module)?;
                self.invoke_value(&recv, name, argv)
            }
            Expr::Get(r, name) => {
                let recv = self.eval(r, env, module)?;
                self.get_property(&recv, name)
            }
            Expr::Set(r, name, v) => {
                let recv = self.eval(r, env, module)?;
                let val = self.eval(v, env, module)?;
                self.set_property(&recv, name, val.clone())?;
                Ok(val)
            }
            Expr::CompoundSet(r, name, op, v) => {
                let recv = self.eval(r, env, module)?;
                let old = self.get_property(&recv, name)?;
                let rhs = self.eval(v, env, module)?;
                let val = self.binary(*op, old, rhs)?;
                self.set_property(&recv, name, val.clone())?;
                Ok(val)
            }
            Expr::Index(a, i) => {
                let recv = self.eval(a, env, module)?;
                let idx = self.eval(i, env, module)?;
                self.get_item(&recv, &idx)
            }
            Expr::SetIndex(a, i, v) => {
                let recv = self.eval(a, env, module)?;
                let idx = self.eval(i, env, module)?;
                let val = self.eval(v, env, module)?;
                match &recv {
                    V::Vec(items) => {
                        let len = items.borrow().len() as i64;
                        let k = mnat::bounded_index(&idx, len).map_err(|e| self.nerr(e))?;
                        items.borrow_mut()[k] = val;
                        Ok(V::Nil)
                    }
                    _ => Err(self.throw_kind(ErrKind::Type, Some("Only Vec objects are index-assignable.".into()))),
                }
            }
            Expr::VecLit(items) => {
                let v = self.eval_list(items, env, module)?;
                Ok(V::Vec(Rc::new(RefCell::new(v))))
            }
            Expr::TupleLit(items) => {
                let v = self.eval_list(items, env, module)?;
                Ok(V::Tuple(Rc::new(v)))
            }
            Expr::MapLit(items) => {
                let mut kv = Vec::new();
                for (k, v) in items {
                    let kk = self.eval(k, env, module)?;
                    let vv = self.eval(v, env, module)?;
                    kv.push((kk, vv));
                }
                let mut m: Vec<(V, V)> = Vec::new();
                for (k, v) in kv {
                    if !k.hashable() {
                        return Err(self.throw_kind(ErrKind::Value, None));
                    }
                    mnat::map_insert(&mut m, k, v);
                }
                Ok(V::Map(Rc::new(RefCell::new(m))))
            }
            Expr::Lambda(f) => Ok(self.make_closure(f, env, module)),
            Expr::SelfRef => {
                let r = self.resolution(key(e)).unwrap_or(Res::Global);
                self.get_var(r, "self", env, module)
            }
            Expr::CapSelf => {
                let r = self.resolution(key(e)).unwrap_or(Res::Global);
                let v = self.get_var(r, "Self", env, module)?;
                Ok(match v {
                    V::Class(_) => v,
                    other => V::Class(self.class_of(&other)),
                })
            }
            Expr::SuperGet(name) => {
                let recv = self.super_receiver(e, env, module)?;
                let sup = self.super_class(e, env, module)?;
                self.bind_from_class(&sup, &recv, name)
            }
            Expr::SuperInvoke(name, args) => {
                let recv = self.super_receiver(e, env, module)?;
                let argv = self.eval_list(args, env, module)?;
                let sup = self.super_class(e, env, module)?;
                match sup.find_method(name) {
                    Some(m) => self.call_method(&m, recv, argv),
                    None => Err(self.throw_kind(ErrKind::Attribute, Some(format!("Undefined property '{}'.", name)))),
                }
            }
        }
    }

    fn super_receiver(&mut self, e: &Expr, env: &Rc<Scope>, module: &Rc<Module>) -> R<V> {
        let r = self.res.iter().rev().find_map(|r| r.super_recv.get(&key(e)).copied()).unwrap_or(Res::Global);
        self.get_var(r, "self", env, module)
    }

    fn super_class(&mut self, e: &Expr, env: &Rc<Scope>, module: &Rc<Module>) -> R<Rc<Class>> {
        let r = self.resolution(key(e)).unwrap_or(Res::Global);
        match self.get_var(r, "super", env, module)? {
            V::Class(c) => Ok(c),
            _ => Err(Ctl::Unsupported("super is not a class".into())),
        }
    }

    // ---------------------------------------------------------------------------------------------
    // classes, properties, calls

    fn metaclass_of(&self, c: &Rc<Class>) -> Rc<Class> {
        let k = Rc::as_ptr(c) as usize;
        if let Some(m) = self.metaclasses.borrow().get(&k) {
            return m.clone();
        }
        // a class object's own class: holds the static methods defined in that class; its parent is Object
        let name = if c.statics.borrow().is_empty() && self.is_plain_core_class(c) { "Type".to_string() } else { format!("{}Class", c.name) };
        let m = new_class(&name, Some(self.core().object.clone()));
        *m.methods.borrow_mut() = c.statics.borrow().clone();
        self.metaclasses.borrow_mut().insert(k, m.clone());
        m
    }

    fn is_plain_core_class(&self, c: &Rc<Class>) -> bool {
        let k = self.core();
        [&k.object, &k.type_, &k.nil, &k.boolean, &k.num, &k.func, &k.builtin, &k.method, &k.builtin_method, &k.tuple, &k.tuple_iter, &k.vec, &k.vec_iter, &k.range, &k.range_iter, &k.hash_map, &k.module, &k.string_iter]
            .iter()
            .any(|x| Rc::ptr_eq(x, c))
    }

    pub fn class_of(&self, v: &V) -> Rc<Class> {
        let c = self.core();
        match v {
            V::Nil => c.nil.clone(),
            V::Bool(_) => c.boolean.clone(),
            V::Num(_) => c.num.clone(),
            V::Str(_) => c.string.clone(),
            V::Vec(_) => c.vec.clone(),
            V::Tuple(_) => c.tuple.clone(),
            V::Range(..) => c.range.clone(),
            V::Map(_) => c.hash_map.clone(),
            V::Closure(_) => c.func.clone(),
            V::Native(_) => c.builtin.clone(),
            V::BoundMethod(_) => c.method.clone(),
            V::BoundNative(_) => c.builtin_method.clone(),
            V::Class(k) => self.metaclass_of(k),
            V::Instance(i) => i.class.clone(),
            V::Module(_) => c.module.clone(),
            V::Iter(it) => match &*it.borrow() {
                NativeIter::Vec(..) => c.vec_iter.clone(),
                NativeIter::Tuple(..) => c.tuple_iter.clone(),
                NativeIter::Range { .. } => c.range_iter.clone(),
                NativeIter::Str(..) => c.string_iter.clone(),
            },
            V::Fiber(_) => c.fiber.clone(),
        }
    }

    fn bind_from_class(&mut self, class: &Rc<Class>, recv: &V, name: &str) -> R<V> {
        match class.find_method(name) {
            Some(Method::Closure(c)) => Ok(V::BoundMethod(Rc::new((recv.clone(), c)))),
            Some(Method::Native(tag, n)) => Ok(V::BoundNative(Rc::new((recv.clone(), tag, n)))),
            None => Err(self.throw_kind(ErrKind::Attribute, Some(format!("Undefined property '{}'.", name)))),
        }
    }

    pub fn get_property(&mut self, recv: &V, name: &str) -> R<V> {
        if let V::Instance(i) = recv {
            if let Some(v) = i.get_field(name) {
                return Ok(v);
            }
        }
        if let V::Module(m) = recv {
            if let Some(v) = m.globals.borrow().get(name) {
                return Ok(v.clone());
            }
        }
        let class = self.class_of(recv);
        self.bind_from_class(&class, recv, name)
    }

    fn set_property(&mut self, recv: &V, name: &str, v: V) -> R<()> {
        match recv {
            V::Module(m) => {
                m.globals.borrow_mut().insert(name.to_string(), v);
                Ok(())
            }
            V::Instance(i) => {
                i.set_field(name, v);
                Ok(())
            }
            _ => Err(self.throw_kind(ErrKind::Attribute, Some("Only instances have fields.".into()))),
        }
    }

    fn get_item(&mut self, recv: &V, idx: &V) -> R<V> {
        let r = match recv {
            V::Str(s) => mnat::string_index(s, idx),
            V::Tuple(t) => mnat::seq_index(t, idx, &|v| V::Tuple(Rc::new(v))),
            V::Vec(items) => {
                let b = items.borrow().clone();
                mnat::seq_index(&b, idx, &|v| V::Vec(Rc::new(RefCell::new(v))))
            }
            _ => Err(mnat::nerr(ErrKind::Type)),
        };
        r.map_err(|e| self.nerr(e))
    }

    pub fn invoke_value(&mut self, recv: &V, name: &str, args: Vec<V>) -> R<V> {
        let class = match recv {
            V::Instance(i) => {
                if let Some(f) = i.get_field(name) {
                    return self.call_value(&f, args);
                }
                i.class.clone()
            }
            V::Module(m) => {
                let g = m.globals.borrow().get(name).cloned();
                if let Some(f) = g {
                    return self.call_value(&f, args);
                }
                self.core().module.clone()
            }
            other => self.class_of(other),
        };
        match class.find_method(name) {
            Some(m) => self.call_method(&m, recv.clone(), args),
            None => Err(self.throw_kind(ErrKind::Attribute, Some(format!("Undefined property '{}'.", name)))),
        }
    }

    fn call_method(&mut self, m: &Method, recv: V, args: Vec<V>) -> R<V> {
        match m {
            Method::Closure(c) => self.call_closure(c, recv, args),
            Method::Native(tag, name) => self.call_native_method(tag, name, recv, args),
        }
    }

    pub fn call_value(&mut self, callee: &V, args: Vec<V>) -> R<V> {
        match callee {
            V::BoundMethod(b) => self.call_closure(&b.1, b.0.clone(), args),
            V::BoundNative(b) => self.call_native_method(b.1, b.2, b.0.clone(), args),
            V::Closure(c) => self.call_closure(c, callee.clone(), args),
            V::Native(n) => self.call_global_native(n, args),
            _ => Err(self.throw_kind(ErrKind::Type, Some("Can only call functions and methods.".into()))),
        }
    }

    fn call_closure(&mut self, c: &Rc<Closure>, slot0: V, args: Vec<V>) -> R<V> {
        self.burn()?;
        let decl = c.decl.clone();
        if decl.params.len() != args.len() {
            return Err(self.throw_kind(ErrKind::Type, Some(format!("Expected {} arguments but found {}.", decl.params.len(), args.len()))));
        }
        if self.frames.len() >= FRAMES_MAX {
            return Err(self.throw_kind(ErrKind::Index, Some("Stack overflow.".into())));
        }
        let scope = Scope::new(c.env.clone());
        // a constructor invoked through its class makes the new instance; invoked on an instance
        // (super.new(..), x.new(..)) it initialises that instance
        let mut slot0 = slot0;
        if decl.kind == FnKind::Ctor {
            if let V::Class(k) = &slot0 {
                slot0 = V::Instance(Rc::new(Inst { class: k.clone(), fields: RefCell::new(Vec::new()) }));
            }
        }
        let self_cell = scope.declare(slot0);
        for a in args {
            scope.declare(a);
        }
        let is_core = self.keep_alive.first().map(|p| {
            // functions of the language-level library were created while running the core program
            c.module.path == "main" && self.core_fn_ptrs.contains(&(Arc::as_ptr(&c.decl) as usize)) && !p.is_empty()
        }).unwrap_or(false);
        self.frames.push(Frame { func: c.name.clone(), module: c.module.path.clone(), line: decl.line.get(), core: is_core });
        self.max_frames_seen = self.max_frames_seen.max(self.frames.len());
        let saved_try = self.try_depth.replace(0);
        let module = c.module.clone();
        let result = match &decl.body {
            FnBody::Expr(e) => self.eval(e, &scope, &module),
            FnBody::Block(b) => {
                let mut r: R<V> = Ok(V::Nil);
                for s in b {
                    match self.exec(s, &scope, &module) {
                        Ok(()) => {}
                        Err(Ctl::Return(v)) => {
                            r = Ok(v);
                            break;
                        }
                        Err(Ctl::Break) | Err(Ctl::Continue) => {
                            r = Err(Ctl::Unsupported("break/continue escaped a function".into()));
                            break;
                        }
                        Err(e) => {
                            r = Err(e);
                            break;
                        }
                    }
                }
                r
            }
        };
        self.try_depth.set(saved_try);
        self.frames.pop();
        let v = result?;
        if decl.kind == FnKind::Ctor {
            // a constructor returns the instance whatever its body returns
            return Ok(self_cell.borrow().clone());
        }
        Ok(v)
    }

    fn call_global_native(&mut self, name: &str, args: Vec<V>) -> R<V> {
        match name {
            "print" => {
                if args.len() != 1 {
                    return Err(self.throw_kind(ErrKind::Type, Some("Expected one argument to 'print'.".into())));
                }
                self.out.push(display(&args[0]));
                Ok(V::Nil)
            }
            "type" => {
                if args.len() != 1 {
                    return Err(self.throw_kind(ErrKind::Type, Some(format!("Expected 1 parameter but found {}.", args.len()))));
                }
                Ok(V::Class(self.class_of(&args[0])))
            }
            _ => Err(Ctl::Unsupported(format!("native {} is outside the model", name))),
        }
    }

    fn stop_iter_instance(&mut self) -> V {
        let inst = Rc::new(Inst { class: self.core().stop_iter.clone(), fields: RefCell::new(Vec::new()) });
        inst.set_field("context", V::Nil);
        V::Instance(inst)
    }

    fn call_native_method(&mut self, tag: &str, name: &str, recv: V, args: Vec<V>) -> R<V> {
        let r: Result<V, NErr> = match (tag, &recv) {
            ("Object", _) => {
                if args.len() != 1 {
                    Err(NErr { kind: ErrKind::Type, msg: Some(format!("Expected 1 parameter but found {}.", args.len())) })
                } else {
                    match &args[0] {
                        V::Class(q) => Ok(V::Bool(self.class_of(&recv).derives(q))),
                        _ => Err(mnat::nerr(ErrKind::Value)),
                    }
                }
            }
            ("String", V::Str(s)) => mnat::string_method(s, name, &args),
            ("StringClass", _) => mnat::string_static(name, &args),
            ("Vec", V::Vec(v)) => mnat::vec_method(v, name, &args),
            ("Tuple", V::Tuple(t)) => mnat::tuple_method(t, name, &args),
            ("Range", V::Range(b, e)) => mnat::range_method(*b, *e, name, &args),
            ("HashMap", V::Map(m)) => mnat::map_method(m, name, &args),
            ("Iterator", V::Iter(it)) => {
                if !args.is_empty() {
                    Err(NErr { kind: ErrKind::Type, msg: Some(format!("Expected 0 parameters but found {}.", args.len())) })
                } else {
                    match mnat::iter_next(it) {
                        Some(v) => Ok(v),
                        None => Ok(self.stop_iter_instance()),
                    }
                }
            }
            ("FiberClass", _) => return self.fiber_static(name, args),
            ("Fiber", V::Fiber(f)) => return self.fiber_method(f, name, args),
            _ => {
                // a native reached with a receiver of the wrong representation (through a class derived
                // from a built-in class): the implementation's behaviour is a listed C02 finding
                self.event("native_on_foreign_receiver");
                return Err(Ctl::Unsupported("native method on a receiver of another representation".into()));
            }
        };
        r.map_err(|e| self.nerr(e))
    }

    fn fiber_static(&mut self, name: &str, args: Vec<V>) -> R<V> {
        match name {
            "new" => {
                if args.len() != 1 {
                    return Err(self.throw_kind(ErrKind::Type, Some(format!("Expected 1 parameter but found {}.", args.len()))));
                }
                match &args[0] {
                    V::Closure(c) => {
                        if c.decl.params.len() > 1 {
                            return Err(self.throw_kind(ErrKind::Value, Some("Fiber expects a closure that accepts at most 1 parameter.".into())));
                        }
                        Ok(V::Fiber(Rc::new(FiberObj { closure: c.clone(), state: Cell::new(0) })))
                    }
                    _ => Err(self.throw_kind(ErrKind::Type, None)),
                }
            }
            _ => Err(Ctl::Unsupported("Fiber.yield is modelled by M-fiber, not M-eval".into())),
        }
    }

    fn fiber_method(&mut self, f: &Rc<FiberObj>, name: &str, args: Vec<V>) -> R<V> {
        match name {
            "has_finished" => {
                if !args.is_empty() {
                    return Err(self.throw_kind(ErrKind::Type, None));
                }
                Ok(V::Bool(f.state.get() == 2))
            }
            "call" => {
                match f.state.get() {
                    2 => return Err(self.throw_kind(ErrKind::Runtime, Some("Cannot call a finished fiber.".into()))),
                    1 => return Err(self.throw_kind(ErrKind::Runtime, Some("Cannot call a fiber that has already been called.".into()))),
                    _ => {}
                }
                if args.len() != f.closure.decl.params.len() {
                    return Err(self.throw_kind(ErrKind::Type, None));
                }
                f.state.set(1);
                let saved = std::mem::take(&mut self.frames);
                self.fiber_stack.push(saved);
                let callee = V::Closure(f.closure.clone());
                let r = self.call_closure(&f.closure, callee, args);
                self.frames = self.fiber_stack.pop().unwrap();
                f.state.set(2);
                match r {
                    Ok(v) => Ok(v),
                    Err(Ctl::Throw(v)) => {
                        let trace = std::mem::take(&mut self.last_throw);
                        Err(Ctl::Abort(v, trace))
                    }
                    Err(e) => Err(e),
                }
            }
            _ => Err(self.throw_kind(ErrKind::Attribute, None)),
        }
    }
}
