//! C17 — errors carry the right class, message and source lines.
use crate::ast::*;
use crate::c08::{leaf_stmts, Leaf};
use crate::common::*;
use crate::diff::CmpOpts;
use crate::mcheck::{self, Case, Hooks};
use crate::meval::{ModuleSource, Outcome};
use crate::pool::{par_map, Obs};
use proto::Request;
use serde_json::json;
use std::collections::BTreeMap;

#[derive(Clone, Copy, Debug, PartialEq)]
enum Link {
    Function,
    Method,
    Static,
    Lambda,
    Ctor,
    MapCallback,
    ReduceCallback,
    Fiber,
}
const LINKS: [Link; 8] = [Link::Function, Link::Method, Link::Static, Link::Lambda, Link::Ctor, Link::MapCallback, Link::ReduceCallback, Link::Fiber];

#[derive(Clone, Copy, Debug, PartialEq)]
enum Bottom {
    Here,
    ModuleFunction,
    ModuleBody,
}

const FAILS: [Leaf; 12] = [
    Leaf::ThrowStr, Leaf::ThrowNum, Leaf::ThrowError, Leaf::ThrowUser, Leaf::TypeErr, Leaf::IndexErr, Leaf::NameErr, Leaf::AttrErr,
    Leaf::ValueErr, Leaf::RuntimeErr, Leaf::Deep(1), Leaf::Deep(2),
];

fn pad(k: usize) -> Stmt {
    var_stmt(&format!("pad{}", k), num(k as f64))
}

fn user_err() -> Stmt {
    class_stmt("MyErr", Some("Error"), None, vec![method(FnKind::Ctor, "new", &["c"], vec![expr_stmt(Expr::SuperInvoke("new".into(), vec![var("c")]))])])
}

fn throwers() -> Vec<Stmt> {
    vec![
        fn_stmt(func("thr1", &[], vec![pad(90), st(StmtKind::Throw(s("deep")))])),
        fn_stmt(func("thr2", &[], vec![pad(91), pad(92), expr_stmt(call(var("thr1"), vec![])), pad(93)])),
    ]
}

/// Build the program for a chain (outermost link first) with the failing statement at the bottom.
/// Returns (statements of main, modules).
fn build(chain: &[Link], bottom: Bottom, fail: Leaf, wrap_caught: bool) -> (Vec<Stmt>, BTreeMap<String, ModuleSource>) {
    build_with_history(chain, bottom, fail, wrap_caught, None)
}

const HISTORIES: usize = 7;
const WRAP_FINALLY: usize = 100;

/// an exception that was raised and completely handled before the failing statement runs
fn history(kind: usize) -> Vec<Stmt> {
    let catch = |k: usize| Some(("h".to_string(), vec![pad(k)]));
    match kind {
        0 => vec![st(StmtKind::Try(vec![pad(60), st(StmtKind::Throw(s("handled")))], catch(61), None))],
        1 => vec![st(StmtKind::Try(vec![expr_stmt(call(var("thr1"), vec![]))], catch(62), None))],
        2 => vec![st(StmtKind::Try(vec![expr_stmt(index(Expr::VecLit(vec![]), num(0.0)))], catch(63), None))],
        3 => vec![st(StmtKind::Try(vec![st(StmtKind::Try(vec![st(StmtKind::Throw(s("handled after finally")))], None, Some(vec![pad(64)])))], catch(65), None))],
        // thrown by a function of another module and caught here: what follows in this frame - names
        // looked up, functions made - still belongs to this frame's module
        6 => vec![block(vec![
            st(StmtKind::Import("hmod".into(), Some("hm6".into()))),
            st(StmtKind::Try(vec![expr_stmt(invoke(var("hm6"), "boom", vec![]))], catch(68), None)),
        ])],
        5 => vec![
            // another fiber handled an exception in a callee-thrown form and ran to its end
            var_stmt("hg", invoke(var("Fiber"), "new", vec![lambda_block(&[], vec![st(StmtKind::Try(vec![expr_stmt(call(var("thr1"), vec![]))], catch(69), None))])])),
            expr_stmt(invoke(var("hg"), "call", vec![])),
        ],
        _ => vec![st(StmtKind::For("h".into(), Expr::VecLit(vec![num(1.0), num(2.0)]), vec![st(StmtKind::Try(vec![st(StmtKind::If(bin(BinOp::Eq, var("h"), num(1.0)), vec![st(StmtKind::Throw(s("handled in loop")))], None)), pad(66)], catch(67), None))]))],
    }
}

/// `hist` = (kind, position): position 0 is the script's top level, k in 1..=chain.len() the body of
/// chain[k-1], chain.len()+1 the module function / module body at the bottom.
fn build_with_history(chain: &[Link], bottom: Bottom, fail: Leaf, wrap_caught: bool, hist: Option<(usize, usize)>) -> (Vec<Stmt>, BTreeMap<String, ModuleSource>) {
    let hist_at = |pos: usize| -> Vec<Stmt> {
        match hist {
            Some((kind, p)) if p == pos && kind < WRAP_FINALLY => history(kind),
            _ => vec![],
        }
    };
    // kinds >= WRAP_FINALLY: the action at that position runs inside try { .. } finally { .. }
    // (WRAP_FINALLY + 1: inside two nested ones), so the uncaught error passes through finally blocks
    let wrap_at = |pos: usize, action: Vec<Stmt>| -> Vec<Stmt> {
        match hist {
            Some((kind, p)) if p == pos && kind >= WRAP_FINALLY => {
                let inner = st(StmtKind::Try(action, None, Some(vec![pad(80)])));
                if kind == WRAP_FINALLY {
                    vec![inner]
                } else {
                    vec![st(StmtKind::Try(vec![pad(81), inner], None, Some(vec![pad(82), print_stmt(s("outer finally"))])))]
                }
            }
            _ => action,
        }
    };
    let mut modules = BTreeMap::new();
    let mut defs: Vec<Stmt> = vec![user_err()];
    defs.extend(throwers());
    // the innermost action
    let mut action: Vec<Stmt> = match bottom {
        Bottom::Here => wrap_at(chain.len() + 1, leaf_stmts(fail)),
        Bottom::ModuleFunction => {
            let mut body = vec![pad(70)];
            body.extend(hist_at(chain.len() + 1));
            body.extend(wrap_at(chain.len() + 1, leaf_stmts(fail)));
            let mut m = vec![pad(71), user_err()];
            m.extend(throwers());
            m.push(fn_stmt(func("mf", &[], body)));
            modules.insert("mod_fn".to_string(), ModuleSource { program: Some(m), compile_error: false });
            defs.push(st(StmtKind::Import("mod_fn".into(), None)));
            vec![expr_stmt(invoke(var("mod_fn"), "mf", vec![]))]
        }
        Bottom::ModuleBody => {
            let mut m = vec![pad(72), pad(73), user_err()];
            m.extend(throwers());
            m.extend(hist_at(chain.len() + 1));
            m.extend(wrap_at(chain.len() + 1, leaf_stmts(fail)));
            modules.insert("mod_body".to_string(), ModuleSource { program: Some(m), compile_error: false });
            vec![st(StmtKind::Import("mod_body".into(), None))]
        }
    };
    // wrap bottom-up
    for (k, link) in chain.iter().enumerate().rev() {
        let mut body = vec![pad(k * 10 + 1)];
        body.extend(hist_at(k + 1));
        body.extend(wrap_at(k + 1, action));
        body.push(pad(k * 10 + 2));
        let (def, callexpr): (Vec<Stmt>, Expr) = match link {
            Link::Function => {
                let n = format!("f{}", k);
                (vec![fn_stmt(func(&n, &[], body))], call(var(&n), vec![]))
            }
            Link::Method => {
                let n = format!("C{}", k);
                (vec![class_stmt(&n, None, Some("new"), vec![method(FnKind::Method, "meth", &[], body)])], invoke(invoke(var(&n), "new", vec![]), "meth", vec![]))
            }
            Link::Static => {
                let n = format!("S{}", k);
                (vec![class_stmt(&n, None, None, vec![method(FnKind::Static, "stat", &[], body)])], invoke(var(&n), "stat", vec![]))
            }
            Link::Lambda => {
                let n = format!("l{}", k);
                (vec![var_stmt(&n, lambda_block(&[], body))], call(var(&n), vec![]))
            }
            Link::Ctor => {
                let n = format!("D{}", k);
                (vec![class_stmt(&n, None, None, vec![method(FnKind::Ctor, "new", &[], body)])], invoke(var(&n), "new", vec![]))
            }
            Link::MapCallback => {
                let n = format!("cb{}", k);
                let mut b = body;
                b.push(st(StmtKind::Return(Some(var("e")))));
                (vec![var_stmt(&n, lambda_block(&["e"], b))], invoke(invoke(invoke(Expr::VecLit(vec![num(1.0)]), "iter", vec![]), "map", vec![var(&n)]), "collect", vec![]))
            }
            Link::ReduceCallback => {
                let n = format!("rd{}", k);
                let mut b = body;
                b.push(st(StmtKind::Return(Some(var("acc")))));
                (vec![var_stmt(&n, lambda_block(&["acc", "e"], b))], invoke(invoke(Expr::VecLit(vec![num(1.0)]), "iter", vec![]), "reduce", vec![var(&n), num(0.0)]))
            }
            Link::Fiber => {
                let n = format!("fib{}", k);
                (vec![var_stmt(&n, invoke(var("Fiber"), "new", vec![lambda_block(&[], body)]))], invoke(var(&n), "call", vec![]))
            }
        };
        defs.extend(def);
        action = vec![expr_stmt(callexpr)];
    }
    let mut main = defs;
    main.push(pad(100));
    main.extend(hist_at(0));
    let action = wrap_at(0, action);
    if wrap_caught {
        main.push(st(StmtKind::Try(action, Some(("e".into(), vec![print_stmt(call(var("type"), vec![var("e")]))])), None)));
    } else {
        main.extend(action);
    }
    main.push(print_stmt(s("not reached when uncaught")));
    if matches!(hist, Some((6, _))) {
        modules.insert("hmod".to_string(), ModuleSource { program: Some(vec![pad(90), fn_stmt(func("boom", &[], vec![pad(91), st(StmtKind::Throw(s("handled, from another module")))]))]), compile_error: false });
    }
    (main, modules)
}

fn chains(max_depth: usize, links: &[Link]) -> Vec<Vec<Link>> {
    let mut all = vec![vec![]];
    let mut frontier: Vec<Vec<Link>> = vec![vec![]];
    for _ in 0..max_depth {
        let mut next = Vec::new();
        for c in &frontier {
            for l in links {
                let mut v = c.clone();
                v.push(*l);
                next.push(v);
            }
        }
        all.extend(next.iter().cloned());
        frontier = next;
    }
    all
}

/// the failing statement runs after an earlier exception was handled in one of the active frames
fn after_handled_cases(thorough: bool) -> Vec<Case> {
    let mut out = Vec::new();
    let fails: Vec<Leaf> = if thorough { FAILS.to_vec() } else { vec![Leaf::ThrowStr, Leaf::TypeErr, Leaf::NameErr, Leaf::Deep(1)] };
    for chain in chains(if thorough { 3 } else { 2 }, &LINKS) {
        if thorough && chain.len() == 3 && (chain[0] == chain[1] || chain[1] == chain[2]) {
            continue;
        }
        for &fail in &fails {
            for bottom in [Bottom::Here, Bottom::ModuleFunction, Bottom::ModuleBody] {
                if bottom != Bottom::Here && chain.len() > 1 {
                    continue;
                }
                let positions = chain.len() + if bottom == Bottom::Here { 1 } else { 2 };
                // (for Bottom::Here the failing statement sits in the innermost link's body: position
                // chain.len()+1 wraps the statement itself, position chain.len() the same body's call - the
                // wrapper positions run to chain.len()+1 for every bottom)
                for pos in 0..=chain.len() + 1 {
                    for kind in [WRAP_FINALLY, WRAP_FINALLY + 1] {
                        let (prog, modules) = build_with_history(&chain, bottom, fail, false, Some((kind, pos)));
                        let mut c = Case::new("R_uncaught_trace_through_finally", prog);
                        c.modules = modules;
                        c.opts = CmpOpts { trace: true, kind: true };
                        out.push(c);
                    }
                }
                for pos in 0..positions {
                    for kind in 0..HISTORIES {
                        let (prog, modules) = build_with_history(&chain, bottom, fail, false, Some((kind, pos)));
                        let mut c = Case::new("R_uncaught_trace_after_handled_exception", prog);
                        c.modules = modules;
                        c.opts = CmpOpts { trace: true, kind: true };
                        out.push(c);
                    }
                }
            }
        }
    }
    out
}

fn runtime_cases(thorough: bool) -> Vec<Case> {
    let mut out = after_handled_cases(thorough);
    let depth = if thorough { 4 } else { 3 };
    let links: Vec<Link> = if thorough { LINKS.to_vec() } else { LINKS.to_vec() };
    for chain in chains(depth, &links) {
        // the quick tier takes every chain up to depth 2 and, at depth 3, those without repeated kinds
        if !thorough && chain.len() == 3 && (chain[0] == chain[1] || chain[1] == chain[2] || chain[0] == chain[2]) {
            continue;
        }
        if thorough && chain.len() == 4 && (chain[0] == chain[1] || chain[1] == chain[2] || chain[2] == chain[3]) {
            continue;
        }
        let fails: Vec<Leaf> = if chain.len() <= 1 || thorough {
            FAILS.to_vec()
        } else if chain.len() == 2 {
            vec![Leaf::ThrowStr, Leaf::ThrowUser, Leaf::TypeErr, Leaf::NameErr, Leaf::Deep(2)]
        } else {
            vec![Leaf::ThrowUser, Leaf::IndexErr]
        };
        for fail in fails {
            for bottom in [Bottom::Here, Bottom::ModuleFunction, Bottom::ModuleBody] {
                if bottom != Bottom::Here && chain.len() > 2 && !thorough {
                    continue;
                }
                // a fiber cannot be started from inside a module body that is still loading? it can; but the
                // module-body form with a fiber link above it is the same frames cut: keep it
                let (prog, modules) = build(&chain, bottom, fail, false);
                let mut c = Case::new("R_uncaught_trace", prog);
                c.modules = modules;
                c.opts = CmpOpts { trace: true, kind: true };
                out.push(c);
                if bottom == Bottom::ModuleBody && chain.iter().any(|l| *l == Link::Fiber) {
                    continue;
                }
                if !chain.iter().any(|l| *l == Link::Fiber) {
                    let (prog, modules) = build(&chain, bottom, fail, true);
                    let mut c = Case::new("R_caught_class", prog);
                    c.modules = modules;
                    out.push(c);
                }
            }
        }
    }
    out
}

/// caught == uncaught on the implementation itself (no table of message texts anywhere): the class
/// and `context` a handler observes are exactly what the uncaught report prints.
fn caught_equals_uncaught(ctx: &Ctx, report: &mut Report) -> (usize, usize) {
    let stmts: Vec<(&str, &str)> = vec![
        ("type error", "1 + nil;"),
        ("index error", "[][0];"),
        ("name error", "undefined_name;"),
        ("attribute error", "nil.nothing;"),
        ("value error", "1..0.5;"),
        ("runtime error", "[].pop();"),
        ("call arity", "(|a| a)();"),
        ("not callable", "nil();"),
        ("string index", "\"h\u{e9}\"[2];"),
        ("import missing", "import \"does_not_exist\";"),
        ("finished fiber", "var f = Fiber.new(|| 1); f.call(); f.call();"),
        ("yield outside", "Fiber.yield(1);"),
        ("set field on number", "1.x = 2;"),
        ("unhashable key", "var m = {[1]: 2};"),
        ("stack overflow", "fn r() { r(); } r();"),
        ("thrown string", "throw \"plain\";"),
        ("thrown instance", "throw Error.new(\"ctx text\");"),
        ("thrown instance multi-line", "throw Error.new(\"two\\nlines\");"),
        ("native raise TypeError", "raise_TypeError();"),
        ("native raise ValueError", "raise_ValueError();"),
        ("native raise IndexError", "raise_IndexError();"),
        ("native raise NameError", "raise_NameError();"),
        ("native raise AttributeError", "raise_AttributeError();"),
        ("native raise ImportError", "raise_ImportError();"),
        ("native raise RuntimeError", "raise_RuntimeError();"),
        ("native raise CompileError", "raise_CompileError();"),
    ];
    let natives: Vec<String> = ["AttributeError", "CompileError", "ImportError", "IndexError", "NameError", "RuntimeError", "TypeError", "ValueError"].iter().map(|k| format!("raise:{}", k)).collect();
    let natives_ref = &natives;
    let results = par_map(&ctx.runner_checked, ctx.workers.min(8), stmts.into_iter(), |runner, _i, (name, stmt)| {
        let caught = format!("try {{\n  {}\n}} catch e {{\n  print(type(e));\n  if e.derives(Error) {{ print(e.context); }} else {{ print(e); }}\n}}\n", stmt);
        let uncaught = format!("{}\n", stmt);
        let mut run = |src: &str| -> Obs {
            let mut req = Request { op: "run".into(), snippets: vec![src.to_string()], natives: natives_ref.clone(), fuel: Some(1_000_000), ..Default::default() };
            runner.call(&mut req)
        };
        let a = run(&caught);
        let b = run(&uncaught);
        let ra = a.resp().and_then(|r| r.results.get(0).cloned());
        let rb = b.resp().and_then(|r| r.results.get(0).cloned());
        let problem = match (ra, rb) {
            (Some(ra), Some(rb)) => match (&ra.outcome, &rb.outcome) {
                (proto::Outcome::Ok, proto::Outcome::Err { kind, messages }) => {
                    if ra.out.len() != 2 {
                        Some(format!("handler printed {:?}", ra.out))
                    } else {
                        let class = ra.out[0].trim_start_matches("<class ").trim_end_matches('>').to_string();
                        let is_instance = !["String", "Num"].contains(&class.as_str());
                        let expect_head = if is_instance { format!("Unhandled {}: {}", class, ra.out[1]) } else { format!("Unhandled exception: {}", ra.out[1]) };
                        let want: Vec<&str> = expect_head.lines().collect();
                        let got: Vec<&str> = messages.iter().take(want.len()).map(|s| s.as_str()).collect();
                        let core = ["AttributeError", "ImportError", "IndexError", "NameError", "RuntimeError", "TypeError", "ValueError"];
                        let want_kind = if core.contains(&class.as_str()) { class.as_str() } else { "RuntimeError" };
                        if want != got {
                            Some(format!("uncaught report {:?} differs from what a handler observes ({:?})", got, want))
                        } else if kind != want_kind {
                            Some(format!("uncaught error kind {} differs from the class a handler observes ({})", kind, class))
                        } else if name.starts_with("native raise ") {
                            let k = name.trim_start_matches("native raise ");
                            let wc = if k == "CompileError" { "RuntimeError" } else { k };
                            if class != wc {
                                Some(format!("host native error of kind {} surfaced as class {}", k, class))
                            } else {
                                None
                            }
                        } else {
                            None
                        }
                    }
                }
                (x, y) => Some(format!("caught variant ended {:?}, uncaught variant ended {:?}", x, y)),
            },
            (x, y) => Some(format!("no result: caught {:?}, uncaught {:?}", x.is_some(), y.is_some())),
        };
        (name, caught, uncaught, problem)
    });
    let n = results.len();
    let mut bad = 0;
    for (name, caught, uncaught, problem) in results {
        if let Some(p) = problem {
            bad += 1;
            report.violations.push((format!("[caught==uncaught: {}] {}", name, p), json!({"family": "caught_equals_uncaught", "caught_source": caught, "uncaught_source": uncaught, "problem": p})));
        }
    }
    (n, bad)
}

fn base_lines() -> Vec<&'static str> {
    vec![
        "// a comment line",
        "var a = 1;",
        "var text = \"a string",
        "that spans",
        "three lines\";",
        "fn f(x) {",
        "  // comment inside",
        "  var y = x + 1;",
        "  if y > 1 {",
        "    print(y);",
        "  } else {",
        "    print(\"small ${y} value\");",
        "  }",
        "  return y;",
        "}",
        "class K {",
        "  fn m(self) {",
        "    return 1;",
        "  }",
        "}",
        "for i in 0..2 {",
        "  print(i);",
        "}",
        "try {",
        "  f(1);",
        "} catch e {",
        "  print(e);",
        "}",
        "print(a);",
    ]
}

/// compile errors name the line of the offending token: one stray token injected before every
/// statement of a valid multi-line program
/// first lines for programs placed far down a long file (around 2^8, 2^15, 2^16 and 2^17, and well past)
const FAR_LINES: [usize; 11] = [255, 256, 32766, 32767, 32768, 65534, 65535, 65536, 65537, 70000, 131071];

/// every fortieth program of the run-time families, its first statement on each of the far lines: classes,
/// messages and every trace entry's line as M-eval gives them
fn far_line_cases() -> Vec<Case> {
    let mut out = Vec::new();
    for (i, c) in runtime_cases(false).into_iter().enumerate() {
        if i % 40 != 7 {
            continue;
        }
        for first in FAR_LINES {
            let mut k = Case::new("R_far_down_a_long_file", c.prog.clone());
            k.modules = c.modules.clone();
            k.opts = c.opts;
            k.note = c.note.clone();
            k.first_line = first;
            out.push(k);
        }
    }
    out
}


/// Error classes declared by the program, one to three levels below each built-in error class: an instance
/// thrown and not caught is reported under its own class (the class a handler observes with `type`), with
/// its message, whatever it derives from and however deep; also thrown from a function, through a finally
/// block, and as the context-less instance of a class without constructor arguments.
fn user_error_classes() -> Vec<Case> {
    let mut out = Vec::new();
    for base in ["Error", "RuntimeError", "TypeError", "ValueError", "IndexError", "NameError", "AttributeError", "ImportError"] {
        for depth in 1..=3usize {
            for shape in 0..4usize {
                let names = ["AppError", "ParseError", "DigitError"];
                let mut prog: Vec<Stmt> = Vec::new();
                for level in 0..depth {
                    let parent = if level == 0 { base } else { names[level - 1] };
                    prog.push(class_stmt(names[level], Some(parent), None, vec![method(FnKind::Ctor, "new", &["c"], vec![expr_stmt(Expr::SuperInvoke("new".into(), vec![var("c")]))])]));
                }
                let leaf = names[depth - 1];
                let thrown = invoke(var(leaf), "new", vec![s(&format!("{} raised at depth {}", leaf, depth))]);
                // the handler's view first
                prog.push(st(StmtKind::Try(
                    vec![st(StmtKind::Throw(thrown.clone()))],
                    Some(("e".into(), vec![print_stmt(call(var("type"), vec![var("e")])), print_stmt(get(var("e"), "context")), print_stmt(invoke(var("e"), "derives", vec![var(base)])), print_stmt(invoke(var("e"), "derives", vec![var("Error")]))])),
                    None,
                )));
                match shape {
                    0 => prog.push(st(StmtKind::Throw(thrown))),
                    1 => {
                        prog.push(fn_stmt(func("raise", &[], vec![pad(1), st(StmtKind::Throw(thrown))])));
                        prog.push(pad(2));
                        prog.push(expr_stmt(call(var("raise"), vec![])));
                    }
                    2 => {
                        prog.push(fn_stmt(func("raise", &[], vec![st(StmtKind::Try(vec![st(StmtKind::Throw(thrown))], None, Some(vec![print_stmt(s("cleanup"))])))])));
                        prog.push(expr_stmt(call(var("raise"), vec![])));
                    }
                    _ => {
                        // rethrown by a handler
                        prog.push(st(StmtKind::Try(vec![st(StmtKind::Throw(thrown))], Some(("again".into(), vec![print_stmt(s("passing it on")), st(StmtKind::Throw(var("again")))])), None)));
                    }
                }
                let mut c = Case::new("R_program_declared_error_classes", prog);
                c.opts = CmpOpts { trace: true, kind: false };
                out.push(c);
            }
        }
    }
    out
}


/// Thrown values whose description has an unusual shape - empty, blank, one or several line breaks, a line
/// break at the end - as a string, as the message of an Error and of a program-declared error class, and an
/// instance without a message at all: left uncaught at top level, in a function and through a finally block.
/// The report's first line is `Unhandled <class>: <first line of the description>`, the description's
/// further lines follow, then the trace.
fn description_shapes() -> Vec<Case> {
    let mut out = Vec::new();
    let texts = ["", " ", "\n", "a\nb", "a\n", "\n\nz", "one\ntwo\nthree", "tab\there", "\u{e9}\u{20ac}", "trailing space "];
    for text in texts {
        for kind in 0..4usize {
            for shape in 0..3usize {
                let mut prog: Vec<Stmt> = vec![
                    class_stmt("OwnError", Some("Error"), None, vec![method(FnKind::Ctor, "new", &["c"], vec![expr_stmt(Expr::SuperInvoke("new".into(), vec![var("c")]))])]),
                    class_stmt("Bare", None, Some("new"), vec![]),
                ];
                let thrown = match kind {
                    0 => s(text),
                    1 => invoke(var("Error"), "new", vec![s(text)]),
                    2 => invoke(var("OwnError"), "new", vec![s(text)]),
                    _ => invoke(var("Bare"), "new", vec![]),
                };
                if kind == 3 && text != "" {
                    continue;
                }
                match shape {
                    0 => prog.push(st(StmtKind::Throw(thrown))),
                    1 => {
                        prog.push(fn_stmt(func("raise", &[], vec![pad(1), st(StmtKind::Throw(thrown))])));
                        prog.push(expr_stmt(call(var("raise"), vec![])));
                    }
                    _ => {
                        prog.push(st(StmtKind::Try(vec![st(StmtKind::Throw(thrown))], None, Some(vec![print_stmt(s("cleanup"))]))));
                    }
                }
                let mut c = Case::new("R_descriptions_of_every_shape", prog);
                c.opts = CmpOpts { trace: shape != 2, kind: false };
                out.push(c);
            }
        }
    }
    out
}

fn compile_error_lines(ctx: &Ctx, report: &mut Report) -> usize {
    let base = base_lines();
    // statement starts (index into `base`, 0-based) where a new statement may begin
    let starts = [1usize, 2, 5, 7, 8, 9, 11, 13, 15, 17, 20, 21, 23, 24, 26, 28];
    let strays = [")", "]", "catch", "else", "in", "finally", ":", ",", "=", "==", ".", "..", "*", "as"];
    let mut cases: Vec<(String, usize, String)> = Vec::new();
    for &at in &starts {
        for t in strays {
            // `finally` right after a try/catch statement would simply become its finally clause
            if t == "finally" && at == 28 {
                continue;
            }
            // class bodies only accept methods: a stray token there is reported at its own line too
            let mut lines: Vec<String> = base.iter().map(|l| l.to_string()).collect();
            lines.insert(at, t.to_string());
            cases.push((lines.join("\n") + "\n", at + 1, t.to_string()));
        }
    }
    // the same far down a long file: the stray token on a line around every power of two a narrow line
    // counter could wrap at
    for pad in FAR_LINES {
        for t in [")", "catch", "=="] {
            let mut lines: Vec<String> = base.iter().map(|l| l.to_string()).collect();
            lines.insert(5, t.to_string());
            cases.push(("\n".repeat(pad - 1) + &lines.join("\n") + "\n", pad + 5, t.to_string()));
        }
    }
    // after a string whose escape sequence runs into the end of its line (the escape is reported; the lines
    // it swallowed still count): the stray token further down is reported on its own line
    // (a backslash or a dollar sign as the last character of the line: the string ends there with an error, and
    // the second line is a comment)
    for esc in ["\\x", "\\xA", "\\u00", "\\u004", "\\U0000", "\\U000000", "\\", "$", "text \\", "text $"] {
        for t in [")", "catch", "=="] {
            let second = if esc.ends_with('\\') || esc.ends_with('$') { "// \";" } else { "\";" };
            let mut lines: Vec<String> = vec![format!("var broken = \"{}", esc), second.to_string()];
            lines.extend(base.iter().map(|l| l.to_string()));
            lines.insert(7, t.to_string());
            cases.push((lines.join("\n") + "\n", 8, t.to_string()));
        }
    }
    let n = cases.len();
    let results = par_map(&ctx.runner_checked, ctx.workers.min(8), cases.into_iter(), |runner, _i, (src, line, tok)| {
        let mut req = Request { op: "compile".into(), snippets: vec![src.clone()], ..Default::default() };
        let obs = runner.call(&mut req);
        let problem = match obs.resp().and_then(|r| r.results.get(0).cloned()) {
            Some(r) => match r.outcome {
                proto::Outcome::Err { kind, messages } => {
                    let want = format!("[module \"main\", line {}] Error at '{}'", line, tok);
                    if kind != "CompileError" {
                        Some(format!("kind {}", kind))
                    } else if src.starts_with("var broken") {
                        // (the broken string is reported first; what it says is not compared)
                        if messages.iter().skip(1).any(|m| m.starts_with(&want)) {
                            None
                        } else {
                            Some(format!("no message after the first of {:?} starts with {:?}", messages, want))
                        }
                    } else if !messages.get(0).map(|m| m.starts_with(&want)).unwrap_or(false) {
                        Some(format!("first message {:?} does not start with {:?}", messages.get(0), want))
                    } else {
                        None
                    }
                }
                other => Some(format!("a program with a stray `{}` on line {} was not rejected: {:?}", tok, line, other)),
            },
            None => Some(format!("compile ended in {}", obs.describe())),
        };
        (src, problem)
    });
    for (src, problem) in results {
        if let Some(p) = problem {
            report.violations.push((format!("[compile error line] {}", p), json!({"family": "compile_error_line", "source": src, "problem": p})));
        }
    }
    n
}

/// An import that fails because the module does not compile reports the module's compile error - module
/// name, line of the offending token, the token - every time it is attempted: at top level, in a function,
/// in a fiber, under an alias, after a successful import of another module, uncaught at the end, and once
/// more by a second program on the same interpreter.  Missing modules likewise.
fn import_error_messages(ctx: &Ctx, report: &mut Report) -> usize {
    let base = base_lines();
    let starts = [1usize, 5, 8, 13, 17, 21, 24, 28];
    let strays = [")", "catch", "=", "..", "as"];
    let mut cases: Vec<(String, usize, String)> = Vec::new();
    for &at in &starts {
        for tk in strays {
            let mut lines: Vec<String> = base.iter().map(|l| l.to_string()).collect();
            lines.insert(at, tk.to_string());
            cases.push((lines.join("\n") + "\n", at + 1, tk.to_string()));
        }
    }
    let main = [
        "fn load() { import \"bad\"; return bad; }",
        "fn report(e) { print(type(e)); print(e.context); }",
        "try { import \"bad\"; } catch e { report(e); }",
        "try { load(); } catch e { report(e); }",
        "import \"good\";",
        "try { import \"bad\" as other; } catch e { report(e); }",
        "Fiber.new(|| { try { import \"bad\"; } catch e { report(e); } }).call();",
        "try { import \"nowhere\"; } catch e { report(e); }",
        "try { load(); } catch e { report(e); }",
        "try { import \"nowhere\"; } catch e { report(e); }",
        "try { print(bad); } catch e { print(type(e)); }",
        "import \"bad\";",
    ]
    .join("\n")
        + "\n";
    let n = cases.len();
    let main_ref = &main;
    let results = par_map(&ctx.runner_checked, ctx.workers.min(8), cases.into_iter(), |runner, _i, (module_src, line, tok)| {
        let mut modules = BTreeMap::new();
        modules.insert("bad".to_string(), module_src.clone());
        modules.insert("good".to_string(), "var v = 1;\n".to_string());
        let mut req = Request { op: "run".into(), snippets: vec![main_ref.clone(), "import \"bad\";\n".into(), "import \"nowhere\";\n".into()], modules, fuel: Some(1_000_000), ..Default::default() };
        let obs = runner.call(&mut req);
        let want_ctx = format!("Error compiling module:\n    [module \"bad\", line {}] Error at '{}'", line, tok);
        let missing = "Unable to read file 'nowhere.yl' (file not found).";
        let problem = (|| -> Option<String> {
            let Some(r) = obs.resp() else { return Some(format!("run ended in {}", obs.describe())) };
            if r.results.len() != 3 {
                return Some(format!("{} results", r.results.len()));
            }
            let out = &r.results[0].out;
            // seven reports of two lines each, then the probe
            let expect_kinds = ["bad", "bad", "bad", "bad", "nowhere", "bad", "nowhere"];
            if out.len() != expect_kinds.len() * 2 + 1 {
                return Some(format!("printed {} lines: {:?}", out.len(), out));
            }
            for (k, which) in expect_kinds.iter().enumerate() {
                if out[2 * k] != "<class ImportError>" {
                    return Some(format!("failed import number {} raised {}", k + 1, out[2 * k]));
                }
                let text = &out[2 * k + 1];
                let ok = if *which == "bad" { text.starts_with(&want_ctx) } else { text == missing };
                if !ok {
                    return Some(format!("failed import number {} (of `{}`) carries the message {:?}; expected {:?}", k + 1, which, text, if *which == "bad" { want_ctx.as_str() } else { missing }));
                }
            }
            if out[expect_kinds.len() * 2] != "<class NameError>" {
                return Some(format!("the failed import bound its name: {:?}", out.last()));
            }
            let want_first = "Unhandled ImportError: Error compiling module:";
            let want_second = format!("    [module \"bad\", line {}] Error at '{}'", line, tok);
            for (i, main_line) in [(0usize, 12usize), (1, 1)] {
                match &r.results[i].outcome {
                    proto::Outcome::Err { kind, messages } => {
                        if kind != "ImportError" || messages.get(0).map(|m| m.as_str()) != Some(want_first) || !messages.get(1).map(|m| m.starts_with(&want_second)).unwrap_or(false) {
                            return Some(format!("program {}: the uncaught import error is reported as {} {:?}", i + 1, kind, messages));
                        }
                        let want_trace = format!("[module \"main\", line {}] in script", main_line);
                        if messages.last().map(|m| m.as_str()) != Some(want_trace.as_str()) {
                            return Some(format!("program {}: trace {:?}, expected the last entry {:?}", i + 1, messages, want_trace));
                        }
                    }
                    other => return Some(format!("program {}: ended with {:?}", i + 1, other)),
                }
            }
            match &r.results[2].outcome {
                proto::Outcome::Err { kind, messages } if kind == "ImportError" && messages.get(0).map(|m| m.as_str()) == Some(&format!("Unhandled ImportError: {}", missing)[..]) => None,
                other => Some(format!("program 3: importing a missing module ended with {:?}", other)),
            }
        })();
        (module_src, problem)
    });
    for (src, problem) in results {
        if let Some(p) = problem {
            report.violations.push((format!("[import error message] {}", p), json!({"family": "import_error_messages", "request": {"op": "run", "snippets": [main, "import \"bad\";\n", "import \"nowhere\";\n"], "modules": {"bad": src, "good": "var v = 1;\n"}}, "module_source": src, "problem": p})));
        }
    }
    n
}

/// Errors the interpreter raises are fresh objects: what a handler did to an error it caught (a changed
/// message, added fields, the error kept in a global) never shows in a later error of the same kind.  For
/// every kind of failure the interpreter itself raises (one failing built-in operation per error class, an
/// import that fails, too many active calls, an operand stack that runs full) the failing function is run
/// once alone - that report is the reference - and then after the same failure was caught and the caught
/// error changed: later in the same program, in the next program on the same interpreter, and after a reset.
/// Every report (class, message, trace) must be the reference report.
fn errors_are_fresh_objects(ctx: &Ctx, report: &mut Report) -> usize {
    let wide: String = {
        // a function whose activation holds 250 locals and calls itself inside a wide literal: the operand
        // stack is full long before the limit of active calls is reached
        let locals: String = (0..250).map(|i| format!("  var l{} = n;\n", i)).collect();
        format!("fn fail() {{ return deep(0); }}\nfn deep(n) {{\n{}  return [{}deep(n + 1)];\n}}\n", locals, "n, ".repeat(120))
    };
    let kinds: Vec<(&'static str, String)> = vec![
        ("TypeError", "fn fail() { return 1 + nil; }\n".into()),
        ("NameError", "fn fail() { return zz_undefined; }\n".into()),
        ("AttributeError", "fn fail() { return (1).zz_nothing; }\n".into()),
        ("IndexError", "fn fail() { return [1, 2][7]; }\n".into()),
        ("ValueError", "fn fail() { return 1..1.5; }\n".into()),
        ("RuntimeError", "fn fail() { var f = Fiber.new(|| 1); f.call(); return f.call(); }\n".into()),
        ("ImportError", "fn fail() { import \"zz_nowhere\"; return 0; }\n".into()),
        ("too many active calls", "fn fail() { return fail(); }\n".into()),
        ("operand stack full", wide),
    ];
    let handlers: Vec<(&'static str, &'static str)> = vec![
        ("message changed", "try { fail(); } catch e { e.context = \"changed by the handler\"; }\n"),
        ("message changed and the error kept", "var kept = nil;\ntry { fail(); } catch e { e.context = \"changed: \" + e.context; e.extra = [1]; kept = e; }\n"),
        ("message changed, error thrown again and caught again", "try { try { fail(); } catch e { e.context = \"first: \" + e.context; throw e; } } catch e2 { e2.context = \"second: \" + e2.context; }\n"),
    ];
    let mut cases: Vec<(String, String, String, String)> = Vec::new();
    for (kind, decl) in &kinds {
        for (hname, handler) in &handlers {
            cases.push((kind.to_string(), hname.to_string(), decl.clone(), handler.to_string()));
        }
    }
    let n = cases.len();
    let results = par_map(&ctx.runner_checked, ctx.workers.min(9), cases.into_iter(), |runner, _i, (kind, hname, decl, handler)| {
        runner.timeout = std::time::Duration::from_secs(60);
        let blank: String = handler.chars().filter(|c| *c == '\n').collect();
        // the handler's lines are blank lines in the reference, so that every trace line agrees
        let reference = format!("{}{}fail();\n", decl, blank);
        let same_program = format!("{}{}fail();\n", decl, handler);
        let first = format!("{}{}", decl, handler);
        let later = format!("{}{}fail();\n", decl, blank);
        let run = |runner: &mut crate::pool::Runner, snippets: Vec<String>| -> Result<Vec<proto::SnippetResult>, String> {
            let mut req = Request { op: "run".into(), snippets, fuel: Some(50_000_000), ..Default::default() };
            let obs = runner.call(&mut req);
            match obs.resp() {
                Some(r) => Ok(r.results.clone()),
                None => Err(format!("run ended in {}", obs.describe())),
            }
        };
        let mut problems: Vec<(String, Vec<String>)> = Vec::new();
        let want = match run(runner, vec![reference.clone()]) {
            Ok(r) => match r.get(0).map(|x| x.outcome.clone()) {
                Some(proto::Outcome::Err { kind, messages }) if messages.len() >= 2 => (kind, messages),
                other => {
                    problems.push((format!("the failing function run alone ends with {:?}", other), vec![reference.clone()]));
                    return (kind, hname, problems);
                }
            },
            Err(e) => {
                problems.push((e, vec![reference.clone()]));
                return (kind, hname, problems);
            }
        };
        // (vacuity guard: the operand stack has to run full before the limit of active calls is reached)
        if kind == "operand stack full" && want.1.len() >= 64 {
            crate::pool::machinery_failure("C17 errors_are_fresh_objects: the wide-frame program reaches the limit of active calls, not the end of the operand stack");
        }
        let histories: Vec<(&str, Vec<String>)> = vec![
            ("later in the same program", vec![same_program.clone()]),
            ("in the next program on the same interpreter", vec![first.clone(), later.clone()]),
            ("after a reset", vec![first.clone(), proto::RESET_SNIPPET.to_string(), later.clone()]),
            ("in the third program", vec![first.clone(), first.clone(), later.clone()]),
        ];
        for (when, snippets) in histories {
            match run(runner, snippets.clone()) {
                Ok(r) => {
                    if r.len() != snippets.len() {
                        problems.push((format!("{}: {} results for {} programs: {:?}", when, r.len(), snippets.len(), r.last().map(|x| &x.outcome)), snippets));
                        continue;
                    }
                    match r.last().map(|x| x.outcome.clone()) {
                        Some(proto::Outcome::Err { kind, messages }) if kind == want.0 && messages == want.1 => {}
                        other => problems.push((format!("{}: the second failure is reported as {:?}; the same failure on a new interpreter is reported as {:?}", when, other, want), snippets)),
                    }
                }
                Err(e) => problems.push((format!("{}: {}", when, e), snippets)),
            }
        }
        (kind, hname, problems)
    });
    for (kind, hname, problems) in results {
        for (p, snippets) in problems {
            report.violations.push((format!("[errors are fresh objects: {}, {}] {}", kind, hname, p), json!({"family": "errors_are_fresh_objects", "request": {"op": "run", "snippets": snippets}, "problem": p})));
        }
    }
    n * 4
}

/// programs for C02: every uncaught-error program without modules (the error report itself must not
/// panic, whatever was raised and handled before)
pub fn sources_for_c02() -> Vec<String> {
    runtime_cases(false).into_iter().chain(user_error_classes()).chain(description_shapes()).filter(|c| c.modules.is_empty() && c.family != "R_caught_class").map(|c| crate::ast::print_program(&c.prog, false)).collect()
}

pub fn cases_for_c01(thorough: bool) -> Vec<Case> {
    runtime_cases(false).into_iter().enumerate().filter(|(i, _)| thorough || i % 5 == 0).map(|(_, c)| c).collect()
}

pub fn run(ctx: &Ctx) -> Report {
    let mut report = Report::new();
    let active = active_findings(ctx, &mut report);
    let thorough = ctx.thorough();
    let hooks = Hooks { attribute: &|_c, _m, _o, _mm| None, nontrivial: &|_c, m| matches!(&m.outcome, Outcome::Uncaught(u) if u.trace.len() >= 2) || !m.out.is_empty(), fuel: 2_000_000 };
    // (plus C08's programs in which one function is active twice with an outcome waiting in the outer
    // activation's finally block: the uncaught variants' reports are compared entry by entry)
    let stats = mcheck::run(ctx, runtime_cases(thorough).into_iter().chain(far_line_cases()).chain(user_error_classes()).chain(description_shapes()).chain(crate::c08::recursion_from_finally()), &hooks);
    mcheck::fill_report(
        &mut report,
        &stats,
        "R: every call chain of depth 0-3/4 over link kinds {function, method, static method, lambda, constructor, map callback, reduce callback, fiber body} with the failing statement (12 kinds: throws of 4 value kinds, 6 failing built-ins, throwing callees) at the bottom, in place, inside a module function or as a module body; one statement per line with padding so every line differs. Uncaught variant: class, text (where the model defines it), error kind and the full trace (one entry per active call, innermost first; library frames by name only) must equal M-eval's; caught variant: the handler sees the same class. The same with an earlier, completely handled exception (7 shapes: thrown and caught in place, thrown by a callee, thrown by a function of another module, raised by a built-in, caught after passing a finally block, caught in a loop, handled in another fiber that ran to its end) placed in each active frame of every chain up to depth 2/3 before the failing statement. The same with the call or failing statement at each position wrapped in one or two nested try/finally statements, so that the uncaught error passes through finally blocks (the report lists the calls still active when it is made, each with the line of the statement it was executing when the error was raised). Plus caught==uncaught on the implementation for 26 failing statements including host natives of every ErrorKind, compile-error lines for a stray token before every statement, and the same for a module that does not compile: every attempt to import it (seven placements in one program, then two more programs on the same interpreter) reports ImportError with the module's name, the line and the token; a missing module likewise. Plus the 240 programs of C08's family `recursion_from_a_finally_block` (one function active twice, the outer activation in its finally block with an outcome waiting): class, message and trace of the uncaught variants. Plus every fortieth program of the run-time families placed far down a long file - its first statement (and that of every module) on line 255, 256, 32766..32768, 65534..65537, 70000 and 131071 - and compile errors on such lines; error classes declared by the program one to three levels below each of eight built-in error classes, thrown uncaught in place, from a function, through a finally block and rethrown by a handler: reported under their own class with their message; thrown values whose description is empty, blank or has line breaks in ten shapes (as a string, as the message of Error and of a program-declared error class, an instance without message), uncaught in three places; and compile errors further down a file whose first string has an escape sequence cut off by the end of its line. non-trivial = a trace of at least two entries, or output.",
        json!({"chain_depth": if thorough { 4 } else { 3 }, "link_kinds": LINKS.len(), "failing_statements": FAILS.len()}),
    );
    let (n_ceq, _bad) = caught_equals_uncaught(ctx, &mut report);
    let n_lines = compile_error_lines(ctx, &mut report);
    report.cov("caught_equals_uncaught_pairs", json!(n_ceq));
    report.cov("compile_error_line_cases", json!(n_lines));
    let n_imp = import_error_messages(ctx, &mut report);
    let n_fresh = errors_are_fresh_objects(ctx, &mut report);
    report.cov("errors_are_fresh_objects_histories", json!(n_fresh));
    report.cov("import_error_message_cases", json!(n_imp));
    report.assumptions = vec![
        "frames of the library written in the language itself are matched by function name and position only".into(),
        "a call that an exception has left by the time it is reported (it passed through a finally block of a caller) is not listed".into(),
    ];
    record_known(&mut report, &active, &stats.attributed);
    report.violations.extend(stats.violations);
    report
}
