//! C05 — expressions and control flow evaluate as the language defines.
use crate::ast::*;
use crate::common::*;
use crate::diff::*;
use crate::mcheck::{self, Case, Hooks};
use crate::meval::Outcome;
use serde_json::json;

/// (prelude statements, expression) for each operand kind
pub fn operand_pool() -> Vec<(&'static str, Vec<Stmt>, Expr)> {
    let inst_prelude = || vec![class_stmt("K", None, Some("new"), vec![method(FnKind::Method, "m", &[], vec![])]), var_stmt("o", invoke(var("K"), "new", vec![]))];
    vec![
        ("nil", vec![], Expr::Nil),
        ("true", vec![], Expr::True),
        ("false", vec![], Expr::False),
        ("zero", vec![], num(0.0)),
        ("three", vec![], num(3.0)),
        ("neg", vec![], num(-2.0)),
        ("frac", vec![], num(2.5)),
        ("nan", vec![], num(f64::NAN)),
        ("inf", vec![], num(f64::INFINITY)),
        ("big53", vec![], num(9007199254740993.0)),
        ("big63", vec![], num(9223372036854775808.0)),
        ("huge", vec![], bin(BinOp::Mul, num(1e300), num(1e8))),
        ("sixtyfour", vec![], num(64.0)),
        ("empty_str", vec![], s("")),
        ("str", vec![], s("ab")),
        ("vec", vec![], Expr::VecLit(vec![num(1.0)])),
        ("tuple", vec![], Expr::TupleLit(vec![num(1.0), num(2.0)])),
        ("map", vec![], Expr::MapLit(vec![(num(1.0), num(2.0))])),
        ("range", vec![], bin(BinOp::Range, num(1.0), num(3.0))),
        ("lambda", vec![], Expr::Paren(Box::new(lambda_expr(&["x"], var("x"))))),
        ("class", vec![], var("Num")),
        ("instance", inst_prelude(), var("o")),
        ("bound", inst_prelude(), get(var("o"), "m")),
    ]
}

fn e1() -> Vec<Case> {
    let pool = operand_pool();
    let mut out = Vec::new();
    for op in ALL_BINOPS {
        for (_, pa, a) in &pool {
            for (_, pb, b) in &pool {
                let mut prog = pa.clone();
                if pb.len() > 0 && pa.is_empty() {
                    prog.extend(pb.clone());
                }
                prog.push(print_stmt(bin(op, a.clone(), b.clone())));
                out.push(Case::new("E1_binary_op_x_kinds", prog));
            }
        }
    }
    for uop in [UnOp::Neg, UnOp::Not, UnOp::BitNot] {
        for (_, pa, a) in &pool {
            let mut prog = pa.clone();
            prog.push(print_stmt(un(uop, a.clone())));
            out.push(Case::new("E1_unary_op_x_kinds", prog));
        }
    }
    // logical operators yield one of their operands
    for (_, pa, a) in &pool {
        for (_, pb, b) in &pool {
            if !pa.is_empty() && !pb.is_empty() {
                continue;
            }
            for and in [true, false] {
                let mut prog = pa.clone();
                prog.extend(pb.clone());
                let e = if and { Expr::And(Box::new(a.clone()), Box::new(b.clone())) } else { Expr::Or(Box::new(a.clone()), Box::new(b.clone())) };
                prog.push(print_stmt(bin(BinOp::Eq, e.clone(), if and { if matches!(a, Expr::Nil | Expr::False) { a.clone() } else { b.clone() } } else { a.clone() })));
                prog.push(print_stmt(un(UnOp::Not, un(UnOp::Not, e))));
                out.push(Case::new("E1_logical_x_kinds", prog));
            }
        }
    }
    out
}

#[derive(Clone, Copy, PartialEq)]
enum Op2 {
    B(BinOp),
    And,
    Or,
}

fn mk(op: Op2, a: Expr, b: Expr) -> Expr {
    match op {
        Op2::B(o) => bin(o, a, b),
        Op2::And => Expr::And(Box::new(a), Box::new(b)),
        Op2::Or => Expr::Or(Box::new(a), Box::new(b)),
    }
}

fn all_ops2() -> Vec<Op2> {
    let mut v: Vec<Op2> = ALL_BINOPS.iter().map(|o| Op2::B(*o)).collect();
    v.push(Op2::And);
    v.push(Op2::Or);
    v
}

fn e2(thorough: bool) -> Vec<Case> {
    let ops = all_ops2();
    let triples: Vec<[f64; 3]> = if thorough { vec![[7.0, 3.0, 2.0], [1.0, 2.0, 3.0], [8.0, 2.0, 1.0], [0.0, 5.0, 1.0]] } else { vec![[7.0, 3.0, 2.0], [1.0, 2.0, 3.0]] };
    let mut out = Vec::new();
    for &o1 in &ops {
        for &o2 in &ops {
            for t in &triples {
                let (a, b, c) = (num(t[0]), num(t[1]), num(t[2]));
                // both groupings; printed with the minimal parentheses the table allows (and fully
                // parenthesised): whichever text has no parentheses exercises the parser's own grouping
                let left = mk(o2, mk(o1, a.clone(), b.clone()), c.clone());
                let right = mk(o1, a.clone(), mk(o2, b.clone(), c.clone()));
                for e in [left, right] {
                    let mut case = Case::new("E2_chain3", vec![print_stmt(e)]);
                    case.also_full_parens = true;
                    out.push(case);
                }
            }
            // unary operators against each binary operator
            for u in [UnOp::Neg, UnOp::Not, UnOp::BitNot] {
                if o1 != o2 {
                    continue;
                }
                let (a, b) = (num(6.0), num(3.0));
                for e in [mk(o1, un(u, a.clone()), b.clone()), un(u, mk(o1, a.clone(), b.clone())), mk(o1, a.clone(), un(u, b.clone()))] {
                    let mut case = Case::new("E2_unary_vs_binary", vec![print_stmt(e)]);
                    case.also_full_parens = true;
                    out.push(case);
                }
            }
        }
    }
    out
}

fn e3(thorough: bool) -> Vec<Case> {
    let ops: Vec<Op2> = if thorough {
        all_ops2()
    } else {
        vec![Op2::Or, Op2::And, Op2::B(BinOp::Eq), Op2::B(BinOp::Lt), Op2::B(BinOp::BitOr), Op2::B(BinOp::Shl), Op2::B(BinOp::Sub), Op2::B(BinOp::Mul), Op2::B(BinOp::Range)]
    };
    let vals = [9.0, 4.0, 2.0, 1.0];
    let mut out = Vec::new();
    for &o1 in &ops {
        for &o2 in &ops {
            for &o3 in &ops {
                let v: Vec<Expr> = vals.iter().map(|x| num(*x)).collect();
                // the five binary tree shapes over four operands
                let shapes = [
                    mk(o3, mk(o2, mk(o1, v[0].clone(), v[1].clone()), v[2].clone()), v[3].clone()),
                    mk(o3, mk(o1, v[0].clone(), mk(o2, v[1].clone(), v[2].clone())), v[3].clone()),
                    mk(o2, mk(o1, v[0].clone(), v[1].clone()), mk(o3, v[2].clone(), v[3].clone())),
                    mk(o1, v[0].clone(), mk(o3, mk(o2, v[1].clone(), v[2].clone()), v[3].clone())),
                    mk(o1, v[0].clone(), mk(o2, v[1].clone(), mk(o3, v[2].clone(), v[3].clone()))),
                ];
                for e in shapes {
                    out.push(Case::new("E3_chain4", vec![print_stmt(e)]));
                }
            }
        }
    }
    out
}

fn t(i: usize, v: Expr) -> Expr {
    call(var("t"), vec![num(i as f64), v])
}

fn e4() -> Vec<Case> {
    let tdef = fn_stmt(func("t", &["i", "v"], vec![print_stmt(var("i")), st(StmtKind::Return(Some(var("v"))))]));
    let mut out = Vec::new();
    let mut push = |name: &'static str, mut stmts: Vec<Stmt>| {
        let mut prog = vec![tdef.clone()];
        prog.append(&mut stmts);
        out.push(Case::new(name, prog));
    };
    let vals = [num(6.0), num(0.0), Expr::Nil, Expr::False, s("x")];
    for op in all_ops2() {
        for a in &vals {
            for b in &vals {
                push("E4_order_binary", vec![print_stmt(mk(op, t(1, a.clone()), t(2, b.clone())))]);
            }
        }
    }
    let f3 = fn_stmt(func("f", &["a", "b", "c"], vec![st(StmtKind::Return(Some(Expr::VecLit(vec![var("a"), var("b"), var("c")]))))]));
    push("E4_order_call_args", vec![f3.clone(), print_stmt(call(t(0, var("f")), vec![t(1, num(1.0)), t(2, num(2.0)), t(3, num(3.0))]))]);
    push("E4_order_call_args", vec![f3.clone(), print_stmt(call(t(0, var("f")), vec![t(1, num(1.0)), t(2, num(2.0))]))]);
    push("E4_order_call_args", vec![print_stmt(call(t(0, Expr::Nil), vec![t(1, num(1.0))]))]);
    let v3 = || Expr::VecLit(vec![num(10.0), num(20.0), num(30.0)]);
    for idx in [num(0.0), num(2.0), num(3.0), num(-1.0), num(0.5), Expr::Nil] {
        push("E4_order_index", vec![print_stmt(index(t(1, v3()), t(2, idx.clone())))]);
        push("E4_order_index", vec![print_stmt(index(t(1, s("héllo")), t(2, idx.clone())))]);
        push("E4_order_set_index", vec![var_stmt("v", v3()), print_stmt(Expr::SetIndex(Box::new(t(1, var("v"))), Box::new(t(2, idx.clone())), Box::new(t(3, num(9.0))))), print_stmt(var("v"))]);
        push("E4_order_set_index", vec![print_stmt(Expr::SetIndex(Box::new(t(1, s("abc"))), Box::new(t(2, idx.clone())), Box::new(t(3, num(9.0)))))]);
    }
    for (b, e) in [(0.0, 1.0), (1.0, 3.0), (2.0, 1.0), (0.0, 4.0), (3.0, 3.0), (-2.0, -1.0)] {
        push("E4_order_slice", vec![print_stmt(index(t(1, v3()), bin(BinOp::Range, t(2, num(b)), t(3, num(e)))))]);
        push("E4_order_slice", vec![print_stmt(index(t(1, Expr::TupleLit(vec![num(1.0), num(2.0), num(3.0)])), bin(BinOp::Range, t(2, num(b)), t(3, num(e)))))]);
    }
    push("E4_order_range_operands", vec![print_stmt(bin(BinOp::Range, t(1, num(0.5)), t(2, Expr::Nil)))]);
    push("E4_order_range_operands", vec![print_stmt(bin(BinOp::Range, t(1, Expr::Nil), t(2, num(0.5))))]);
    push("E4_order_literals", vec![print_stmt(Expr::VecLit(vec![t(1, num(1.0)), t(2, num(2.0)), t(3, num(3.0))]))]);
    push("E4_order_literals", vec![print_stmt(Expr::TupleLit(vec![t(1, num(1.0)), t(2, num(2.0))]))]);
    push("E4_order_literals", vec![print_stmt(invoke(Expr::MapLit(vec![(t(1, num(1.0)), t(2, num(2.0))), (t(3, num(1.0)), t(4, num(5.0)))]), "get", vec![num(1.0)]))]);
    push("E4_order_literals", vec![print_stmt(Expr::MapLit(vec![(t(1, Expr::VecLit(vec![])), t(2, num(2.0)))]))]);
    push("E4_order_interpolation", vec![print_stmt(Expr::Interp(vec![Part::Lit("a".into()), Part::Expr(t(1, num(1.0))), Part::Lit("b".into()), Part::Expr(t(2, s("z"))), Part::Expr(t(3, Expr::Nil))]))]);
    push("E4_order_interpolation", vec![print_stmt(Expr::Interp(vec![Part::Expr(Expr::Interp(vec![Part::Lit("in".into()), Part::Expr(t(1, num(1.5)))])), Part::Lit("$".into())]))]);
    // field set, compound assignment to every target kind
    let k = class_stmt("K", None, Some("new"), vec![method(FnKind::Method, "m", &["a"], vec![print_stmt(var("a")), st(StmtKind::Return(Some(Expr::SelfRef)))])]);
    push("E4_order_field_set", vec![k.clone(), var_stmt("o", invoke(var("K"), "new", vec![])), print_stmt(set(t(1, var("o")), "f", t(2, num(5.0)))), print_stmt(get(var("o"), "f"))]);
    push("E4_order_field_set", vec![print_stmt(set(t(1, num(3.0)), "f", t(2, num(5.0))))]);
    push("E4_order_invoke", vec![k.clone(), var_stmt("o", invoke(var("K"), "new", vec![])), expr_stmt(invoke(invoke(t(1, var("o")), "m", vec![t(2, num(7.0))]), "m", vec![t(3, num(8.0))]))]);
    push("E4_order_invoke", vec![k.clone(), var_stmt("o", invoke(var("K"), "new", vec![])), expr_stmt(call(get(t(1, var("o")), "m"), vec![t(2, num(7.0))]))]);
    for op in ALL_BINOPS.iter().filter(|o| o.has_compound()) {
        let rhs_list = [t(2, num(3.0)), bin(BinOp::Add, t(2, num(1.0)), t(3, num(2.0))), bin(BinOp::Mul, t(2, num(2.0)), t(3, num(2.0))), bin(BinOp::BitOr, t(2, num(1.0)), t(3, num(4.0))), t(2, s("s"))];
        for rhs in rhs_list {
            // global
            push("E4_compound_global", vec![var_stmt("g", num(12.0)), print_stmt(Expr::CompoundAssign("g".into(), *op, Box::new(rhs.clone()))), print_stmt(var("g"))]);
            // local
            push("E4_compound_local", vec![block(vec![var_stmt("l", num(12.0)), print_stmt(Expr::CompoundAssign("l".into(), *op, Box::new(rhs.clone()))), print_stmt(var("l"))])]);
            // captured
            push(
                "E4_compound_captured",
                vec![block(vec![
                    var_stmt("c", num(12.0)),
                    var_stmt("h", lambda_expr(&[], Expr::CompoundAssign("c".into(), *op, Box::new(rhs.clone())))),
                    print_stmt(call(var("h"), vec![])),
                    print_stmt(var("c")),
                ])],
            );
            // field
            push(
                "E4_compound_field",
                vec![k.clone(), var_stmt("o", invoke(var("K"), "new", vec![])), expr_stmt(set(var("o"), "f", num(12.0))), print_stmt(Expr::CompoundSet(Box::new(t(1, var("o"))), "f".into(), *op, Box::new(rhs.clone()))), print_stmt(get(var("o"), "f"))],
            );
        }
    }
    // the right side of a compound assignment may hold any expression inside brackets of its own:
    // parentheses, call arguments, literal elements, an index, an interpolation part, a lambda body
    {
        let paren = |e: Expr| Expr::Paren(Box::new(e));
        let bracketed: Vec<Expr> = vec![
            paren(bin(BinOp::Eq, t(2, num(1.0)), t(3, num(1.0)))),
            paren(bin(BinOp::Lt, t(2, num(1.0)), t(3, num(2.0)))),
            paren(Expr::And(Box::new(t(2, num(4.0))), Box::new(t(3, num(5.0))))),
            paren(Expr::Or(Box::new(t(2, Expr::Nil)), Box::new(t(3, num(6.0))))),
            bin(BinOp::Add, paren(Expr::Or(Box::new(Expr::False), Box::new(num(2.0)))), num(1.0)),
            call(var("pick"), vec![bin(BinOp::Eq, num(1.0), num(1.0)), num(7.0)]),
            call(var("pick"), vec![Expr::And(Box::new(num(1.0)), Box::new(Expr::Nil)), num(8.0)]),
            index(Expr::VecLit(vec![bin(BinOp::Lt, num(1.0), num(2.0)), num(9.0)]), num(1.0)),
            index(Expr::VecLit(vec![num(3.0), num(4.0)]), paren(Expr::Or(Box::new(Expr::Nil), Box::new(num(1.0))))),
            Expr::Interp(vec![Part::Lit("is ".into()), Part::Expr(bin(BinOp::Eq, num(1.0), num(2.0)))]),
            call(paren(lambda_block(&[], vec![expr_stmt(assign("side", num(5.0))), st(StmtKind::Return(Some(bin(BinOp::Add, var("side"), num(1.0)))))])), vec![]),
            // (Q) a second assignment inside the right side - `a += (b = 3)`, `a += (b += 1)` - is rejected
            // by the compiler on purpose (the repository's operator/*_assign_precedence scripts fix that)
            // and is outside the alphabet
        ];
        let pick = fn_stmt(func("pick", &["c", "v"], vec![st(StmtKind::If(var("c"), vec![st(StmtKind::Return(Some(var("v"))))], None)), st(StmtKind::Return(Some(num(0.0))))]));
        for op in [BinOp::Add, BinOp::Sub, BinOp::BitOr, BinOp::Shl] {
            for rhs in &bracketed {
                push("E4_compound_bracketed_right_side", vec![pick.clone(), var_stmt("side", num(0.0)), var_stmt("g", num(12.0)), print_stmt(Expr::CompoundAssign("g".into(), op, Box::new(rhs.clone()))), print_stmt(var("g")), print_stmt(var("side"))]);
                push("E4_compound_bracketed_right_side", vec![pick.clone(), var_stmt("side", num(0.0)), block(vec![var_stmt("l", s("text")), print_stmt(Expr::CompoundAssign("l".into(), op, Box::new(rhs.clone()))), print_stmt(var("l")), print_stmt(var("side"))])]);
                push(
                    "E4_compound_bracketed_right_side",
                    vec![pick.clone(), var_stmt("side", num(0.0)), k.clone(), var_stmt("o", invoke(var("K"), "new", vec![])), expr_stmt(set(var("o"), "f", num(12.0))), print_stmt(Expr::CompoundSet(Box::new(var("o")), "f".into(), op, Box::new(rhs.clone()))), print_stmt(get(var("o"), "f")), print_stmt(var("side"))],
                );
            }
        }
    }
    push("E4_assign_value", vec![var_stmt("a", num(1.0)), var_stmt("b", num(2.0)), print_stmt(assign("a", assign("b", num(5.0)))), print_stmt(var("a")), print_stmt(var("b"))]);
    push("E4_assign_undefined", vec![expr_stmt(assign("nope", t(1, num(5.0))))]);
    push("E4_assign_undefined", vec![print_stmt(var("nope"))]);
    out
}

// ---- E5: statement trees ---------------------------------------------------------------------------

#[derive(Clone, Debug)]
enum Node {
    Print,
    VarA,
    AssignA,
    PrintA,
    Break,
    Continue,
    Return,
    Block(Vec<Node>),
    If(u8, Vec<Node>),
    IfElse(u8, Vec<Node>, Vec<Node>),
    ElseIf(u8, Vec<Node>, u8, Vec<Node>),
    While(Vec<Node>),
    For(Vec<Node>),
}

/// all statement lists whose total node count is exactly `size`
fn lists(size: usize, in_loop: bool) -> Vec<Vec<Node>> {
    if size == 0 {
        return vec![vec![]];
    }
    let mut out = Vec::new();
    for first in 1..=size {
        let heads = nodes(first, in_loop);
        let tails = lists(size - first, in_loop);
        for h in &heads {
            for t in &tails {
                let mut l = vec![h.clone()];
                l.extend(t.iter().cloned());
                out.push(l);
            }
        }
    }
    out
}

/// all single statements of total size `size`
fn nodes(size: usize, in_loop: bool) -> Vec<Node> {
    let mut out = Vec::new();
    if size == 1 {
        out.extend([Node::Print, Node::VarA, Node::AssignA, Node::PrintA, Node::Return]);
        if in_loop {
            out.extend([Node::Break, Node::Continue]);
        }
        return out;
    }
    let inner = size - 1;
    for body in lists(inner, in_loop) {
        out.push(Node::Block(body.clone()));
        for c in 0..2u8 {
            out.push(Node::If(c, body.clone()));
        }
    }
    for body in lists(inner, true) {
        out.push(Node::While(body.clone()));
        out.push(Node::For(body));
    }
    // if/else: split the remaining budget
    for a in 0..=inner {
        for then in lists(a, in_loop) {
            for els in lists(inner - a, in_loop) {
                out.push(Node::IfElse(0, then.clone(), els.clone()));
                if a >= 1 && inner - a >= 1 {
                    out.push(Node::ElseIf(0, then.clone(), 1, els.clone()));
                }
            }
        }
    }
    out
}

struct Build {
    tag: usize,
    loops: usize,
}

impl Build {
    fn next_tag(&mut self) -> Expr {
        self.tag += 1;
        num(self.tag as f64)
    }
    fn list(&mut self, l: &[Node]) -> Vec<Stmt> {
        l.iter().flat_map(|n| self.node(n)).collect()
    }
    fn cond(&self, c: u8) -> Expr {
        var(if c == 0 { "p" } else { "q" })
    }
    fn node(&mut self, n: &Node) -> Vec<Stmt> {
        match n {
            Node::Print => vec![print_stmt(self.next_tag())],
            Node::VarA => {
                let t = self.next_tag();
                vec![var_stmt("a", t)]
            }
            Node::AssignA => {
                let t = self.next_tag();
                vec![expr_stmt(assign("a", t))]
            }
            Node::PrintA => vec![print_stmt(var("a"))],
            Node::Break => vec![st(StmtKind::Break)],
            Node::Continue => vec![st(StmtKind::Continue)],
            Node::Return => {
                let t = self.next_tag();
                vec![st(StmtKind::Return(Some(t)))]
            }
            Node::Block(b) => vec![block(self.list(b))],
            Node::If(c, b) => vec![st(StmtKind::If(self.cond(*c), self.list(b), None))],
            Node::IfElse(c, a, b) => {
                let then = self.list(a);
                let els = self.list(b);
                vec![st(StmtKind::If(self.cond(*c), then, Some(Box::new(block(els)))))]
            }
            Node::ElseIf(c, a, c2, b) => {
                let then = self.list(a);
                let els = self.list(b);
                vec![st(StmtKind::If(self.cond(*c), then, Some(Box::new(st(StmtKind::If(self.cond(*c2), els, None))))))]
            }
            Node::While(b) => {
                self.loops += 1;
                let i = format!("i{}", self.loops);
                let mut body = vec![expr_stmt(Expr::CompoundAssign(i.clone(), BinOp::Add, Box::new(num(1.0))))];
                body.extend(self.list(b));
                vec![var_stmt(&i, num(0.0)), st(StmtKind::While(bin(BinOp::Lt, var(&i), num(2.0)), body))]
            }
            Node::For(b) => {
                self.loops += 1;
                let j = format!("j{}", self.loops);
                let mut body = vec![print_stmt(var(&j))];
                body.extend(self.list(b));
                vec![st(StmtKind::For(j, bin(BinOp::Range, num(0.0), num(2.0)), body))]
            }
        }
    }
}

fn e5(max_size: usize) -> Vec<Case> {
    let mut out = Vec::new();
    for size in 1..=max_size {
        for l in lists(size, false) {
            let mut b = Build { tag: 0, loops: 0 };
            let mut body = b.list(&l);
            body.push(print_stmt(var("a")));
            let uses_q = format!("{:?}", l).contains("If(1") || format!("{:?}", l).contains(", 1, ");
            let uses_p = format!("{:?}", l).contains("If(0") || format!("{:?}", l).contains("IfElse(0") || format!("{:?}", l).contains("ElseIf(0");
            let mut prog = vec![var_stmt("a", s("g")), fn_stmt(func("f", &["p", "q"], body))];
            let ps: &[bool] = if uses_p { &[true, false] } else { &[true] };
            let qs: &[bool] = if uses_q { &[true, false] } else { &[true] };
            for &p in ps {
                for &q in qs {
                    let bexpr = |x: bool| if x { Expr::True } else { Expr::False };
                    prog.push(print_stmt(call(var("f"), vec![bexpr(p), bexpr(q)])));
                    prog.push(print_stmt(var("a")));
                }
            }
            out.push(Case::new("E5_statement_trees", prog));
        }
    }
    out
}

/// Regression witnesses of repaired defects (stay in the enumeration forever).
fn witnesses() -> Vec<Case> {
    let mut out = Vec::new();
    // break with body locals, followed by a local (fixed: break pops before jumping)
    out.push(Case::new(
        "W_break_body_locals",
        vec![
            fn_stmt(func(
                "f",
                &[],
                vec![
                    var_stmt("i", num(0.0)),
                    st(StmtKind::While(bin(BinOp::Lt, var("i"), num(1.0)), vec![var_stmt("a", num(7.0)), expr_stmt(Expr::CompoundAssign("i".into(), BinOp::Add, Box::new(num(1.0)))), st(StmtKind::Break)])),
                    var_stmt("b", num(2.0)),
                    print_stmt(var("b")),
                ],
            )),
            expr_stmt(call(var("f"), vec![])),
        ],
    ));
    // range equality after the cache has turned over (fixed: structural)
    let mut prog = vec![var_stmt("r", bin(BinOp::Range, num(0.0), num(1.0)))];
    prog.push(var_stmt("keep", Expr::VecLit((2..12).map(|k| bin(BinOp::Range, num(1.0), num(k as f64))).collect())));
    prog.push(print_stmt(bin(BinOp::Eq, var("r"), bin(BinOp::Range, num(0.0), num(1.0)))));
    out.push(Case::new("W_range_equality_after_cache_turnover", prog));
    // bound built-in method equal to itself
    out.push(Case::new("W_bound_native_eq", vec![var_stmt("v", Expr::VecLit(vec![])), var_stmt("f", get(var("v"), "push")), print_stmt(bin(BinOp::Eq, var("f"), var("f"))), print_stmt(bin(BinOp::Eq, var("f"), get(var("v"), "push")))]));
    out
}

/// E6: operators have no memory.  Operand objects are bound to variables and used again: for every
/// ordered pair of kinds (a, b), with c a second construction of a's expression and richer containers
/// around them, every comparison and `+` is evaluated, then other operators are applied to the same
/// objects, then the first ones again - the answers must not depend on what was evaluated before.
fn e6() -> Vec<Case> {
    let mut pool = operand_pool();
    pool.push(("vec2", vec![], Expr::VecLit(vec![num(1.0), Expr::VecLit(vec![num(2.0), num(3.0)])])));
    pool.push(("vec3", vec![], Expr::VecLit(vec![num(1.0), Expr::VecLit(vec![num(2.0), num(4.0)])])));
    pool.push(("tuple_of_vec", vec![], Expr::TupleLit(vec![Expr::VecLit(vec![num(1.0)]), num(2.0)])));
    pool.push(("map_of_vec", vec![], Expr::MapLit(vec![(s("k"), Expr::VecLit(vec![num(1.0)]))])));
    pool.push(("map_of_vec2", vec![], Expr::MapLit(vec![(s("k"), Expr::VecLit(vec![num(2.0)]))])));
    let ops = [BinOp::Eq, BinOp::Ne, BinOp::Lt, BinOp::Add];
    let mut out = Vec::new();
    for (_, pa, a) in &pool {
        for (_, pb, b) in &pool {
            let mut prog = pa.clone();
            if !pb.is_empty() && pa.is_empty() {
                prog.extend(pb.clone());
            }
            prog.push(var_stmt("a", a.clone()));
            prog.push(var_stmt("b", b.clone()));
            prog.push(var_stmt("c", a.clone()));
            let probe = |e: Expr| st(StmtKind::Try(vec![print_stmt(e)], Some(("err".into(), vec![print_stmt(call(var("type"), vec![var("err")]))])), None));
            let round = |prog: &mut Vec<Stmt>| {
                for op in ops {
                    prog.push(probe(bin(op, var("a"), var("b"))));
                    prog.push(probe(bin(op, var("a"), var("c"))));
                    prog.push(probe(bin(op, var("b"), var("a"))));
                }
                prog.push(probe(bin(BinOp::Eq, Expr::VecLit(vec![var("a")]), Expr::VecLit(vec![var("c")]))));
                prog.push(probe(bin(BinOp::Eq, Expr::TupleLit(vec![var("a"), var("b")]), Expr::TupleLit(vec![var("c"), var("b")]))));
                prog.push(probe(bin(BinOp::Eq, Expr::VecLit(vec![var("a")]), Expr::VecLit(vec![var("b")]))));
            };
            round(&mut prog);
            round(&mut prog);
            out.push(Case::new("E6_operators_have_no_memory", prog));
        }
    }
    out
}

/// E7: a statement that fails changes nothing.  Each failing statement runs inside try/catch (the error
/// is handled and the program goes on), then probes look at everything it could have touched, then it
/// fails again and the probes run again.
fn e7() -> Vec<Case> {
    let probe = |e: Expr| st(StmtKind::Try(vec![print_stmt(e)], Some(("err".into(), vec![print_stmt(call(var("type"), vec![var("err")]))])), None));
    let attempt = |sts: Vec<Stmt>| st(StmtKind::Try(sts, Some(("err".into(), vec![print_stmt(call(var("type"), vec![var("err")]))])), None));
    // (name, set-up, failing statement, probes)
    let shapes: Vec<(&str, Vec<Stmt>, Vec<Stmt>, Vec<Expr>)> = vec![
        ("assign_undefined_global", vec![], vec![expr_stmt(assign("never", num(1.0)))], vec![var("never")]),
        ("compound_assign_undefined_global", vec![], vec![expr_stmt(Expr::CompoundAssign("never".into(), BinOp::Add, Box::new(num(1.0))))], vec![var("never")]),
        ("assign_with_failing_value", vec![var_stmt("g", num(5.0))], vec![expr_stmt(assign("g", bin(BinOp::Add, num(1.0), Expr::Nil)))], vec![var("g")]),
        ("compound_assign_type_error", vec![var_stmt("g", s("text"))], vec![expr_stmt(Expr::CompoundAssign("g".into(), BinOp::Sub, Box::new(num(1.0))))], vec![var("g")]),
        ("set_item_out_of_range", vec![var_stmt("v", Expr::VecLit(vec![num(1.0), num(2.0)]))], vec![expr_stmt(Expr::SetIndex(Box::new(var("v")), Box::new(num(5.0)), Box::new(num(9.0))))], vec![var("v"), invoke(var("v"), "len", vec![])]),
        ("set_item_on_tuple", vec![var_stmt("v", Expr::TupleLit(vec![num(1.0), num(2.0)]))], vec![expr_stmt(Expr::SetIndex(Box::new(var("v")), Box::new(num(0.0)), Box::new(num(9.0))))], vec![var("v")]),
        ("set_field_on_number", vec![var_stmt("n", num(3.0))], vec![expr_stmt(set(var("n"), "f", num(1.0)))], vec![var("n"), get(var("n"), "f")]),
        ("insert_unhashable_key", vec![var_stmt("m", Expr::MapLit(vec![(num(1.0), num(2.0))]))], vec![expr_stmt(invoke(var("m"), "insert", vec![Expr::VecLit(vec![num(1.0)]), num(3.0)]))], vec![var("m"), invoke(var("m"), "len", vec![])]),
        ("pop_empty_vec", vec![var_stmt("v", Expr::VecLit(vec![]))], vec![expr_stmt(invoke(var("v"), "pop", vec![]))], vec![var("v"), invoke(var("v"), "len", vec![])]),
        ("var_with_failing_initialiser_in_block", vec![var_stmt("outer", num(1.0))], vec![var_stmt("inner", index(Expr::VecLit(vec![]), num(3.0))), expr_stmt(assign("outer", num(2.0)))], vec![var("outer")]),
        ("call_with_wrong_arity", vec![fn_stmt(func("two", &["a", "b"], vec![expr_stmt(assign("touched", num(1.0)))])), var_stmt("touched", num(0.0))], vec![expr_stmt(call(var("two"), vec![num(1.0)]))], vec![var("touched")]),
        ("for_over_non_iterable", vec![var_stmt("count", num(0.0))], vec![st(StmtKind::For("x".into(), num(5.0), vec![expr_stmt(assign("count", bin(BinOp::Add, var("count"), num(1.0))))]))], vec![var("count")]),
    ];
    let mut out = Vec::new();
    for (_, setup, failing, probes) in shapes {
        for in_function in [false, true] {
            let mut body = setup.clone();
            for _ in 0..2 {
                body.push(attempt(failing.clone()));
                for pr in &probes {
                    body.push(probe(pr.clone()));
                }
            }
            let prog = if in_function { vec![fn_stmt(func("run", &[], body)), expr_stmt(call(var("run"), vec![]))] } else { body };
            out.push(Case::new("E7_a_failing_statement_changes_nothing", prog));
        }
    }
    out
}

/// E8: a `for` loop over a vec that its own body changes.  The loop visits the vec as it is when each
/// element is asked for: elements pushed during the loop are visited, elements popped are not, an element
/// overwritten ahead of the cursor is seen with its new value - with `continue` right after the change,
/// `break` one iteration later, or neither; also through an explicit iterator driven by hand.
/// E9: a literal inside an interpolation.  `"${L}"` for every kind of literal L (numbers, strings, true, false,
/// nil), bare and in brackets, once, twice and next to other text, with the same literal used as an ordinary
/// operand before and after it in the same function: the interpolation yields the text `String.from(L)`
/// gives, and the other occurrences keep their kind and value.
fn e9() -> Vec<Case> {
    let mut out = Vec::new();
    let lits: Vec<Expr> = vec![num(0.0), num(1.0), num(0.1), num(2.5), num(255.0), num(1e21), num(123456789012.0), s(""), s("x"), s("0.1"), s("a b"), Expr::True, Expr::False, Expr::Nil];
    for l in &lits {
        for shape in 0..4usize {
            let inner = |e: Expr| if shape % 2 == 1 { Expr::Paren(Box::new(e)) } else { e };
            let interp = if shape < 2 {
                Expr::Interp(vec![Part::Expr(inner(l.clone()))])
            } else {
                Expr::Interp(vec![Part::Lit("[".into()), Part::Expr(inner(l.clone())), Part::Lit("|".into()), Part::Expr(inner(l.clone())), Part::Lit("]".into())])
            };
            let body = vec![
                var_stmt("a", l.clone()),
                var_stmt("t", interp),
                var_stmt("b", l.clone()),
                print_stmt(var("t")),
                print_stmt(Expr::VecLit(vec![call(var("type"), vec![var("a")]), call(var("type"), vec![var("b")]), call(var("type"), vec![var("t")])])),
                print_stmt(Expr::VecLit(vec![bin(BinOp::Eq, var("a"), var("b")), bin(BinOp::Eq, var("a"), l.clone()), bin(BinOp::Eq, invoke(var("String"), "from", vec![var("a")]), Expr::Interp(vec![Part::Expr(var("b"))]))])),
                st(StmtKind::Try(vec![print_stmt(bin(BinOp::Add, var("a"), l.clone()))], Some(("e".into(), vec![print_stmt(call(var("type"), vec![var("e")]))])), None)),
            ];
            // in a function of its own and at the top level of the program
            out.push(Case::new("E9_a_literal_inside_an_interpolation", vec![fn_stmt(func("f", &[], body.clone())), expr_stmt(call(var("f"), vec![]))]));
            out.push(Case::new("E9_a_literal_inside_an_interpolation", body));
        }
    }
    out
}

fn e8() -> Vec<Case> {
    let mut out = Vec::new();
    let changes: Vec<(&str, Vec<Stmt>)> = vec![
        ("push", vec![expr_stmt(invoke(var("v"), "push", vec![bin(BinOp::Add, var("x"), num(100.0))]))]),
        ("push_twice", vec![expr_stmt(invoke(var("v"), "push", vec![num(7.0)])), expr_stmt(invoke(var("v"), "push", vec![num(8.0)]))]),
        ("pop", vec![expr_stmt(invoke(var("v"), "pop", vec![]))]),
        ("pop_twice", vec![expr_stmt(invoke(var("v"), "pop", vec![])), expr_stmt(invoke(var("v"), "pop", vec![]))]),
        ("overwrite_last", vec![expr_stmt(Expr::SetIndex(Box::new(var("v")), Box::new(bin(BinOp::Sub, invoke(var("v"), "len", vec![]), num(1.0))), Box::new(s("overwritten"))))]),
        ("pop_then_push", vec![expr_stmt(invoke(var("v"), "pop", vec![])), expr_stmt(invoke(var("v"), "push", vec![s("replaced")]))]),
    ];
    for len in [1usize, 3, 4] {
        for at in 0..len.min(3) {
            for (_, change) in &changes {
                for exit in 0..3 {
                    let mut then = change.clone();
                    if exit == 1 {
                        then.push(st(StmtKind::Continue));
                    }
                    let mut body = vec![print_stmt(var("x")), expr_stmt(assign("n", bin(BinOp::Add, var("n"), num(1.0)))), st(StmtKind::If(bin(BinOp::Eq, var("n"), num(at as f64 + 1.0)), then, None))];
                    if exit == 2 {
                        body.push(st(StmtKind::If(bin(BinOp::Gt, var("n"), num(at as f64 + 1.0)), vec![st(StmtKind::Break)], None)));
                    }
                    body.push(print_stmt(invoke(var("v"), "len", vec![])));
                    let elems: Vec<Expr> = (0..len).map(|i| num((i as f64 + 1.0) * 10.0)).collect();
                    let prog = vec![var_stmt("v", Expr::VecLit(elems)), var_stmt("n", num(0.0)), st(StmtKind::For("x".into(), var("v"), body)), print_stmt(var("v")), print_stmt(var("n"))];
                    out.push(Case::new("E8_for_over_a_vec_its_body_changes", prog));
                }
            }
        }
    }
    // an explicit iterator: created, the vec grown / shrunk, then driven to its end
    for (_, change) in &changes {
        for before in 0..3 {
            let mut prog = vec![var_stmt("v", Expr::VecLit(vec![num(10.0), num(20.0), num(30.0)])), var_stmt("x", num(0.0)), var_stmt("it", invoke(var("v"), "iter", vec![]))];
            for _ in 0..before {
                prog.push(print_stmt(invoke(var("it"), "next", vec![])));
            }
            prog.extend(change.clone());
            for _ in 0..5 {
                prog.push(st(StmtKind::Try(vec![print_stmt(invoke(var("it"), "next", vec![]))], Some(("e".into(), vec![print_stmt(call(var("type"), vec![var("e")]))])), None)));
            }
            out.push(Case::new("E8_for_over_a_vec_its_body_changes", prog));
        }
    }
    out
}

/// the operator families (every operator x every pair of operand kinds, unparenthesised chains): also run by
/// C10 on every build configuration
pub fn operator_cases() -> Vec<Case> {
    e1().into_iter().chain(e2(false)).chain(e3(false)).collect()
}

pub fn cases_for_c04(thorough: bool) -> Vec<Case> {
    witnesses().into_iter().chain(e4()).chain(e5(if thorough { 5 } else { 4 })).chain(e6()).chain(e7()).chain(e8()).chain(e9()).collect()
}

pub fn run(ctx: &Ctx) -> Report {
    let thorough = ctx.thorough();
    let mut report = Report::new();
    let size = if thorough { 5 } else { 4 };
    let cases = witnesses().into_iter().chain(e1()).chain(e2(thorough)).chain(e3(thorough)).chain(e4()).chain(e5(size)).chain(e6()).chain(e7()).chain(e8()).chain(e9());
    let hooks = Hooks {
        attribute: &|_c, _m, _o, _mm| None,
        nontrivial: &|_c, m| m.out.len() >= 1 || matches!(m.outcome, Outcome::Uncaught(_)),
        fuel: 2_000_000,
    };
    let stats = mcheck::run(ctx, cases, &hooks);
    mcheck::fill_report(
        &mut report,
        &stats,
        "every program of the families E1 (every binary/unary/logical operator x every ordered pair of operand kinds), E2/E3 (every operator chain of 3/4 operands in every grouping, printed with minimal and with full parentheses), E4 (evaluation-order probes for every operator and composite expression, compound assignment to every target kind), E5 (every statement tree up to the size bound over block/if/else/else-if/while/for/break/continue/return/var/assign/print, run on every input vector), E6 (operators applied again to the same operand objects), E8 (a for loop over a vec that its own body grows, shrinks or overwrites at each position, with continue / break / neither, and a hand-driven iterator over a vec changed after it was made) and E7 (a failing statement of 12 shapes - assignment to an undeclared name, a failing right-hand side, failing compound assignment, element / field / map writes that fail, pop of an empty vec, a var whose initialiser fails, a call of the wrong arity, a for over a non-iterable - at top level and in a function, run twice, with every name and container involved probed afterwards) is executed on the real interpreter and compared with M-eval (printed lines, outcome, error class). non-trivial = prints at least one line or ends in an error; distinct = distinct source text.",
        json!({"statement_tree_nodes": size, "operand_kinds": operand_pool().len(), "operators": 19}),
    );
    report.assumptions = vec![
        "M-eval transcribes the language's evident definition (DESIGN.md Appendix A); programs beyond the size bounds are not covered".into(),
        "message texts of built-in errors are compared only where the model defines them (class always)".into(),
    ];
    if stats.impl_compile_errors * 20 > stats.evaluations {
        crate::pool::machinery_failure("more than 5% of generated programs were rejected by the compiler: the generator explores nothing");
    }
    report.violations = stats.violations;
    // the operator families once more on the optimised build of the runner: what an operator answers is a
    // function of its operands, not of the build (unchecked conversions, wrapping arithmetic)
    {
        let hooks = Hooks { attribute: &|_c, _m, _o, _mm| None, nontrivial: &|_c, _m| true, fuel: 2_000_000 };
        let cases = operator_cases();
        let n = cases.len();
        let st = mcheck::run_on(ctx, &ctx.runner_opt, cases.into_iter(), &hooks);
        report.cov("operator_families_on_the_optimised_runner", json!({"cases": n, "executions": st.executions}));
        report.violations.extend(st.violations);
    }
    crate::c12::run_cyclic_family(ctx, &mut report);
    // control flow at the compiler's limits (C04's limit family, the jump distances): every kind of jump sized
    // to 65534..65537 bytes and beyond - the largest loop, if, else, logical operator and try statement the
    // compiler accepts runs as the source says, one byte more is rejected
    {
        let cases = crate::c04::limit_expects(ctx, &["limit_jump_distance"]);
        let n = cases.len();
        let st = crate::expect::run_expect(ctx, &ctx.runner_checked, cases.into_iter(), &|_e, _r| None, &|_e, _p| None);
        report.cov("control_flow_at_the_jump_limits", json!(n));
        report.violations.extend(st.violations);
    }
    report
}
