//! The engine shared by every "bounded-exhaustive enumeration vs reference evaluator" check
//! (C05-C08, C14, C17, C18, parts of C04): cases are generated on the main thread, shipped to workers;
//! each worker prints the program, runs M-eval, runs the real interpreter (fresh Vm per program, in a
//! crash-isolated child), compares, confirms every disagreement twice in isolation, and attributes it
//! to a listed finding only through the check's own trigger predicate.
use crate::ast::*;
use crate::common::*;
use crate::diff::*;
use crate::meval::{ModuleSource, Outcome};
use crate::pool::{par_map, Obs, Runner};
use proto::{Request, SnippetResult};
use serde_json::{json, Value as J};
use std::collections::{BTreeMap, HashSet};
use std::sync::Arc;

pub struct Case {
    pub family: &'static str,
    pub prog: Vec<Stmt>,
    pub modules: BTreeMap<String, ModuleSource>,
    pub opts: CmpOpts,
    /// also print fully parenthesised and require the same result
    pub also_full_parens: bool,
    /// extra source text appended verbatim after the printed program (not seen by the model); used for
    /// nothing that prints
    pub note: String,
    /// source snippets fed to the same interpreter before the program (a history the program starts
    /// from: failed runs, abandoned fibers, ...).  The model does not see them: the program must behave
    /// as on a new interpreter.  Their own results are not compared; none may panic.
    pub prelude: Vec<String>,
    /// metamorphic cases: the source the implementation runs instead of the printed program (the model
    /// runs `prog`); the law that makes both observationally equal is stated by the family
    pub impl_src: Option<String>,
    /// the line of the source on which the program's (and every module's) first statement sits
    pub first_line: usize,
    /// modules only the implementation is given (metamorphic cases that move the program into a module)
    pub impl_modules: BTreeMap<String, String>,
    /// feed the program to the interpreter one top-level statement at a time (each a run of its own on the
    /// same interpreter, as a REPL would); the printed lines up to and including the first run that fails,
    /// and that run's outcome, are the program's
    pub piecewise: bool,
}

impl Case {
    pub fn new(family: &'static str, prog: Vec<Stmt>) -> Case {
        Case { family, prog, modules: BTreeMap::new(), opts: CmpOpts { trace: false, kind: false }, also_full_parens: false, note: String::new(), prelude: Vec::new(), impl_src: None, first_line: 1, impl_modules: BTreeMap::new(), piecewise: false }
    }
}

#[derive(Default)]
pub struct Stats {
    pub evaluations: usize,
    pub executions: usize,
    pub distinct: HashSet<u64>,
    pub nontrivial: HashSet<u64>,
    pub outcome_signatures: HashSet<u64>,
    pub unsupported: usize,
    pub unsupported_reasons: BTreeMap<String, usize>,
    pub impl_compile_errors: usize,
    pub model_ok: usize,
    pub model_uncaught: usize,
    pub by_family: BTreeMap<String, usize>,
    pub violations: Vec<(String, J)>,
    pub attributed: BTreeMap<String, usize>,
    pub attributed_samples: BTreeMap<String, J>,
    pub samples: Vec<J>,
    pub nondeterministic: usize,
    pub events_seen: BTreeMap<String, usize>,
    /// cases not run because the run had already confirmed FLOOD_LIMIT violations (only ever next to violations)
    pub left_out_after_flood: usize,
}

impl Stats {
    pub fn merge(&mut self, o: Stats) {
        self.evaluations += o.evaluations;
        self.executions += o.executions;
        self.distinct.extend(o.distinct);
        self.nontrivial.extend(o.nontrivial);
        self.outcome_signatures.extend(o.outcome_signatures);
        self.unsupported += o.unsupported;
        for (k, v) in o.unsupported_reasons {
            *self.unsupported_reasons.entry(k).or_insert(0) += v;
        }
        self.impl_compile_errors += o.impl_compile_errors;
        self.model_ok += o.model_ok;
        self.model_uncaught += o.model_uncaught;
        for (k, v) in o.by_family {
            *self.by_family.entry(k).or_insert(0) += v;
        }
        self.violations.extend(o.violations);
        for (k, v) in o.attributed {
            *self.attributed.entry(k).or_insert(0) += v;
        }
        for (k, v) in o.attributed_samples {
            self.attributed_samples.entry(k).or_insert(v);
        }
        if self.samples.len() < 6 {
            self.samples.extend(o.samples);
        }
        self.nondeterministic += o.nondeterministic;
        for (k, v) in o.events_seen {
            *self.events_seen.entry(k).or_insert(0) += v;
        }
        self.left_out_after_flood += o.left_out_after_flood;
    }
}

pub struct Hooks<'a> {
    /// (case, model run, observed, mismatch text) -> finding id if the disagreement is a listed finding
    pub attribute: &'a (dyn Fn(&Case, &ModelRun, &SnippetResult, &str) -> Option<String> + Sync),
    /// is this case non-trivial by the check's stated rule?
    pub nontrivial: &'a (dyn Fn(&Case, &ModelRun) -> bool + Sync),
    pub fuel: u64,
}

pub fn module_sources(case: &Case) -> BTreeMap<String, String> {
    let mut m = BTreeMap::new();
    for (k, v) in &case.modules {
        let text = if v.compile_error {
            "var = ;\n".to_string()
        } else {
            print_program_from(v.program.as_deref().unwrap_or(&[]), false, case.first_line)
        };
        m.insert(k.clone(), text);
    }
    for (k, v) in &case.impl_modules {
        m.insert(k.clone(), v.clone());
    }
    m
}

fn request_snippets(case: &Case, src: &str) -> Vec<String> {
    let mut snippets: Vec<String> = case.prelude.to_vec();
    if case.piecewise {
        snippets.extend(case.prog.iter().map(|st| print_program(std::slice::from_ref(st), false)));
    } else {
        snippets.push(src.to_string());
    }
    snippets
}

fn run_alone(runner: &mut Runner, case: &Case, src: &str, modules: &BTreeMap<String, String>, fuel: u64) -> Obs {
    let mut req = Request { op: "run".into(), snippets: request_snippets(case, src), modules: modules.clone(), fuel: Some(fuel), ..Default::default() };
    runner.call(&mut req)
}

/// the result of the program itself: the last snippet of the request (for a program fed piece by piece:
/// the pieces' printed lines up to and including the first one that did not end normally, with that
/// piece's outcome); a panic in any snippet is the case's result (nothing may panic)
fn obs_result(case: &Case, o: &Obs) -> Option<SnippetResult> {
    o.resp().and_then(|r| {
        if let Some(p) = r.results.iter().find(|x| matches!(x.outcome, proto::Outcome::Panic { .. })) {
            return Some(p.clone());
        }
        if case.piecewise {
            let mut out: Vec<String> = Vec::new();
            let mut outcome = proto::Outcome::Ok;
            for piece in r.results.iter().skip(case.prelude.len()) {
                out.extend(piece.out.iter().cloned());
                if !matches!(piece.outcome, proto::Outcome::Ok) {
                    outcome = piece.outcome.clone();
                    break;
                }
            }
            return Some(SnippetResult { out, outcome });
        }
        r.results.last().cloned()
    })
}

fn outcome_json(r: &SnippetResult) -> J {
    json!({"out": r.out, "outcome": r.outcome})
}

fn judge(
    stats: &mut Stats,
    runner: &mut Runner,
    hooks: &Hooks,
    case: &Case,
    src: &str,
    modules: &BTreeMap<String, String>,
    model: &ModelRun,
    first: Option<SnippetResult>,
    first_desc: String,
) {
    stats.executions += 1;
    let mismatch = match &first {
        Some(r) => compare(model, r, case.opts),
        None => Some(format!("run ended in {}", first_desc)),
    };
    if let Some(r) = &first {
        if let proto::Outcome::Err { kind, .. } = &r.outcome {
            if kind == "CompileError" && matches!(model.outcome, Outcome::Ok) {
                stats.impl_compile_errors += 1;
            }
        }
    }
    let Some(mismatch) = mismatch else { return };
    // confirm twice in isolation
    let a = run_alone(runner, case, src, modules, hooks.fuel);
    let b = run_alone(runner, case, src, modules, hooks.fuel);
    stats.executions += 2;
    let (ra, rb) = (obs_result(case, &a), obs_result(case, &b));
    let same = match (&ra, &rb) {
        (Some(x), Some(y)) => x.out.iter().map(|l| normalise(l)).eq(y.out.iter().map(|l| normalise(l))) && std::mem::discriminant(&x.outcome) == std::mem::discriminant(&y.outcome),
        (None, None) => a.describe() == b.describe(),
        _ => false,
    };
    let confirmed = match &ra {
        Some(r) => compare(model, r, case.opts),
        None => Some(format!("run ended in {}", a.describe())),
    };
    let confirmed_b = match &rb {
        Some(r) => compare(model, r, case.opts),
        None => Some(format!("run ended in {}", b.describe())),
    };
    // A case is a violation when it disagrees with the model in the batch and in both runs alone - also
    // when the three runs disagree with it in different ways (behaviour that depends on addresses or on
    // freed memory varies from run to run and is no less wrong for that).  A disagreement that does not
    // repeat every time is unstable: reported at the end, and no verdict if nothing else was found.
    let (Some(mut mismatch2), Some(_)) = (confirmed, confirmed_b) else {
        stats.nondeterministic += 1;
        eprintln!("UNSTABLE (a disagreement with the model that does not repeat in every run): {}\n{}\n  batch: {:?}\n  alone: {:?}\n  alone again: {:?}", mismatch, src, first, ra, rb);
        return;
    };
    if !same {
        mismatch2 = format!("{} (a second run alone disagrees with the model differently: {:?})", mismatch2, rb.as_ref().map(|r| r.out.iter().take(6).cloned().collect::<Vec<_>>()));
    }
    let observed = match &ra {
        Some(r) => r.clone(),
        None => SnippetResult { out: vec![], outcome: proto::Outcome::Panic { msg: a.describe() } },
    };
    let artefact = json!({
        "family": case.family,
        "request": {"op": "run", "snippets": request_snippets(case, src), "modules": modules, "fuel": hooks.fuel},
        "result_index": case.prelude.len(),
        "piecewise": case.piecewise,
        "source": src,
        "modules": modules,
        "expected": {"out": model.out, "outcome": model.outcome},
        "observed": outcome_json(&observed),
        "mismatch": mismatch2,
        "model_events": model.events.iter().map(|e| format!("{}@{}", e.name, e.at)).collect::<Vec<_>>(),
        "cmp": {"trace": case.opts.trace, "kind": case.opts.kind},
    });
    match (hooks.attribute)(case, model, &observed, &mismatch2) {
        Some(f) => {
            *stats.attributed.entry(f.clone()).or_insert(0) += 1;
            stats.attributed_samples.entry(f).or_insert(artefact);
        }
        None => stats.violations.push((format!("[{}] {}\n{}", case.family, mismatch2, src), artefact)),
    }
}

fn judge_batch(runner: &mut Runner, hooks: &Hooks, batch: Vec<Case>, check_determinism: bool) -> Stats {
    let mut stats = Stats::default();
    // 1. print + model
    struct Prepared {
        case_idx: usize,
        src: String,
        modules: BTreeMap<String, String>,
        model: ModelRun,
    }
    let mut prepared: Vec<Prepared> = Vec::new();
    for (ci, case) in batch.iter().enumerate() {
        stats.evaluations += 1;
        *stats.by_family.entry(case.family.to_string()).or_insert(0) += 1;
        let variants: &[bool] = if case.also_full_parens { &[false, true] } else { &[false] };
        // printing fixes the line numbers of module statements before the model clones them
        let modules_text = module_sources(case);
        for &full in variants {
            let prog = Arc::new(case.prog.clone());
            let mut src = print_program_from(&prog, full, case.first_line);
            src.push_str(&case.note);
            if let Some(other) = &case.impl_src {
                src = other.clone();
            }
            let model = model_run(prog, &case.modules);
            for e in &model.events {
                *stats.events_seen.entry(e.name.to_string()).or_insert(0) += 1;
            }
            match &model.outcome {
                Outcome::Unsupported(why) => {
                    stats.unsupported += 1;
                    *stats.unsupported_reasons.entry(why.clone()).or_insert(0) += 1;
                    continue;
                }
                Outcome::Ok => stats.model_ok += 1,
                Outcome::Uncaught(_) => stats.model_uncaught += 1,
            }
            let h = fnv64(&format!("{}\u{0}{:?}\u{0}{:?}\u{0}{}", src, modules_text, case.prelude, case.piecewise));
            if stats.distinct.insert(h) && (hooks.nontrivial)(case, &model) {
                stats.nontrivial.insert(h);
            }
            let sig = fnv64(&format!("{:?}|{:?}", model.out, match &model.outcome { Outcome::Uncaught(u) => u.class.clone(), _ => "ok".into() }));
            stats.outcome_signatures.insert(sig);
            if stats.samples.len() < 2 {
                stats.samples.push(json!({"family": case.family, "source": src, "model_output": model.out}));
            }
            prepared.push(Prepared { case_idx: ci, src, modules: modules_text.clone(), model });
        }
    }
    // 2. execute: programs without modules share one run_each request
    let plain: Vec<usize> = (0..prepared.len()).filter(|&i| prepared[i].modules.is_empty() && batch[prepared[i].case_idx].prelude.is_empty() && !batch[prepared[i].case_idx].piecewise).collect();
    let mut results: Vec<Option<(Option<SnippetResult>, String)>> = (0..prepared.len()).map(|_| None).collect();
    if !plain.is_empty() {
        let mut req = Request {
            op: "run_each".into(),
            snippets: plain.iter().map(|&i| prepared[i].src.clone()).collect(),
            fuel: Some(hooks.fuel),
            ..Default::default()
        };
        let obs = runner.call(&mut req);
        let got = obs.resp().map(|r| r.results.clone()).unwrap_or_default();
        for (k, &i) in plain.iter().enumerate() {
            match got.get(k) {
                Some(r) if !matches!(r.outcome, proto::Outcome::Panic { .. }) || k + 1 == got.len() => {
                    results[i] = Some((Some(r.clone()), String::new()));
                }
                _ => {}
            }
        }
    }
    for i in 0..prepared.len() {
        if results[i].is_none() {
            let o = run_alone(runner, &batch[prepared[i].case_idx], &prepared[i].src, &prepared[i].modules, hooks.fuel);
            results[i] = Some((obs_result(&batch[prepared[i].case_idx], &o), o.describe()));
        }
    }
    // 3. compare
    for (i, p) in prepared.iter().enumerate() {
        let (first, desc) = results[i].take().unwrap();
        if check_determinism {
            let again = run_alone(runner, &batch[p.case_idx], &p.src, &p.modules, hooks.fuel);
            let same = match (&first, obs_result(&batch[p.case_idx], &again)) {
                (Some(x), Some(y)) => x.out.iter().map(|l| normalise(l)).eq(y.out.iter().map(|l| normalise(l))),
                (None, None) => true,
                _ => false,
            };
            if !same {
                stats.nondeterministic += 1;
                eprintln!("NONDETERMINISTIC (determinism probe):\n{}\n  first: {:?}\n  again: {:?}", p.src, first, again.describe());
            }
        }
        judge(&mut stats, runner, hooks, &batch[p.case_idx], &p.src, &p.modules, &p.model, first, desc);
    }
    stats
}

pub fn run<I>(ctx: &Ctx, cases: I, hooks: &Hooks) -> Stats
where
    I: Iterator<Item = Case> + Send,
{
    run_on(ctx, &ctx.runner_checked, cases, hooks)
}

/// the same on another build of the runner (the optimised one)
pub fn run_on<I>(ctx: &Ctx, runner_path: &std::path::PathBuf, cases: I, hooks: &Hooks) -> Stats
where
    I: Iterator<Item = Case> + Send,
{
    struct Batcher<I: Iterator<Item = Case>> {
        it: I,
        n: usize,
    }
    impl<I: Iterator<Item = Case>> Iterator for Batcher<I> {
        type Item = Vec<Case>;
        fn next(&mut self) -> Option<Vec<Case>> {
            let mut b = Vec::with_capacity(self.n);
            for c in self.it.by_ref() {
                b.push(c);
                if b.len() == self.n {
                    break;
                }
            }
            if b.is_empty() {
                None
            } else {
                Some(b)
            }
        }
    }
    // A change that breaks thousands of cases, each of them slowly (runs that only end when their instruction
    // budget does, each confirmed twice in isolation), must not keep the check from reaching its verdict: once
    // FLOOD_LIMIT violations are confirmed the remaining cases are left out, and the evidence says how many
    // (exhaustive: false - only ever next to violations).
    const FLOOD_LIMIT: usize = 400;
    let confirmed = std::sync::atomic::AtomicUsize::new(0);
    let parts = par_map(runner_path, ctx.workers, Batcher { it: cases, n: 24 }, |runner, i, batch| {
        if confirmed.load(std::sync::atomic::Ordering::Relaxed) >= FLOOD_LIMIT {
            let mut st = Stats::default();
            st.left_out_after_flood = batch.len();
            return st;
        }
        runner.timeout = std::time::Duration::from_secs(30);
        runner.recycle_after = 400;
        let st = judge_batch(runner, hooks, batch, i < 3);
        confirmed.fetch_add(st.violations.len(), std::sync::atomic::Ordering::Relaxed);
        st
    });
    let mut total = Stats::default();
    for p in parts {
        total.merge(p);
    }
    if total.nondeterministic > 0 && total.violations.is_empty() {
        crate::pool::machinery_failure(&format!("{} cases behaved differently when re-run: the harness does not own all nondeterminism", total.nondeterministic));
    }
    total
}

/// Standard coverage keys from Stats.
pub fn fill_report(report: &mut Report, stats: &Stats, rule: &str, bounds: J) {
    report.cov("evaluations", json!(stats.evaluations));
    report.cov("distinct_nontrivial", json!(stats.nontrivial.len()));
    report.cov("states", json!(stats.distinct.len()));
    report.cov("transitions", json!(stats.executions));
    report.cov("traces_validated_against_impl", json!(stats.distinct.len() - 0));
    report.cov("rule", json!(rule));
    report.cov("bounds", bounds);
    report.cov("exhaustive", json!(stats.left_out_after_flood == 0));
    if stats.left_out_after_flood > 0 {
        report.cov("cases_left_out_after_400_confirmed_violations", json!(stats.left_out_after_flood));
    }
    report.cov("by_family", json!(stats.by_family));
    report.cov("distinct_model_outcomes", json!(stats.outcome_signatures.len()));
    report.cov("model_ok", json!(stats.model_ok));
    report.cov("model_uncaught_error", json!(stats.model_uncaught));
    report.cov("skipped_outside_model", json!({"count": stats.unsupported, "reasons": stats.unsupported_reasons}));
    report.cov("generated_programs_rejected_by_compiler", json!(stats.impl_compile_errors));
    report.cov("model_events", json!(stats.events_seen));
    report.cov("attributed_to_listed_findings", json!(stats.attributed));
    report.cov("samples", json!(stats.samples));
}
