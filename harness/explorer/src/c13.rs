//! C13 — indexing, slicing and string functions match a byte-exact model (M-str in mnat.rs).
use crate::ast::*;
use crate::common::*;
use crate::mcheck::{self, Case, Hooks};
use serde_json::json;

const ALPHA: [&str; 4] = ["a", "\u{e9}", "\u{20ac}", "\u{1f600}"];

fn strings_upto(alpha: &[&str], max: usize) -> Vec<String> {
    let mut all = vec![String::new()];
    let mut frontier = vec![String::new()];
    for _ in 0..max {
        let mut next = Vec::new();
        for s0 in &frontier {
            for c in alpha {
                next.push(format!("{}{}", s0, c));
            }
        }
        all.extend(next.iter().cloned());
        frontier = next;
    }
    all
}

/// one probe = one printed line: `try { print([<e>]); } catch err { print(type(err)); }`
fn probe(e: Expr) -> Stmt {
    st(StmtKind::Try(vec![print_stmt(Expr::VecLit(vec![e]))], Some(("err".into(), vec![print_stmt(call(var("type"), vec![var("err")]))])), None))
}

fn odd_indices() -> Vec<Expr> {
    vec![
        num(0.5),
        num(1.5),
        num(-0.5),
        num(f64::NAN),
        num(f64::INFINITY),
        num(f64::NEG_INFINITY),
        num(9007199254740992.0),
        num(-9007199254740992.0),
        num(9223372036854775808.0),
        num(-9223372036854775808.0),
        num(1e300),
        Expr::Nil,
        s("a"),
        Expr::True,
        Expr::VecLit(vec![num(0.0)]),
    ]
}

fn int_domain(len: usize) -> Vec<i64> {
    let l = len as i64;
    (-(l + 2)..=(l + 2)).collect()
}

fn range_of(b: i64, e: i64) -> Expr {
    Expr::Paren(Box::new(bin(BinOp::Range, num(b as f64), num(e as f64))))
}

fn probes(thorough: bool) -> Vec<(&'static str, Stmt)> {
    let mut out: Vec<(&'static str, Stmt)> = Vec::new();
    let strs = strings_upto(&ALPHA, if thorough { 6 } else { 5 });
    let subs: Vec<String> = strings_upto(&ALPHA, 2).into_iter().filter(|x| !x.is_empty()).collect();
    for t in &strs {
        let len = t.len();
        let nchars = t.chars().count();
        let lit = || s(t);
        // S1 index
        for i in int_domain(len) {
            out.push(("S1_string_index", probe(index(lit(), num(i as f64)))));
        }
        for i in odd_indices() {
            out.push(("S1_string_index_odd", probe(index(lit(), i))));
        }
        // S2 slices
        if true {
            for b in int_domain(len) {
                for e in int_domain(len) {
                    out.push(("S2_string_slice", probe(index(lit(), range_of(b, e)))));
                }
            }
        }
        // S4 methods
        out.push(("S4_len_count", probe(Expr::TupleLit(vec![invoke(lit(), "len", vec![]), invoke(lit(), "count_chars", vec![]), invoke(lit(), "to_bytes", vec![]), invoke(lit(), "to_code_points", vec![])]))));
        out.push(("S4_iterate", probe(invoke(invoke(lit(), "iter", vec![]), "collect", vec![]))));
        for i in int_domain(nchars) {
            out.push(("S4_char_byte_index", probe(invoke(lit(), "char_byte_index", vec![num(i as f64)]))));
        }
        for i in odd_indices().into_iter().take(6) {
            out.push(("S4_char_byte_index_odd", probe(invoke(lit(), "char_byte_index", vec![i]))));
        }
        if nchars <= if thorough { 4 } else { 3 } {
            for sub in subs.iter().chain(std::iter::once(&String::new())) {
                // find: every start for short needles; for two-character needles only when they can occur
                let starts: Vec<i64> = if sub.chars().count() <= 1 || t.contains(sub.as_str()) || true { int_domain(len) } else { vec![0, -1] };
                for st0 in starts {
                    out.push(("S4_find", probe(invoke(lit(), "find", vec![s(sub), num(st0 as f64)]))));
                }
                for new in ["", "x", "\u{e9}\u{e9}"] {
                    if sub.chars().count() <= 1 || t.contains(sub.as_str()) || sub.is_empty() {
                        out.push(("S4_replace", probe(invoke(lit(), "replace", vec![s(sub), s(new)]))));
                    }
                }
                out.push(("S4_split", probe(invoke(lit(), "split", vec![s(sub)]))));
                out.push(("S4_starts_ends", probe(Expr::TupleLit(vec![invoke(lit(), "starts_with", vec![s(sub)]), invoke(lit(), "ends_with", vec![s(sub)])]))));
            }
            for bad in [Expr::Nil, num(1.0), Expr::VecLit(vec![])] {
                out.push(("S4_wrong_argument_kinds", probe(invoke(lit(), "find", vec![bad.clone(), num(0.0)]))));
                out.push(("S4_wrong_argument_kinds", probe(invoke(lit(), "find", vec![s("a"), bad.clone()]))));
                out.push(("S4_wrong_argument_kinds", probe(invoke(lit(), "replace", vec![bad.clone(), s("x")]))));
                out.push(("S4_wrong_argument_kinds", probe(invoke(lit(), "replace", vec![s("a"), bad.clone()]))));
                out.push(("S4_wrong_argument_kinds", probe(invoke(lit(), "split", vec![bad.clone()]))));
                out.push(("S4_wrong_argument_kinds", probe(invoke(lit(), "starts_with", vec![bad.clone()]))));
                out.push(("S4_wrong_argument_kinds", probe(invoke(lit(), "ends_with", vec![bad.clone()]))));
            }
            for odd in odd_indices().into_iter().take(8) {
                out.push(("S4_find_odd_start", probe(invoke(lit(), "find", vec![s("a"), odd]))));
            }
            // wrong arities
            out.push(("S4_arity", probe(invoke(lit(), "len", vec![num(1.0)]))));
            out.push(("S4_arity", probe(invoke(lit(), "find", vec![s("a")]))));
            out.push(("S4_arity", probe(invoke(lit(), "split", vec![]))));
        }
    }
    // classification over an extended alphabet
    // (ASCII letters, digits and hexadecimal digits only: characters that Unicode also calls letters,
    // digits or numbers - superscripts, fractions, Arabic-Indic, full-width and Roman numerals, Greek, CJK -
    // are none of them)
    for t in strings_upto(&["Z", "7", "f", "_", " ", "\u{e9}", "g", "\u{b2}", "\u{bd}", "\u{663}", "\u{2167}", "\u{ff14}", "\u{ff21}", "\u{ff46}", "\u{3b1}", "\u{4e09}", "\u{a0}", "\u{1d7d9}"], 2) {
        out.push(("S4_classification", probe(Expr::TupleLit(vec![invoke(s(&t), "is_alpha", vec![]), invoke(s(&t), "is_digit", vec![]), invoke(s(&t), "is_hexdigit", vec![])]))));
    }
    // to_num texts
    for t in ["", "0", "1", "-1", "+1", "1.5", ".5", "5.", "1e3", "1E-2", "inf", "-inf", "NaN", "nan", "infinity", " 1", "1 ", "0x10", "1_000", "--1", "1.2.3", "\u{e9}", "1e400", "4.9e-324", "00012", "\u{663}", "\u{ff14}\u{ff12}", "\u{b2}", "1\u{663}", "\u{bd}", "-Inf", "INF", "+inf", "-NaN", "1e", "e1", "-", "+", "."] {
        out.push(("S4_to_num", probe(invoke(s(t), "to_num", vec![]))));
    }
    // S7: failing calls whose error message quotes the text they were given, for every length of that text
    // from 0 to 300 bytes of ASCII followed by one character of 2, 3 or 4 bytes (a message is built, cut,
    // padded or copied somewhere: every offset at which a multi-byte character can straddle a limit)
    for len in 0..=300usize {
        for tail in ["\u{e9}", "\u{20ac}", "\u{1f600}"] {
            let text = format!("{}{}", "a".repeat(len), tail);
            out.push(("S7_long_text_in_error_messages", probe(invoke(s(&text), "to_num", vec![]))));
            if len % 4 == 0 {
                out.push(("S7_long_text_in_error_messages", probe(invoke(s("x"), "starts_with", vec![Expr::VecLit(vec![s(&text)])]))));
                out.push(("S7_long_text_in_error_messages", probe(invoke(var("String"), "from_utf8", vec![Expr::VecLit(vec![s(&text)])]))));
                out.push(("S7_long_text_in_error_messages", probe(index(s(&text), s(&text)))));
            }
        }
    }
    // S3 sequences
    for n in 0..=4usize {
        let items: Vec<Expr> = (0..n).map(|i| s(&format!("e{}", i))).collect();
        for tuple in [false, true] {
            let mk = || if tuple { Expr::TupleLit(items.clone()) } else { Expr::VecLit(items.clone()) };
            for i in int_domain(n) {
                out.push(("S3_sequence_index", probe(index(mk(), num(i as f64)))));
                for e in int_domain(n) {
                    out.push(("S3_sequence_slice", probe(index(mk(), range_of(i, e)))));
                }
                // a slice of a vec is a sequence of its own: changing either afterwards leaves the other alone
                if !tuple {
                    for e in int_domain(n) {
                        out.push((
                            "S3_slice_is_a_fresh_sequence",
                            st(StmtKind::Block(vec![
                                var_stmt("seq", mk()),
                                var_stmt("part", Expr::Nil),
                                st(StmtKind::Try(vec![expr_stmt(assign("part", index(var("seq"), range_of(i, e))))], Some(("err".into(), vec![print_stmt(call(var("type"), vec![var("err")]))])), None)),
                                st(StmtKind::If(
                                    bin(BinOp::Ne, var("part"), Expr::Nil),
                                    vec![
                                        expr_stmt(invoke(var("part"), "push", vec![s("pushed on the slice")])),
                                        expr_stmt(invoke(var("seq"), "push", vec![s("pushed on the source")])),
                                        st(StmtKind::Try(vec![expr_stmt(Expr::SetIndex(Box::new(var("seq")), Box::new(num(0.0)), Box::new(s("set in the source"))))], Some(("err".into(), vec![])), None)),
                                        st(StmtKind::Try(vec![expr_stmt(Expr::SetIndex(Box::new(var("part")), Box::new(num(0.0)), Box::new(s("set in the slice"))))], Some(("err".into(), vec![])), None)),
                                        print_stmt(Expr::TupleLit(vec![var("seq"), var("part")])),
                                    ],
                                    None,
                                )),
                            ])),
                        ));
                    }
                }
                // set item (vec only; on a tuple a TypeError)
                out.push((
                    "S3_set_item",
                    st(StmtKind::Block(vec![var_stmt("seq", mk()), probe(Expr::SetIndex(Box::new(var("seq")), Box::new(num(i as f64)), Box::new(s("new")))), probe(var("seq"))])),
                ));
            }
            for odd in odd_indices() {
                out.push(("S3_sequence_index_odd", probe(index(mk(), odd.clone()))));
                out.push(("S3_set_item_odd", st(StmtKind::Block(vec![var_stmt("seq", mk()), probe(Expr::SetIndex(Box::new(var("seq")), Box::new(odd), Box::new(s("new"))))]))));
            }
        }
    }
    // indexing things that are not indexable
    for e in [Expr::Nil, num(1.0), Expr::True, Expr::MapLit(vec![(num(1.0), num(2.0))]), range_of(0, 3), var("print")] {
        out.push(("S3_not_indexable", probe(index(e.clone(), num(0.0)))));
        out.push(("S3_not_indexable", probe(Expr::SetIndex(Box::new(e), Box::new(num(0.0)), Box::new(num(1.0))))));
    }
    // S5 byte / code point constructors
    let bytes: Vec<Expr> = [0.0, 65.0, 127.0, 128.0, 191.0, 195.0, 226.0, 240.0, 255.0, 256.0, -1.0, 1.5].iter().map(|b| num(*b)).collect();
    let cps: Vec<Expr> = [0.0, 65.0, 2047.0, 2048.0, 55295.0, 55296.0, 57343.0, 57344.0, 1114111.0, 1114112.0, 4294967296.0, -1.0, 0.5].iter().map(|b| num(*b)).collect();
    let maxlen = if thorough { 4 } else { 3 };
    let mut vecs: Vec<Vec<usize>> = vec![vec![]];
    let mut frontier: Vec<Vec<usize>> = vec![vec![]];
    for _ in 0..maxlen {
        let mut next = Vec::new();
        for v in &frontier {
            for k in 0..bytes.len() {
                let mut w = v.clone();
                w.push(k);
                next.push(w);
            }
        }
        vecs.extend(next.iter().cloned());
        frontier = next;
    }
    for v in &vecs {
        let bl = Expr::VecLit(v.iter().map(|k| bytes[*k].clone()).collect());
        out.push(("S5_from_ascii", probe(invoke(var("String"), "from_ascii", vec![bl.clone()]))));
        out.push(("S5_from_utf8", probe(invoke(var("String"), "from_utf8", vec![bl.clone()]))));
        // what a successfully built string contains
        out.push(("S5_from_utf8_roundtrip", probe(invoke(invoke(var("String"), "from_utf8", vec![bl]), "to_bytes", vec![]))));
    }
    // multi-byte sequences for from_utf8: all 2-4 byte sequences over boundary bytes
    let lead = [0xC2u8, 0xC3, 0xDF, 0xE0, 0xE2, 0xED, 0xEF, 0xF0, 0xF4, 0xF5, 0xC0, 0xC1];
    let cont = [0x80u8, 0x82, 0x9F, 0xA0, 0xAC, 0xBF, 0x41, 0xC0];
    for &l in &lead {
        for &c1 in &cont {
            let mk = |bs: &[u8]| Expr::VecLit(bs.iter().map(|b| num(*b as f64)).collect());
            out.push(("S5_from_utf8_sequences", probe(invoke(invoke(var("String"), "from_utf8", vec![mk(&[l, c1])]), "to_code_points", vec![]))));
            for &c2 in &cont {
                out.push(("S5_from_utf8_sequences", probe(invoke(invoke(var("String"), "from_utf8", vec![mk(&[l, c1, c2])]), "to_code_points", vec![]))));
                if l >= 0xF0 {
                    for &c3 in &cont {
                        out.push(("S5_from_utf8_sequences", probe(invoke(invoke(var("String"), "from_utf8", vec![mk(&[l, c1, c2, c3])]), "to_code_points", vec![]))));
                    }
                }
            }
        }
    }
    let mut cpv: Vec<Vec<usize>> = vec![vec![]];
    for a in 0..cps.len() {
        cpv.push(vec![a]);
        for b in 0..cps.len() {
            cpv.push(vec![a, b]);
        }
    }
    for v in &cpv {
        let cl = Expr::VecLit(v.iter().map(|k| cps[*k].clone()).collect());
        out.push(("S5_from_code_points", probe(invoke(invoke(var("String"), "from_code_points", vec![cl]), "to_bytes", vec![]))));
    }
    for bad in [Expr::Nil, s("x"), num(65.0), Expr::VecLit(vec![s("a")]), Expr::VecLit(vec![Expr::Nil]), Expr::TupleLit(vec![num(65.0)])] {
        for f in ["from_ascii", "from_utf8", "from_code_points"] {
            out.push(("S5_wrong_argument_kinds", probe(invoke(var("String"), f, vec![bad.clone()]))));
        }
    }
    out.push(("S5_arity", probe(invoke(var("String"), "from_utf8", vec![]))));
    out.push(("S5_arity", probe(invoke(var("String"), "from", vec![num(1.0), num(2.0)]))));
    // String.from of every printable kind
    for e in [Expr::Nil, Expr::True, num(1.5), num(-0.0), s("x"), Expr::VecLit(vec![s("a"), num(1.0)]), Expr::TupleLit(vec![num(1.0)]), Expr::TupleLit(vec![]), range_of(1, -2), var("Num")] {
        out.push(("S5_string_from", probe(invoke(var("String"), "from", vec![e]))));
    }
    // numbers of every magnitude as text: String.from, interpolation, and inside containers (one text for
    // one number however it is turned into a string)
    for t in ["0", "1", "255", "2147483648", "4294967296", "9007199254740991", "9007199254740992", "9007199254740994", "18014398509481988", "1152921504606846976", "9223372036854774784", "9223372036854775808", "18446744073709551616", "1000000000000000000000", "10000000000000000000000", "123456789.125", "0.1", "0.000001", "0.0000001"] {
        let v: f64 = t.parse().unwrap();
        for sign in [1.0f64, -1.0] {
            let lit = || if sign > 0.0 { Expr::RawNum(t.to_string(), v) } else { un(UnOp::Neg, Expr::RawNum(t.to_string(), v)) };
            out.push(("S5_numbers_as_text", probe(invoke(var("String"), "from", vec![lit()]))));
            out.push(("S5_numbers_as_text", probe(Expr::Interp(vec![Part::Lit("<".into()), Part::Expr(Expr::Paren(Box::new(lit()))), Part::Lit(">".into())]))));
            out.push(("S5_numbers_as_text", probe(invoke(var("String"), "from", vec![Expr::VecLit(vec![lit(), Expr::TupleLit(vec![lit()])])]))));
            out.push(("S5_numbers_as_text", probe(bin(BinOp::Eq, invoke(var("String"), "from", vec![lit()]), Expr::Interp(vec![Part::Expr(Expr::Paren(Box::new(lit())))])))));
            out.push(("S5_numbers_as_text", probe(invoke(invoke(var("String"), "from", vec![lit()]), "len", vec![]))));
        }
    }
    // S6 escape forms in literals: (source text, value)
    let escapes: Vec<(&str, String)> = vec![
        ("\\x41", "A".into()),
        ("\\x7f", "\u{7f}".into()),
        ("\\xe9", String::from_utf8(vec![0xC3, 0xE9 & 0xBF]).unwrap()),
        ("\\x80", String::from_utf8(vec![0xC3, 0x80]).unwrap()),
        ("\\xff", String::from_utf8(vec![0xC3, 0xBF]).unwrap()),
        ("\\uc3a9", "\u{e9}".into()),
        ("\\Uf09f9880", "\u{1f600}".into()),
        ("\\a\\b\\f\\n\\r\\t\\v\\0", "\u{7}\u{8}\u{c}\n\r\t\u{b}\0".into()),
        ("\\\"\\\\\\$", "\"\\$".into()),
        ("a\\x41b", "aAb".into()),
    ];
    for (src, val) in escapes {
        out.push(("S6_escape_forms", probe(invoke(Expr::RawStr(src.to_string(), val.clone()), "to_bytes", vec![]))));
        out.push(("S6_escape_forms", probe(invoke(Expr::RawStr(src.to_string(), val), "len", vec![]))));
    }
    out
}


/// the probe batches as source texts (every `stride`-th batch of the quick bounds): also run by C10 on every
/// build configuration - indices at and beyond the machine's integer limits are where checked arithmetic and
/// wrapping arithmetic part ways
pub fn batch_sources(stride: usize) -> Vec<String> {
    let all = probes(false);
    let mut out = Vec::new();
    let mut cur: Vec<Stmt> = Vec::new();
    let mut k = 0usize;
    for (_, p) in all {
        cur.push(p);
        if cur.len() == 100 {
            let batch = std::mem::take(&mut cur);
            if k % stride == 0 {
                out.push(print_program(&batch, false));
            }
            k += 1;
        }
    }
    if !cur.is_empty() {
        out.push(print_program(&cur, false));
    }
    out
}

pub fn run(ctx: &Ctx) -> Report {
    let mut report = Report::new();
    let thorough = ctx.thorough();
    let all = probes(thorough);
    let n_probes = all.len();
    let mut by_family: std::collections::BTreeMap<String, usize> = Default::default();
    for (f, _) in &all {
        *by_family.entry(f.to_string()).or_insert(0) += 1;
    }
    // 100 probes per program; every probe prints exactly one line (blocks holding two probes print two)
    let mut cases = Vec::new();
    let mut cur: Vec<Stmt> = Vec::new();
    for (_, p) in all {
        cur.push(p);
        if cur.len() == 100 {
            cases.push(Case::new("probe_batch", std::mem::take(&mut cur)));
        }
    }
    if !cur.is_empty() {
        cases.push(Case::new("probe_batch", cur));
    }
    // vacuity guard: a batch whose program ends early (an error escaping a probe) would silently skip the
    // probes behind it - every batch has to run to its end in the model
    let ended_early = std::sync::atomic::AtomicUsize::new(0);
    let hooks = Hooks {
        attribute: &|_c, _m, _o, _mm| None,
        nontrivial: &|_c, m| {
            if !matches!(m.outcome, crate::meval::Outcome::Ok) {
                ended_early.fetch_add(1, std::sync::atomic::Ordering::Relaxed);
            }
            m.out.len() >= 2
        },
        fuel: 5_000_000,
    };
    let stats = mcheck::run(ctx, cases.into_iter(), &hooks);
    let early = ended_early.load(std::sync::atomic::Ordering::Relaxed);
    if early > 0 {
        crate::pool::machinery_failure(&format!("C13: {} probe batches end before their last probe in the model: probes behind that point are not checked", early));
    }
    mcheck::fill_report(
        &mut report,
        &stats,
        "every probe of: S1 string[i] for every string over a 1/2/3/4-byte alphabet up to 5/6 characters (methods other than index, slice and char_byte_index: up to 3/4 characters) and every integer i in [-len-2, len+2] (every mid-character offset) plus fractional, NaN, +-inf, +-2^53, +-2^63 and non-number indices; S2 every slice b..e over the same integer domain; S3 the same for vecs and tuples of 0-4 elements including item assignment, and for every vec slice that it is a sequence of its own (pushes and item assignments on either side afterwards leave the other alone); S4 every string method with every needle of 1-2 characters and every start, classification of every string of 1-2 characters over 18 characters incl. non-ASCII letters, digits and numerals of several scripts, 40 texts for to_num; S5 from_ascii/from_utf8 over all byte vectors up to length 3/4 from boundary bytes, all lead/continuation boundary sequences, from_code_points over boundary code points; S6 escape forms; S7 failing calls whose message quotes the text they were given (to_num, starts_with / from_utf8 / index with a wrong kind of argument), for every length of that text from 0 to 300 bytes of ASCII followed by a character of 2, 3 or 4 bytes. 100 probes per program, one printed line each, compared with M-str byte for byte (error class on failure).",
        json!({"string_chars": if thorough { 6 } else { 5 }, "byte_vector_length": if thorough { 4 } else { 3 }}),
    );
    // the honest counts: probes, not programs
    report.cov("evaluations", json!(n_probes));
    report.cov("programs", json!(stats.evaluations));
    report.cov("distinct_nontrivial", json!(n_probes));
    report.cov("states", json!(n_probes));
    report.cov("transitions", json!(n_probes));
    report.cov("traces_validated_against_impl", json!(n_probes));
    report.cov("probes_by_family", json!(by_family));
    report.assumptions = vec![
        "(Q) bytes above 127 given to from_ascii and to \\x escapes become the two-byte sequence C3, b&BF (transcribed from the implementation; not ASCII, so no reference defines them)".into(),
        "to_num delegates to the host's decimal parser; its digit-level correctness is C19's subject".into(),
        "every produced string is valid UTF-8 by construction of the comparison (outputs travel as UTF-8 JSON strings; a non-UTF-8 string would crash the runner, which is an observation)".into(),
    ];
    report.violations = stats.violations;
    report
}
