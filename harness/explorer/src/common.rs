//! Shared plumbing: context (paths, tier, seed), evidence writer, violation/replay artefacts and the
//! known-findings file.
use serde::{Deserialize, Serialize};
use serde_json::{json, Value as J};
use std::collections::BTreeMap;
use std::path::PathBuf;
use std::time::Instant;

#[derive(Clone, Debug)]
pub struct Ctx {
    pub id: String,
    pub tier: String,
    pub seed: i64,
    pub verif_dir: PathBuf,
    pub repo_dir: PathBuf,
    pub runner_checked: PathBuf,
    pub runner_opt: PathBuf,
    pub workers: usize,
    pub start: Instant,
}

impl Ctx {
    pub fn thorough(&self) -> bool {
        self.tier == "thorough"
    }
    pub fn elapsed(&self) -> f64 {
        self.start.elapsed().as_secs_f64()
    }
}

#[derive(Serialize, Deserialize, Clone, Debug)]
pub struct Finding {
    pub id: String,
    pub property: String,
    /// "open" or "fixed"
    pub status: String,
    pub title: String,
    /// name of the predicate (implemented in the explorer) that recognises this root cause
    #[serde(default)]
    pub trigger: String,
    /// the specific failing input (source text, request, or history)
    #[serde(default)]
    pub witness: J,
    #[serde(default)]
    pub commit: Option<String>,
    #[serde(default)]
    pub note: String,
}

pub fn load_findings(ctx: &Ctx) -> Vec<Finding> {
    let p = ctx.verif_dir.join("known_findings.json");
    match std::fs::read_to_string(&p) {
        Ok(s) => match serde_json::from_str::<Vec<Finding>>(&s) {
            Ok(v) => v,
            Err(e) => crate::pool::machinery_failure(&format!("known_findings.json: {}", e)),
        },
        Err(_) => Vec::new(),
    }
}

/// What a check hands back to `main`.
#[derive(Default)]
pub struct Report {
    pub level: String,
    pub coverage: BTreeMap<String, J>,
    pub assumptions: Vec<String>,
    /// violations not attributable to a listed finding: (short description, replay artefact)
    pub violations: Vec<(String, J)>,
    /// open findings whose witness reproduced: (finding id, title, attributed case count)
    pub known: Vec<(String, String, usize)>,
    /// notes printed but not verdict-relevant (stale findings etc.)
    pub notes: Vec<String>,
}

impl Report {
    pub fn new() -> Report {
        Report { level: "model_checking".into(), ..Default::default() }
    }
    pub fn cov(&mut self, k: &str, v: J) {
        self.coverage.insert(k.to_string(), v);
    }
}

pub fn fnv64(s: &str) -> u64 {
    let mut h: u64 = 0xcbf29ce484222325;
    for b in s.bytes() {
        h ^= b as u64;
        h = h.wrapping_mul(0x100000001b3);
    }
    h
}

/// Writes evidence, replay artefacts, prints KNOWN-FINDING / VIOLATION lines; returns the exit code.
pub fn finish(ctx: &Ctx, report: Report) -> i32 {
    let mut violations_out = Vec::new();
    let replay_dir = ctx.verif_dir.join("replays").join(&ctx.id);
    if !report.violations.is_empty() {
        let _ = std::fs::create_dir_all(&replay_dir);
    }
    for (desc, artefact) in report.violations.iter().take(25) {
        let text = serde_json::to_string_pretty(&json!({
            "property": ctx.id, "tier": ctx.tier, "description": desc, "case": artefact,
        }))
        .unwrap();
        let name = format!("{:016x}.json", fnv64(&text));
        let path = replay_dir.join(name);
        let _ = std::fs::write(&path, text);
        violations_out.push((desc.clone(), path));
    }
    let mut coverage = report.coverage.clone();
    let known_json: Vec<J> = report
        .known
        .iter()
        .map(|(id, title, n)| json!({"finding": id, "title": title, "attributed_cases": n}))
        .collect();
    coverage.insert("known_findings_reproduced".into(), json!(known_json));
    if !coverage.contains_key("samples") {
        coverage.insert("samples".into(), json!(["<none recorded>"]));
    }
    let evidence = json!({
        "property_id": ctx.id,
        "tier": ctx.tier,
        "seed": ctx.seed,
        "level": report.level,
        "coverage": coverage,
        "assumptions": report.assumptions,
        "wall_s": ctx.elapsed(),
        "violations": report.violations.len(),
    });
    let ev_dir = ctx.verif_dir.join("evidence");
    let _ = std::fs::create_dir_all(&ev_dir);
    let ev_path = ev_dir.join(format!("{}.json", ctx.id));
    if let Err(e) = std::fs::write(&ev_path, serde_json::to_string_pretty(&evidence).unwrap()) {
        crate::pool::machinery_failure(&format!("cannot write evidence: {}", e));
    }
    for n in &report.notes {
        println!("NOTE: property={} {}", ctx.id, n);
    }
    for (id, title, n) in &report.known {
        println!(
            "KNOWN-FINDING: property={} {} {} -- witness reproduced; {} enumerated cases attributed",
            ctx.id, id, title, n
        );
    }
    for (desc, path) in &violations_out {
        println!("VIOLATION property={} replay={}", ctx.id, path.display());
        println!("  {}", desc.replace('\n', "\n  "));
    }
    if report.violations.len() > violations_out.len() {
        println!(
            "  (+{} further violations not written out)",
            report.violations.len() - violations_out.len()
        );
    }
    let summary: Vec<String> = ["evaluations", "states", "transitions", "traces_validated_against_impl", "distinct_nontrivial"]
        .iter()
        .filter_map(|k| report.coverage.get(*k).map(|v| format!("{}={}", k, v)))
        .collect();
    println!(
        "{} {} [{}]: {} violations, {} known findings, {:.1}s  {}",
        ctx.id,
        ctx.tier,
        report.level,
        report.violations.len(),
        report.known.len(),
        ctx.elapsed(),
        summary.join(" ")
    );
    if report.violations.is_empty() {
        0
    } else {
        1
    }
}

/// first / middle / last of a list, as evidence samples
pub fn pick_samples<T: Clone>(v: &[T]) -> Vec<T> {
    let mut out = Vec::new();
    if v.is_empty() {
        return out;
    }
    out.push(v[0].clone());
    if v.len() > 2 {
        out.push(v[v.len() / 2].clone());
    }
    if v.len() > 1 {
        out.push(v[v.len() - 1].clone());
    }
    out
}

// ---------------------------------------------------------------------------------------------------
// listed findings: witnesses

use crate::pool::{Obs, Runner};

/// Runs the witness of a finding on the real interpreter.  A witness is
/// {"source": text, "modules": {path: text}, "expect_out": [lines], "expect_end": "ok" | prefix of the
/// first error message, "gc": optional GcSpec, "expect_no_uaf": bool}; it *fails* (the defect is still
/// there) when the observation differs from what the property requires.
pub fn witness_fails(runner: &mut Runner, f: &Finding) -> Option<bool> {
    let w = &f.witness;
    let source = w.get("source")?.as_str()?.to_string();
    let mut modules = std::collections::BTreeMap::new();
    if let Some(m) = w.get("modules").and_then(|m| m.as_object()) {
        for (k, v) in m {
            modules.insert(k.clone(), v.as_str().unwrap_or("").to_string());
        }
    }
    let snippets: Vec<String> = match w.get("snippets").and_then(|s| s.as_array()) {
        Some(a) => a.iter().map(|x| x.as_str().unwrap_or("").to_string()).collect(),
        None => vec![source],
    };
    let gc: Option<proto::GcSpec> = w.get("gc").and_then(|g| serde_json::from_value(g.clone()).ok());
    // optional: run on a thread with this stack size (KiB); "runner": "release" selects the optimised runner
    let stack_kb: Option<usize> = w.get("stack_kb").and_then(|x| x.as_u64()).map(|x| x as usize);
    let mut req = proto::Request {
        op: "run".into(),
        snippets,
        modules,
        fuel: Some(5_000_000),
        gc,
        want: vec!["uaf".into()],
        stack_kb,
        ..Default::default()
    };
    if stack_kb.is_some() {
        req.fuel = None;
    }
    let obs = runner.call(&mut req);
    let resp = match &obs {
        Obs::Resp(r) => r,
        _ => return Some(true), // crash / hang: certainly not what the property requires
    };
    if w.get("expect_no_uaf").and_then(|b| b.as_bool()).unwrap_or(false) && !resp.uaf.is_empty() {
        return Some(true);
    }
    let last = resp.results.last()?;
    let all_out: Vec<String> = resp.results.iter().flat_map(|r| r.out.iter().cloned()).collect();
    if let Some(exp) = w.get("expect_out").and_then(|e| e.as_array()) {
        let exp: Vec<String> = exp.iter().map(|x| x.as_str().unwrap_or("").to_string()).collect();
        if exp != all_out {
            return Some(true);
        }
    }
    let end = w.get("expect_end").and_then(|e| e.as_str()).unwrap_or("ok");
    let want_kind = w.get("expect_kind").and_then(|e| e.as_str());
    // optional: the line numbers of the trace entries, innermost first
    let want_lines: Option<Vec<u64>> = w.get("expect_trace_lines").and_then(|e| e.as_array()).map(|a| a.iter().filter_map(|x| x.as_u64()).collect());
    let ok = match &last.outcome {
        proto::Outcome::Ok => end == "ok",
        proto::Outcome::Err { messages, kind } => {
            let lines: Vec<u64> = messages
                .iter()
                .filter_map(|m| m.split(", line ").nth(1).and_then(|r| r.split(']').next()).and_then(|n| n.parse().ok()))
                .collect();
            end != "ok" && messages.get(0).map(|m| m.starts_with(end)).unwrap_or(false) && want_kind.map(|k| k == kind).unwrap_or(true) && want_lines.map(|w| w == lines).unwrap_or(true)
        }
        proto::Outcome::Panic { .. } => false,
    };
    Some(!ok)
}

/// Open findings of a property whose witness still fails (only these can have cases attributed);
/// fills `report.notes` for stale or unrunnable ones.
pub fn active_findings(ctx: &Ctx, report: &mut Report) -> Vec<Finding> {
    let mut runner = Runner::new(ctx.runner_checked.clone());
    let mut out = Vec::new();
    for f in load_findings(ctx) {
        if f.property != ctx.id {
            continue;
        }
        match witness_fails(&mut runner, &f) {
            Some(fails) => {
                if f.status == "open" {
                    if fails {
                        out.push(f);
                    } else {
                        report.notes.push(format!("stale finding {}: its witness no longer fails; nothing is attributed to it", f.id));
                    }
                } else if fails {
                    // a fixed defect that came back is an ordinary violation
                    report.violations.push((
                        format!("regression of fixed finding {} ({}): its witness fails again", f.id, f.title),
                        serde_json::json!({"finding": f.id, "witness": f.witness}),
                    ));
                }
            }
            None => report.notes.push(format!("finding {} has no runnable witness", f.id)),
        }
    }
    out
}

/// Record the outcome of attribution: every active finding is printed (its witness reproduced), with the
/// number of enumerated cases attributed to it.
pub fn record_known(report: &mut Report, active: &[Finding], attributed: &std::collections::BTreeMap<String, usize>) {
    for f in active {
        report.known.push((f.id.clone(), f.title.clone(), attributed.get(&f.id).copied().unwrap_or(0)));
    }
}
