//! The repository's own scripts (yarel/tests/scripts/**/*.yl) and core.yl, loaded from /repo's
//! working tree at run time.
use std::collections::BTreeMap;
use std::path::{Path, PathBuf};

#[derive(Clone, Debug)]
pub struct Script {
    /// module-style name: path relative to the scripts directory without extension
    pub name: String,
    pub source: String,
    /// expected output lines (the leading `// ` header without its last line, the exit code)
    pub expected: Vec<String>,
}

fn walk(dir: &Path, out: &mut Vec<PathBuf>) {
    if let Ok(rd) = std::fs::read_dir(dir) {
        let mut entries: Vec<PathBuf> = rd.filter_map(|e| e.ok().map(|e| e.path())).collect();
        entries.sort();
        for p in entries {
            if p.is_dir() {
                walk(&p, out);
            } else if p.extension().map(|e| e == "yl").unwrap_or(false) {
                out.push(p);
            }
        }
    }
}

pub fn parse_expected(source: &str) -> Vec<String> {
    let mut lines = Vec::new();
    for l in source.lines() {
        if l.starts_with("// ") {
            lines.push(l[3..].to_string());
        } else {
            break;
        }
    }
    lines.pop();
    lines
}

pub fn load_scripts(repo: &Path) -> Vec<Script> {
    let root = repo.join("yarel/tests/scripts");
    let mut files = Vec::new();
    walk(&root, &mut files);
    let mut out = Vec::new();
    for p in files {
        if let Ok(source) = std::fs::read_to_string(&p) {
            let name = p
                .with_extension("")
                .strip_prefix(&root)
                .unwrap()
                .to_str()
                .unwrap()
                .to_string();
            let expected = parse_expected(&source);
            out.push(Script { name, source, expected });
        }
    }
    out
}

pub fn load_core(repo: &Path) -> String {
    std::fs::read_to_string(repo.join("yarel/src/core.yl")).unwrap_or_default()
}

/// module table equivalent to the one the repository's test harness generates
pub fn module_table(scripts: &[Script]) -> BTreeMap<String, String> {
    let mut m = BTreeMap::new();
    m.insert(String::new(), String::new());
    for s in scripts {
        m.insert(s.name.clone(), s.source.clone());
    }
    m
}
