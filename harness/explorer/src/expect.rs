//! A small engine for checks whose expectation is computed by a dedicated model (not M-eval): every
//! case is a runner request plus the exact observations the model predicts.  Runs cases in parallel,
//! confirms every disagreement twice in isolation, returns violations and counters.
use crate::common::*;
use crate::diff::normalise;
use crate::pool::{par_map, Obs, Runner};
use proto::{Request, Response};
use serde_json::{json, Value as J};
use std::collections::{BTreeMap, HashSet};

#[derive(Clone, Debug)]
pub struct Expect {
    pub family: &'static str,
    pub request: Request,
    /// per snippet: expected printed lines
    pub out: Vec<Vec<String>>,
    /// per snippet: "ok", or the required prefix of the first error message, or "*" = not compared
    pub end: Vec<String>,
    /// free-form description of the case for the artefact (e.g. the action path)
    pub describe: J,
    pub nontrivial: bool,
}

#[derive(Default)]
pub struct ExpectStats {
    pub evaluations: usize,
    pub executions: usize,
    pub distinct: HashSet<u64>,
    pub nontrivial: usize,
    pub outcomes: HashSet<u64>,
    pub by_family: BTreeMap<String, usize>,
    pub violations: Vec<(String, J)>,
    pub attributed: BTreeMap<String, usize>,
    pub samples: Vec<J>,
    pub nondeterministic: usize,
}

impl ExpectStats {
    /// add the counters of another (later) batch
    pub fn merge(&mut self, p: ExpectStats) {
        self.evaluations += p.evaluations;
        self.executions += p.executions;
        self.distinct.extend(p.distinct);
        self.nontrivial += p.nontrivial;
        self.outcomes.extend(p.outcomes);
        for (k, v) in p.by_family {
            *self.by_family.entry(k).or_insert(0) += v;
        }
        self.violations.extend(p.violations);
        for (k, v) in p.attributed {
            *self.attributed.entry(k).or_insert(0) += v;
        }
        if self.samples.len() < 4 {
            self.samples.extend(p.samples);
        }
        self.nondeterministic += p.nondeterministic;
    }
}

pub fn check_response(e: &Expect, r: &Response) -> Option<String> {
    if r.results.len() != e.out.len() {
        return Some(format!("{} snippet results, expected {}: {:?}", r.results.len(), e.out.len(), r.results.last().map(|x| &x.outcome)));
    }
    for (i, res) in r.results.iter().enumerate() {
        let got: Vec<String> = res.out.iter().map(|l| normalise(l)).collect();
        let want: Vec<String> = e.out[i].iter().map(|l| normalise(l)).collect();
        if got != want {
            let k = got.iter().zip(want.iter()).take_while(|(a, b)| a == b).count();
            return Some(format!("snippet {}: printed output differs at line {}: expected {:?}, got {:?}", i, k + 1, want.get(k), got.get(k)));
        }
        let end = &e.end[i];
        if end == "*" {
            if matches!(res.outcome, proto::Outcome::Panic { .. }) {
                return Some(format!("snippet {}: interpreter panicked: {:?}", i, res.outcome));
            }
            continue;
        }
        let ok = match &res.outcome {
            proto::Outcome::Ok => end == "ok",
            proto::Outcome::Err { messages, .. } => end != "ok" && messages.get(0).map(|m| m.starts_with(end.as_str())).unwrap_or(false),
            proto::Outcome::Panic { .. } => false,
        };
        if !ok {
            return Some(format!("snippet {}: expected the run to end with `{}`, it ended with {:?}", i, end, res.outcome));
        }
    }
    None
}

fn judge(runner: &mut Runner, e: &Expect, extra: &(dyn Fn(&Expect, &Response) -> Option<String> + Sync), attribute: &(dyn Fn(&Expect, &str) -> Option<String> + Sync), stats: &mut ExpectStats) {
    stats.evaluations += 1;
    *stats.by_family.entry(e.family.to_string()).or_insert(0) += 1;
    let key = fnv64(&serde_json::to_string(&e.request).unwrap_or_default());
    if stats.distinct.insert(key) && e.nontrivial {
        stats.nontrivial += 1;
    }
    stats.outcomes.insert(fnv64(&format!("{:?}{:?}", e.out, e.end)));
    if stats.samples.len() < 2 {
        stats.samples.push(json!({"family": e.family, "case": e.describe, "snippets": e.request.snippets, "expected_output": e.out, "expected_end": e.end}));
    }
    let mut run = |runner: &mut Runner| -> (Obs, Option<String>) {
        let mut req = e.request.clone();
        let obs = runner.call(&mut req);
        let problem = match &obs {
            Obs::Resp(r) => check_response(e, r).or_else(|| extra(e, r)),
            other => Some(format!("run ended in {}", other.describe())),
        };
        (obs, problem)
    };
    stats.executions += 1;
    let (_, first) = run(runner);
    if first.is_none() {
        return;
    }
    let (oa, pa) = run(runner);
    let (_ob, pb) = run(runner);
    stats.executions += 2;
    // A violation disagrees with the expectation in all three runs - not necessarily in the same way:
    // behaviour that depends on addresses or on freed memory varies from run to run and is no less wrong.
    // A disagreement that does not repeat every time is unstable: no verdict if nothing else was found.
    let (Some(mut problem), Some(second)) = (pa.clone(), pb.clone()) else {
        stats.nondeterministic += 1;
        if stats.nondeterministic <= 2 {
            eprintln!("UNSTABLE (a disagreement that does not repeat in every run): {:?} / {:?} / {:?}\n{:?}", first, pa, pb, e.request.snippets);
        }
        return;
    };
    // (printed addresses differ between runs: compare the normalised descriptions)
    if normalise(&problem) != normalise(&second) {
        problem = format!("{} (another run disagrees differently: {})", problem, second);
    }
    if let Some(f) = attribute(e, &problem) {
        *stats.attributed.entry(f).or_insert(0) += 1;
        return;
    }
    let observed = match &oa {
        Obs::Resp(r) => json!({"results": r.results, "uaf": r.uaf}),
        other => json!(other.describe()),
    };
    stats.violations.push((
        format!("[{}] {}\n{}", e.family, problem, e.request.snippets.join("\n---\n")),
        json!({"family": e.family, "case": e.describe, "request": e.request, "expected": {"out": e.out, "end": e.end}, "observed": observed, "mismatch": problem}),
    ));
}

pub fn run_expect<I>(
    ctx: &Ctx,
    runner_path: &std::path::PathBuf,
    cases: I,
    extra: &(dyn Fn(&Expect, &Response) -> Option<String> + Sync),
    attribute: &(dyn Fn(&Expect, &str) -> Option<String> + Sync),
) -> ExpectStats
where
    I: Iterator<Item = Expect> + Send,
{
    let parts = par_map(runner_path, ctx.workers, cases, |runner, _i, e| {
        runner.timeout = std::time::Duration::from_secs(60);
        runner.recycle_after = 1000;
        let mut s = ExpectStats::default();
        judge(runner, &e, extra, attribute, &mut s);
        s
    });
    let mut total = ExpectStats::default();
    for p in parts {
        total.evaluations += p.evaluations;
        total.executions += p.executions;
        total.distinct.extend(p.distinct);
        total.nontrivial += p.nontrivial;
        total.outcomes.extend(p.outcomes);
        for (k, v) in p.by_family {
            *total.by_family.entry(k).or_insert(0) += v;
        }
        total.violations.extend(p.violations);
        for (k, v) in p.attributed {
            *total.attributed.entry(k).or_insert(0) += v;
        }
        if total.samples.len() < 4 {
            total.samples.extend(p.samples);
        }
        total.nondeterministic += p.nondeterministic;
    }
    if total.nondeterministic > 0 && total.violations.is_empty() {
        crate::pool::machinery_failure(&format!("{} cases behaved differently when re-run", total.nondeterministic));
    }
    total
}

pub fn fill(report: &mut Report, s: &ExpectStats, rule: &str, bounds: J) {
    report.cov("evaluations", json!(s.evaluations));
    report.cov("distinct_nontrivial", json!(s.nontrivial));
    report.cov("states", json!(s.distinct.len()));
    report.cov("transitions", json!(s.executions));
    report.cov("traces_validated_against_impl", json!(s.evaluations));
    report.cov("rule", json!(rule));
    report.cov("bounds", bounds);
    report.cov("exhaustive", json!(true));
    report.cov("by_family", json!(s.by_family));
    report.cov("distinct_model_outcomes", json!(s.outcomes.len()));
    report.cov("attributed_to_listed_findings", json!(s.attributed));
    report.cov("samples", json!(s.samples));
}
