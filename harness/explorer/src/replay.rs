//! `--replay <file>`: re-execute one stored case without any search: the exact runner request from the
//! artefact, then the same oracle.  Exit 1 (with a VIOLATION line) if the violation reproduces, 0 if not.
use crate::common::*;
use crate::diff::{compare, CmpOpts, ModelRun};
use crate::expect::{check_response, Expect};
use crate::meval::Outcome;
use crate::mvm;
use crate::pool::{Obs, Runner};
use proto::{InternOp, Request};
use serde_json::Value as J;

pub fn replay(ctx: &Ctx, path: &str) -> i32 {
    let text = match std::fs::read_to_string(path) {
        Ok(t) => t,
        Err(e) => crate::pool::machinery_failure(&format!("cannot read replay file {}: {}", path, e)),
    };
    let doc: J = serde_json::from_str(&text).unwrap_or_else(|e| crate::pool::machinery_failure(&format!("replay file is not JSON: {}", e)));
    let case = doc.get("case").cloned().unwrap_or(J::Null);
    let runner_path = if ctx.id == "C16" { ctx.runner_opt.clone() } else { ctx.runner_checked.clone() };
    let mut runner = Runner::new(runner_path);
    runner.timeout = std::time::Duration::from_secs(120);
    println!("replaying {} ({})", path, doc.get("description").and_then(|d| d.as_str()).unwrap_or("").lines().next().unwrap_or(""));
    let verdict: Option<String> = if let Some(reqj) = case.get("request") {
        let mut req: Request = match serde_json::from_value(reqj.clone()) {
            Ok(r) => r,
            Err(e) => crate::pool::machinery_failure(&format!("artefact request does not parse: {}", e)),
        };
        if req.op.is_empty() {
            req.op = "run".into();
        }
        if ctx.id == "C01" && !req.want.iter().any(|w| w == "uaf") {
            req.want.push("uaf".into());
        }
        let obs = runner.call(&mut req);
        match &obs {
            Obs::Resp(r) => {
                for (i, res) in r.results.iter().enumerate() {
                    println!("snippet {}: printed {:?}", i, res.out);
                    println!("snippet {}: outcome {:?}", i, res.outcome);
                }
                if !r.uaf.is_empty() {
                    println!("use-after-free events: {:?}", r.uaf);
                }
                let expected = case.get("expected");
                if let (Some(out), Some(outcome)) = (expected.and_then(|e| e.get("out")), expected.and_then(|e| e.get("outcome"))) {
                    // M-eval form
                    let model = ModelRun {
                        out: serde_json::from_value(out.clone()).unwrap_or_default(),
                        outcome: serde_json::from_value::<Outcome>(outcome.clone()).unwrap_or(Outcome::Ok),
                        events: vec![],
                        max_frames: 0,
                    };
                    let opts = CmpOpts {
                        trace: case.get("cmp").and_then(|c| c.get("trace")).and_then(|b| b.as_bool()).unwrap_or(false),
                        kind: case.get("cmp").and_then(|c| c.get("kind")).and_then(|b| b.as_bool()).unwrap_or(false),
                    };
                    println!("model expects: printed {:?}, outcome {:?}", model.out, model.outcome);
                    {
                        let idx = case.get("result_index").and_then(|i| i.as_u64()).unwrap_or(0) as usize;
                        if let Some(p) = r.results.iter().find_map(|res| match &res.outcome { proto::Outcome::Panic { msg } => Some(format!("interpreter panicked: {}", msg)), _ => None }) {
                            Some(p)
                        } else {
                            if case.get("piecewise").and_then(|b| b.as_bool()).unwrap_or(false) {
                                let mut out: Vec<String> = Vec::new();
                                let mut outcome = proto::Outcome::Ok;
                                for piece in r.results.iter().skip(idx) {
                                    out.extend(piece.out.iter().cloned());
                                    if !matches!(piece.outcome, proto::Outcome::Ok) {
                                        outcome = piece.outcome.clone();
                                        break;
                                    }
                                }
                                compare(&model, &proto::SnippetResult { out, outcome }, opts)
                            } else {
                                r.results.get(idx).and_then(|res| compare(&model, res, opts))
                            }
                        }
                    }
                } else if let (Some(out), Some(end)) = (expected.and_then(|e| e.get("out")), expected.and_then(|e| e.get("end"))) {
                    let e = Expect {
                        family: "replay",
                        request: req.clone(),
                        out: serde_json::from_value(out.clone()).unwrap_or_default(),
                        end: serde_json::from_value(end.clone()).unwrap_or_default(),
                        describe: J::Null,
                        nontrivial: true,
                    };
                    println!("model expects: printed {:?}, ends {:?}", e.out, e.end);
                    check_response(&e, r)
                } else if ctx.id == "C01" {
                    let never = case.get("never_collect_run").and_then(|n| n.get("out")).cloned();
                    let same = never.map(|n| serde_json::to_value(&r.results.get(0).map(|x| x.out.clone()).unwrap_or_default()).ok() == Some(n)).unwrap_or(true);
                    if !r.uaf.is_empty() {
                        Some(format!("{} use-after-free events", r.uaf.len()))
                    } else if !same {
                        Some("output differs from the never-collect run".into())
                    } else {
                        None
                    }
                } else {
                    r.results.iter().find_map(|res| match &res.outcome {
                        proto::Outcome::Panic { msg } => Some(format!("interpreter panicked: {}", msg)),
                        _ => None,
                    })
                }
            }
            other => Some(format!("run ended in {}", other.describe())),
        }
    } else if case.get("cli_script").is_some() || case.get("cli_stdin").is_some() {
        // through the command-line host (C02): no panic, one of the host's own exit codes
        let dir = crate::cli::scratch_dir(ctx, "c02");
        let _ = std::fs::write(dir.join("text.txt"), b"some text\n");
        let _ = std::fs::write(dir.join("bytes.bin"), [0xffu8, 0xfe, 0x00, 0x80]);
        let _ = std::fs::create_dir_all(dir.join("a_directory"));
        let (r, codes): (crate::cli::CliRun, Vec<i32>) = if let Some(src) = case.get("cli_script").and_then(|s| s.as_str()) {
            let _ = std::fs::write(dir.join("replay_probe.yl"), src);
            (crate::cli::run(ctx, &dir, &["replay_probe.yl"], None), vec![0, 65, 70])
        } else {
            (crate::cli::run(ctx, &dir, &[], case.get("cli_stdin").and_then(|s| s.as_str())), vec![0])
        };
        println!("yarel-cli printed {:?}, stderr {:?}, exit {:?}", r.stdout, r.stderr, r.code);
        match r.code {
            Some(c) if codes.contains(&c) && !r.stderr.contains("panicked at") && !r.timed_out => None,
            other => Some(format!("the command-line host ended with {:?} (a panic, a signal or no end)", other)),
        }
    } else if let (Some(src), Some(file), Some(contents)) = (case.get("source").and_then(|s| s.as_str()), case.get("file").and_then(|s| s.as_str()), case.get("file_contents").and_then(|s| s.as_str())) {
        // through the command-line host (C11 level 6)
        let dir = crate::cli::scratch_dir(ctx, "replay");
        let _ = std::fs::write(dir.join(file), contents.as_bytes());
        let _ = std::fs::write(dir.join("probe.yl"), src);
        let r = crate::cli::run(ctx, &dir, &["probe.yl"], None);
        println!("yarel-cli printed {:?}, stderr {:?}, exit {:?}", r.stdout, r.stderr, r.code);
        let expected = "true\ntrue\nhit\ntrue\n1\n5\ntrue\nfalse\ntrue\n";
        if r.stdout != expected || r.code != Some(0) {
            Some(format!("expected {:?} and exit 0", expected))
        } else {
            None
        }
    } else if let Some(src) = case.get("source").and_then(|s| s.as_str()) {
        // compile-level artefacts (C03 / C04)
        let ops = match runner.call(&mut Request { op: "opcodes".into(), ..Default::default() }) {
            Obs::Resp(r) => mvm::OpTable::new(&r.opcodes),
            _ => crate::pool::machinery_failure("runner did not answer"),
        };
        let mut req = Request { op: "compile".into(), snippets: vec![src.to_string()], ..Default::default() };
        match runner.call(&mut req) {
            Obs::Resp(r) => {
                println!("compile outcome: {:?}", r.results.get(0).map(|x| &x.outcome));
                let mut problem = None;
                if let Some(proto::Outcome::Panic { msg }) = r.results.get(0).map(|x| &x.outcome) {
                    problem = Some(format!("compiler panicked: {}", msg));
                }
                for fi in 0..r.functions.len() {
                    let rep = mvm::analyse(&r.functions, fi, &ops);
                    for i in &rep.issues {
                        println!("fn#{} `{}` pc {} {} {}", fi, r.functions[fi].name, i.pc, i.kind, i.detail);
                        if problem.is_none() {
                            problem = Some(format!("{} at pc {}", i.kind, i.pc));
                        }
                    }
                }
                if case.get("family").and_then(|f| f.as_str()) == Some("e_stray_closer") && matches!(r.results.get(0).map(|x| &x.outcome), Some(proto::Outcome::Ok)) {
                    problem = Some("a program with a stray closer was accepted".into());
                }
                problem
            }
            other => Some(format!("compile ended in {}", other.describe())),
        }
    } else if let Some(srcs) = case.get("sources").and_then(|s| s.as_array()) {
        // a whole batch that did not finish compiling (C03): compile every input alone, five seconds each
        runner.timeout = std::time::Duration::from_secs(5);
        let mut problem = None;
        for (i, s) in srcs.iter().enumerate() {
            let src = s.as_str().unwrap_or("").to_string();
            let mut req = Request { op: "compile".into(), snippets: vec![src.clone()], ..Default::default() };
            match runner.call(&mut req) {
                Obs::Resp(r) => {
                    if let Some(proto::Outcome::Panic { msg }) = r.results.get(0).map(|x| &x.outcome) {
                        problem = Some(format!("input {} of the batch: compiler panicked: {}", i, msg));
                        break;
                    }
                }
                other => {
                    println!("input {} of the batch:\n{}", i, src);
                    problem = Some(format!("input {} of the batch: compile ended in {}", i, other.describe()));
                    break;
                }
            }
        }
        problem
    } else if let Some(hist) = case.get("history") {
        let ops: Vec<InternOp> = serde_json::from_value(hist.clone()).unwrap_or_default();
        let mut req = Request { op: "intern".into(), intern_prefix: ops, ..Default::default() };
        match runner.call(&mut req) {
            Obs::Resp(r) => {
                println!("table after the history: {:?}", r.intern.get(0));
                println!("(compare with the artefact's `problem` field: {:?})", case.get("problem"));
                case.get("problem").and_then(|p| p.as_str()).map(|s| s.to_string())
            }
            other => Some(format!("intern replay ended in {}", other.describe())),
        }
    } else {
        crate::pool::machinery_failure("the artefact holds neither a request nor a source nor a history");
    };
    match verdict {
        Some(v) => {
            println!("VIOLATION property={} replay={}", ctx.id, path);
            println!("  reproduced: {}", v);
            1
        }
        None => {
            println!("the stored violation does not reproduce on the current tree");
            0
        }
    }
}
