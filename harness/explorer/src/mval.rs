//! Values of the reference evaluator M-eval: display, equality, hashing-by-equality, number formatting.
use crate::ast::FnDecl;
use std::cell::{Cell, RefCell};
use std::collections::HashMap;
use std::rc::Rc;
use std::sync::Arc;

#[derive(Clone, Copy, Debug, PartialEq, Eq, Hash, PartialOrd, Ord)]
pub enum ErrKind {
    Attribute,
    Index,
    Import,
    Name,
    Runtime,
    Type,
    Value,
}

impl ErrKind {
    pub fn class_name(self) -> &'static str {
        match self {
            ErrKind::Attribute => "AttributeError",
            ErrKind::Index => "IndexError",
            ErrKind::Import => "ImportError",
            ErrKind::Name => "NameError",
            ErrKind::Runtime => "RuntimeError",
            ErrKind::Type => "TypeError",
            ErrKind::Value => "ValueError",
        }
    }
}

pub struct Scope {
    pub vars: RefCell<Vec<Rc<RefCell<V>>>>,
    pub parent: Option<Rc<Scope>>,
}

thread_local! {
    /// every scope created on this thread since the last `release_scopes` (closures stored in variables
    /// of the scope they capture are reference cycles: a finished model run empties its scopes)
    static SCOPES: RefCell<Vec<std::rc::Weak<Scope>>> = RefCell::new(Vec::new());
}

/// Empties every scope created on this thread, which breaks the reference cycles between captured
/// variables and closures of a finished model run.
pub fn release_scopes() {
    let all = SCOPES.with(|s| std::mem::take(&mut *s.borrow_mut()));
    for w in all {
        if let Some(s) = w.upgrade() {
            s.vars.borrow_mut().clear();
        }
    }
}

impl Scope {
    pub fn new(parent: Option<Rc<Scope>>) -> Rc<Scope> {
        let s = Rc::new(Scope { vars: RefCell::new(Vec::new()), parent });
        SCOPES.with(|all| all.borrow_mut().push(Rc::downgrade(&s)));
        s
    }
    pub fn declare(&self, v: V) -> Rc<RefCell<V>> {
        let cell = Rc::new(RefCell::new(v));
        self.vars.borrow_mut().push(cell.clone());
        cell
    }
}

pub struct Module {
    pub path: String,
    pub globals: RefCell<HashMap<String, V>>,
    pub imported: Cell<bool>,
}

pub struct Closure {
    pub decl: Arc<FnDecl>,
    pub name: String,
    pub env: Option<Rc<Scope>>,
    pub module: Rc<Module>,
}

#[derive(Clone)]
pub enum Method {
    Closure(Rc<Closure>),
    /// (class tag, method name)
    Native(&'static str, &'static str),
}

pub struct Class {
    pub name: String,
    pub parent: Option<Rc<Class>>,
    /// own instance-side table (static methods are in here too, as in the implementation)
    pub methods: RefCell<HashMap<String, Method>>,
    /// metaclass table: static methods defined in this class
    pub statics: RefCell<HashMap<String, Method>>,
}

impl Class {
    pub fn find_method(self: &Rc<Class>, name: &str) -> Option<Method> {
        let mut c = Some(self.clone());
        while let Some(k) = c {
            if let Some(m) = k.methods.borrow().get(name) {
                return Some(m.clone());
            }
            c = k.parent.clone();
        }
        None
    }
    pub fn derives(self: &Rc<Class>, other: &Rc<Class>) -> bool {
        let mut c = Some(self.clone());
        while let Some(k) = c {
            if Rc::ptr_eq(&k, other) {
                return true;
            }
            c = k.parent.clone();
        }
        false
    }
}

pub struct Inst {
    pub class: Rc<Class>,
    pub fields: RefCell<Vec<(String, V)>>,
}

impl Inst {
    pub fn get_field(&self, name: &str) -> Option<V> {
        self.fields.borrow().iter().find(|(k, _)| k == name).map(|(_, v)| v.clone())
    }
    pub fn set_field(&self, name: &str, v: V) {
        let mut f = self.fields.borrow_mut();
        if let Some(e) = f.iter_mut().find(|(k, _)| k == name) {
            e.1 = v;
        } else {
            f.push((name.to_string(), v));
        }
    }
}

pub enum NativeIter {
    Vec(Rc<RefCell<Vec<V>>>, usize),
    Tuple(Rc<Vec<V>>, usize),
    Range { cur: i64, end: i64, step: i64 },
    Str(Rc<str>, usize),
}

pub struct FiberObj {
    pub closure: Rc<Closure>,
    /// 0 new, 1 running, 2 finished
    pub state: Cell<u8>,
}

#[derive(Clone)]
pub enum V {
    Nil,
    Bool(bool),
    Num(f64),
    Str(Rc<str>),
    Vec(Rc<RefCell<Vec<V>>>),
    Tuple(Rc<Vec<V>>),
    Range(i64, i64),
    Map(Rc<RefCell<Vec<(V, V)>>>),
    Closure(Rc<Closure>),
    Native(&'static str),
    BoundMethod(Rc<(V, Rc<Closure>)>),
    /// receiver, class tag, method name
    BoundNative(Rc<(V, &'static str, &'static str)>),
    Class(Rc<Class>),
    Instance(Rc<Inst>),
    Module(Rc<Module>),
    Iter(Rc<RefCell<NativeIter>>),
    Fiber(Rc<FiberObj>),
}

pub fn vstr(s: &str) -> V {
    V::Str(Rc::from(s))
}

impl V {
    pub fn truthy(&self) -> bool {
        !matches!(self, V::Nil | V::Bool(false))
    }
    pub fn kind_name(&self) -> &'static str {
        match self {
            V::Nil => "nil",
            V::Bool(_) => "bool",
            V::Num(_) => "num",
            V::Str(_) => "str",
            V::Vec(_) => "vec",
            V::Tuple(_) => "tuple",
            V::Range(..) => "range",
            V::Map(_) => "map",
            V::Closure(_) => "closure",
            V::Native(_) => "native",
            V::BoundMethod(_) => "bound_method",
            V::BoundNative(_) => "bound_native",
            V::Class(_) => "class",
            V::Instance(_) => "instance",
            V::Module(_) => "module",
            V::Iter(_) => "iter",
            V::Fiber(_) => "fiber",
        }
    }
    pub fn hashable(&self) -> bool {
        match self {
            V::Bool(_) | V::Num(_) | V::Str(_) | V::Class(_) | V::Range(..) | V::Nil => true,
            V::Tuple(t) => t.iter().all(|e| e.hashable()),
            _ => false,
        }
    }
}

/// Shortest digits that round-trip, expanded positionally without an exponent (the language never
/// prints exponents); `-0`, `NaN`, `inf`, `-inf`.  Deliberately not `format!("{}", x)`: digits come
/// from the exponent formatter at increasing precision, the expansion is done by hand.
pub fn fmt_number(x: f64) -> String {
    if x.is_nan() {
        return "NaN".into();
    }
    if x.is_infinite() {
        return if x > 0.0 { "inf".into() } else { "-inf".into() };
    }
    if x == 0.0 {
        return if x.is_sign_negative() { "-0".into() } else { "0".into() };
    }
    let neg = x < 0.0;
    let a = x.abs();
    // Shortest digit string that parses back to `a`: at each precision take the correctly rounded
    // digits D and its two neighbours in the last place (the round-trip interval is convex, so if any
    // p-digit decimal lies in it, one of these three does), preferring D.
    let mut digits = String::new();
    let mut exp: i32 = 0;
    'outer: for prec in 0..17usize {
        let s = format!("{:.*e}", prec, a);
        let (m, e) = s.split_once('e').unwrap();
        let base_digits: String = m.replace('.', "");
        let base_exp: i32 = e.parse().unwrap();
        for delta in [0i32, 1, -1] {
            let (d, ex) = match bump(&base_digits, base_exp, delta) {
                Some(x) => x,
                None => continue,
            };
            let text = format!("{}.{}e{}", &d[..1], &d[1..], ex);
            if text.parse::<f64>().map(|y| y == a).unwrap_or(false) || (prec == 16 && delta == 0) {
                digits = d;
                exp = ex;
                break 'outer;
            }
        }
    }
    // value = 0.d1d2d3... * 10^(exp+1)
    let digits = digits.trim_end_matches('0').to_string();
    let digits = if digits.is_empty() { "0".to_string() } else { digits };
    let point = exp + 1; // position of the decimal point relative to the digit string start
    let mut out = String::new();
    if neg {
        out.push('-');
    }
    let n = digits.len() as i32;
    if point <= 0 {
        out.push_str("0.");
        for _ in 0..(-point) {
            out.push('0');
        }
        out.push_str(&digits);
    } else if point >= n {
        out.push_str(&digits);
        for _ in 0..(point - n) {
            out.push('0');
        }
    } else {
        out.push_str(&digits[..point as usize]);
        out.push('.');
        out.push_str(&digits[point as usize..]);
    }
    out
}

/// add `delta` (0, +1, -1) to the last digit of a decimal digit string, keeping its length
fn bump(digits: &str, exp: i32, delta: i32) -> Option<(String, i32)> {
    if delta == 0 {
        return Some((digits.to_string(), exp));
    }
    let mut d: Vec<u8> = digits.bytes().map(|b| b - b'0').collect();
    let mut i = d.len();
    if delta > 0 {
        loop {
            if i == 0 {
                // 99..9 + 1 = 100..0: one more leading digit, drop the last to keep the length
                let mut v = vec![1u8];
                v.extend(std::iter::repeat(0).take(d.len() - 1));
                return Some((v.iter().map(|x| (x + b'0') as char).collect(), exp + 1));
            }
            i -= 1;
            if d[i] == 9 {
                d[i] = 0;
            } else {
                d[i] += 1;
                break;
            }
        }
    } else {
        loop {
            if i == 0 {
                return None;
            }
            i -= 1;
            if d[i] == 0 {
                d[i] = 9;
            } else {
                d[i] -= 1;
                break;
            }
        }
        if d[0] == 0 {
            return None;
        }
    }
    Some((d.iter().map(|x| (x + b'0') as char).collect(), exp))
}

/// true when, at the shortest precision, more than one digit string parses back to `x`: which of them
/// is printed is a tie-breaking detail the property does not fix
pub fn fmt_number_ambiguous(x: f64) -> bool {
    if !x.is_finite() || x == 0.0 {
        return false;
    }
    let a = x.abs();
    for prec in 0..17usize {
        let s = format!("{:.*e}", prec, a);
        let (m, e) = s.split_once('e').unwrap();
        let base_digits: String = m.replace('.', "");
        let base_exp: i32 = e.parse().unwrap();
        let mut ok = 0;
        for delta in [0i32, 1, -1] {
            if let Some((d, ex)) = bump(&base_digits, base_exp, delta) {
                let text = format!("{}.{}e{}", &d[..1], &d[1..], ex);
                if text.parse::<f64>().map(|y| y == a).unwrap_or(false) {
                    ok += 1;
                }
            }
        }
        if ok > 0 {
            return ok > 1;
        }
    }
    false
}

pub const ADDR: &str = "[ADDR]";

fn display_into(v: &V, out: &mut String, active: &mut Vec<usize>) {
    match v {
        V::Nil => out.push_str("nil"),
        V::Bool(b) => out.push_str(if *b { "true" } else { "false" }),
        V::Num(n) => out.push_str(&fmt_number(*n)),
        V::Str(s) => out.push_str(s),
        V::Vec(items) => {
            let id = Rc::as_ptr(items) as usize;
            if active.contains(&id) {
                out.push_str("[...]");
                return;
            }
            active.push(id);
            out.push('[');
            let b = items.borrow();
            for (i, e) in b.iter().enumerate() {
                if i > 0 {
                    out.push_str(", ");
                }
                display_into(e, out, active);
            }
            out.push(']');
            active.pop();
        }
        V::Tuple(items) => {
            out.push('(');
            for (i, e) in items.iter().enumerate() {
                if i > 0 {
                    out.push_str(", ");
                }
                display_into(e, out, active);
            }
            if items.len() == 1 {
                out.push(',');
            }
            out.push(')');
        }
        V::Range(b, e) => out.push_str(&format!("Range({}, {})", b, e)),
        V::Map(items) => {
            let id = Rc::as_ptr(items) as usize;
            if active.contains(&id) {
                out.push_str("{...}");
                return;
            }
            active.push(id);
            out.push('{');
            let b = items.borrow();
            for (i, (k, val)) in b.iter().enumerate() {
                if i > 0 {
                    out.push_str(", ");
                }
                display_into(k, out, active);
                out.push_str(": ");
                display_into(val, out, active);
            }
            out.push('}');
            active.pop();
        }
        V::Closure(c) => {
            out.push_str(&format!("<fn {} @ {}>", c.name, ADDR));
        }
        V::Native(n) => out.push_str(&format!("<built-in fn {}>", n)),
        V::BoundMethod(b) => {
            out.push_str(&format!("<method {} on ", b.1.name));
            display_into(&b.0, out, active);
            out.push_str(&format!(" @ {}>", ADDR));
        }
        V::BoundNative(b) => {
            out.push_str(&format!("<built-in method {} on ", b.2));
            display_into(&b.0, out, active);
            out.push_str(&format!(" @ {}>", ADDR));
        }
        V::Class(c) => out.push_str(&format!("<class {}>", c.name)),
        V::Instance(i) => out.push_str(&format!("<{} instance @ {}>", i.class.name, ADDR)),
        V::Module(m) => out.push_str(&format!("<module \"{}\">", m.path)),
        V::Iter(it) => match &*it.borrow() {
            NativeIter::Vec(..) => out.push_str(&format!("<ObjVecIter instance @ {}>", ADDR)),
            NativeIter::Tuple(..) => out.push_str(&format!("<ObjTupleIter instance @ {}>", ADDR)),
            NativeIter::Range { .. } => out.push_str("ObjRangeIter instance"),
            NativeIter::Str(..) => out.push_str("ObjStringIter instance"),
        },
        V::Fiber(_) => out.push_str(&format!("<fiber @ {}>", ADDR)),
    }
}

pub fn display(v: &V) -> String {
    let mut out = String::new();
    display_into(v, &mut out, &mut Vec::new());
    out
}

/// The language's `==` (never fails).
pub fn values_equal(a: &V, b: &V) -> bool {
    match (a, b) {
        (V::Nil, V::Nil) => true,
        (V::Bool(x), V::Bool(y)) => x == y,
        (V::Num(x), V::Num(y)) => x == y,
        (V::Str(x), V::Str(y)) => x == y,
        (V::Vec(x), V::Vec(y)) => {
            if Rc::ptr_eq(x, y) {
                return true;
            }
            let (x, y) = (x.borrow(), y.borrow());
            x.len() == y.len() && x.iter().zip(y.iter()).all(|(p, q)| values_equal(p, q))
        }
        (V::Tuple(x), V::Tuple(y)) => {
            Rc::ptr_eq(x, y) || (x.len() == y.len() && x.iter().zip(y.iter()).all(|(p, q)| values_equal(p, q)))
        }
        (V::Range(a1, a2), V::Range(b1, b2)) => a1 == b1 && a2 == b2,
        (V::Map(x), V::Map(y)) => {
            if Rc::ptr_eq(x, y) {
                return true;
            }
            let (x, y) = (x.borrow(), y.borrow());
            x.len() == y.len()
                && x.iter().all(|(k, v)| y.iter().any(|(k2, v2)| values_equal(k, k2) && values_equal(v, v2)))
        }
        (V::Closure(x), V::Closure(y)) => Rc::ptr_eq(x, y),
        (V::Native(x), V::Native(y)) => x == y,
        (V::BoundMethod(x), V::BoundMethod(y)) => Rc::ptr_eq(x, y),
        (V::BoundNative(x), V::BoundNative(y)) => Rc::ptr_eq(x, y),
        (V::Class(x), V::Class(y)) => Rc::ptr_eq(x, y),
        (V::Instance(x), V::Instance(y)) => Rc::ptr_eq(x, y),
        (V::Module(x), V::Module(y)) => Rc::ptr_eq(x, y),
        (V::Iter(x), V::Iter(y)) => Rc::ptr_eq(x, y),
        (V::Fiber(x), V::Fiber(y)) => Rc::ptr_eq(x, y),
        _ => false,
    }
}
