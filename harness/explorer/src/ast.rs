//! AST of generated Yarel programs, the printer that turns it into source text (with the minimal
//! parentheses the language's precedence table allows, or fully parenthesised) and the line layout
//! (every simple statement on one line; the printer records each statement's line in the tree).
use std::sync::atomic::{AtomicUsize, Ordering};
use std::sync::Arc as Rc;

/// A line number filled in by the printer (atomic only so that trees can be sent to worker threads).
#[derive(Debug, Default)]
pub struct Cell<T> {
    v: AtomicUsize,
    _p: std::marker::PhantomData<T>,
}

impl Cell<usize> {
    pub fn new(v: usize) -> Self {
        Cell { v: AtomicUsize::new(v), _p: std::marker::PhantomData }
    }
    pub fn get(&self) -> usize {
        self.v.load(Ordering::Relaxed)
    }
    pub fn set(&self, v: usize) {
        self.v.store(v, Ordering::Relaxed)
    }
}

impl Clone for Cell<usize> {
    fn clone(&self) -> Self {
        Cell::new(self.get())
    }
}

impl PartialEq for Cell<usize> {
    fn eq(&self, _other: &Self) -> bool {
        true
    }
}

pub type Id = String;

#[derive(Clone, Copy, Debug, PartialEq, Eq, Hash)]
pub enum UnOp {
    Neg,
    Not,
    BitNot,
}

#[derive(Clone, Copy, Debug, PartialEq, Eq, Hash, PartialOrd, Ord)]
pub enum BinOp {
    Add,
    Sub,
    Mul,
    Div,
    Mod,
    BitAnd,
    BitOr,
    BitXor,
    Shl,
    Shr,
    Eq,
    Ne,
    Lt,
    Le,
    Gt,
    Ge,
    Range,
}

pub const ALL_BINOPS: [BinOp; 17] = [
    BinOp::Add, BinOp::Sub, BinOp::Mul, BinOp::Div, BinOp::Mod, BinOp::BitAnd, BinOp::BitOr,
    BinOp::BitXor, BinOp::Shl, BinOp::Shr, BinOp::Eq, BinOp::Ne, BinOp::Lt, BinOp::Le, BinOp::Gt,
    BinOp::Ge, BinOp::Range,
];

impl BinOp {
    pub fn text(self) -> &'static str {
        match self {
            BinOp::Add => "+",
            BinOp::Sub => "-",
            BinOp::Mul => "*",
            BinOp::Div => "/",
            BinOp::Mod => "%",
            BinOp::BitAnd => "&",
            BinOp::BitOr => "|",
            BinOp::BitXor => "^",
            BinOp::Shl => "<<",
            BinOp::Shr => ">>",
            BinOp::Eq => "==",
            BinOp::Ne => "!=",
            BinOp::Lt => "<",
            BinOp::Le => "<=",
            BinOp::Gt => ">",
            BinOp::Ge => ">=",
            BinOp::Range => "..",
        }
    }
    /// precedence level, low to high (the language's table, as the models define it)
    pub fn prec(self) -> u8 {
        match self {
            BinOp::Eq | BinOp::Ne => 4,
            BinOp::Lt | BinOp::Le | BinOp::Gt | BinOp::Ge => 5,
            BinOp::BitOr => 6,
            BinOp::BitXor => 7,
            BinOp::BitAnd => 8,
            BinOp::Shl | BinOp::Shr => 9,
            BinOp::Add | BinOp::Sub => 10,
            BinOp::Mul | BinOp::Div | BinOp::Mod => 11,
            BinOp::Range => 12,
        }
    }
    /// the operators that have a compound-assignment form
    pub fn has_compound(self) -> bool {
        matches!(
            self,
            BinOp::Add | BinOp::Sub | BinOp::Mul | BinOp::Div | BinOp::Mod | BinOp::BitAnd | BinOp::BitOr | BinOp::BitXor | BinOp::Shl | BinOp::Shr
        )
    }
}

pub const PREC_ASSIGN: u8 = 1;
pub const PREC_OR: u8 = 2;
pub const PREC_AND: u8 = 3;
pub const PREC_BITOR: u8 = 6;
pub const PREC_UNARY: u8 = 13;
pub const PREC_CALL: u8 = 14;
pub const PREC_PRIMARY: u8 = 15;

#[derive(Clone, Debug, PartialEq)]
pub enum Part {
    Lit(String),
    Expr(Expr),
}

#[derive(Clone, Debug, PartialEq)]
pub enum Expr {
    Nil,
    True,
    False,
    Num(f64),
    /// a number literal written with explicit source text; the second field is the double it denotes
    RawNum(String, f64),
    Str(String),
    /// a string literal written with explicit source text (escape forms); the second field is its value
    RawStr(String, String),
    Interp(Vec<Part>),
    Var(Id),
    Assign(Id, Box<Expr>),
    CompoundAssign(Id, BinOp, Box<Expr>),
    Unary(UnOp, Box<Expr>),
    Binary(BinOp, Box<Expr>, Box<Expr>),
    And(Box<Expr>, Box<Expr>),
    Or(Box<Expr>, Box<Expr>),
    Call(Box<Expr>, Vec<Expr>),
    Invoke(Box<Expr>, Id, Vec<Expr>),
    Get(Box<Expr>, Id),
    Set(Box<Expr>, Id, Box<Expr>),
    CompoundSet(Box<Expr>, Id, BinOp, Box<Expr>),
    Index(Box<Expr>, Box<Expr>),
    SetIndex(Box<Expr>, Box<Expr>, Box<Expr>),
    VecLit(Vec<Expr>),
    TupleLit(Vec<Expr>),
    MapLit(Vec<(Expr, Expr)>),
    Lambda(Rc<FnDecl>),
    SelfRef,
    CapSelf,
    SuperGet(Id),
    SuperInvoke(Id, Vec<Expr>),
    /// explicit parentheses (semantically the identity)
    Paren(Box<Expr>),
}

#[derive(Clone, Copy, Debug, PartialEq, Eq)]
pub enum FnKind {
    Function,
    Method,
    Static,
    Ctor,
}

#[derive(Clone, Debug, PartialEq)]
pub enum FnBody {
    Block(Vec<Stmt>),
    Expr(Box<Expr>),
}

#[derive(Debug, PartialEq)]
pub struct FnDecl {
    pub name: String,
    pub params: Vec<Id>,
    pub body: FnBody,
    pub kind: FnKind,
    pub line: Cell<usize>,
}

#[derive(Debug, PartialEq)]
pub struct ClassDecl {
    pub name: String,
    pub superclass: Option<Id>,
    /// `#[constructor(name)]` on the class
    pub default_ctor: Option<Id>,
    pub methods: Vec<Rc<FnDecl>>,
}

#[derive(Clone, Debug, PartialEq)]
pub struct Stmt {
    pub kind: StmtKind,
    pub line: Cell<usize>,
}

#[derive(Clone, Debug, PartialEq)]
pub enum StmtKind {
    Expr(Expr),
    Var(Id, Option<Expr>),
    Block(Vec<Stmt>),
    /// else branch: a Block or an If statement
    If(Expr, Vec<Stmt>, Option<Box<Stmt>>),
    While(Expr, Vec<Stmt>),
    For(Id, Expr, Vec<Stmt>),
    Break,
    Continue,
    Return(Option<Expr>),
    Throw(Expr),
    Try(Vec<Stmt>, Option<(Id, Vec<Stmt>)>, Option<Vec<Stmt>>),
    Fn(Rc<FnDecl>),
    Class(Rc<ClassDecl>),
    Import(String, Option<Id>),
}

// ---------------------------------------------------------------------------------------------------
// constructors (terse, for generators)

pub fn st(kind: StmtKind) -> Stmt {
    Stmt { kind, line: Cell::new(0) }
}
pub fn num(n: f64) -> Expr {
    Expr::Num(n)
}
pub fn s(text: &str) -> Expr {
    Expr::Str(text.to_string())
}
pub fn var(name: &str) -> Expr {
    Expr::Var(name.to_string())
}
pub fn call(f: Expr, args: Vec<Expr>) -> Expr {
    Expr::Call(Box::new(f), args)
}
pub fn invoke(recv: Expr, name: &str, args: Vec<Expr>) -> Expr {
    Expr::Invoke(Box::new(recv), name.to_string(), args)
}
pub fn get(recv: Expr, name: &str) -> Expr {
    Expr::Get(Box::new(recv), name.to_string())
}
pub fn set(recv: Expr, name: &str, v: Expr) -> Expr {
    Expr::Set(Box::new(recv), name.to_string(), Box::new(v))
}
pub fn bin(op: BinOp, a: Expr, b: Expr) -> Expr {
    Expr::Binary(op, Box::new(a), Box::new(b))
}
pub fn un(op: UnOp, a: Expr) -> Expr {
    Expr::Unary(op, Box::new(a))
}
pub fn assign(name: &str, v: Expr) -> Expr {
    Expr::Assign(name.to_string(), Box::new(v))
}
pub fn index(a: Expr, i: Expr) -> Expr {
    Expr::Index(Box::new(a), Box::new(i))
}
pub fn print_stmt(e: Expr) -> Stmt {
    st(StmtKind::Expr(call(var("print"), vec![e])))
}
pub fn expr_stmt(e: Expr) -> Stmt {
    st(StmtKind::Expr(e))
}
pub fn var_stmt(name: &str, e: Expr) -> Stmt {
    st(StmtKind::Var(name.to_string(), Some(e)))
}
pub fn block(b: Vec<Stmt>) -> Stmt {
    st(StmtKind::Block(b))
}
pub fn func(name: &str, params: &[&str], body: Vec<Stmt>) -> Rc<FnDecl> {
    Rc::new(FnDecl {
        name: name.to_string(),
        params: params.iter().map(|p| p.to_string()).collect(),
        body: FnBody::Block(body),
        kind: FnKind::Function,
        line: Cell::new(0),
    })
}
pub fn method(kind: FnKind, name: &str, params: &[&str], body: Vec<Stmt>) -> Rc<FnDecl> {
    Rc::new(FnDecl {
        name: name.to_string(),
        params: params.iter().map(|p| p.to_string()).collect(),
        body: FnBody::Block(body),
        kind,
        line: Cell::new(0),
    })
}
pub fn lambda_expr(params: &[&str], body: Expr) -> Expr {
    Expr::Lambda(Rc::new(FnDecl {
        name: String::new(),
        params: params.iter().map(|p| p.to_string()).collect(),
        body: FnBody::Expr(Box::new(body)),
        kind: FnKind::Function,
        line: Cell::new(0),
    }))
}
pub fn lambda_block(params: &[&str], body: Vec<Stmt>) -> Expr {
    Expr::Lambda(Rc::new(FnDecl {
        name: String::new(),
        params: params.iter().map(|p| p.to_string()).collect(),
        body: FnBody::Block(body),
        kind: FnKind::Function,
        line: Cell::new(0),
    }))
}
pub fn fn_stmt(f: Rc<FnDecl>) -> Stmt {
    st(StmtKind::Fn(f))
}
pub fn class_stmt(name: &str, superclass: Option<&str>, default_ctor: Option<&str>, methods: Vec<Rc<FnDecl>>) -> Stmt {
    st(StmtKind::Class(Rc::new(ClassDecl {
        name: name.to_string(),
        superclass: superclass.map(|s| s.to_string()),
        default_ctor: default_ctor.map(|s| s.to_string()),
        methods,
    })))
}

// ---------------------------------------------------------------------------------------------------
// printer

pub fn escape_str(text: &str) -> String {
    let mut out = String::new();
    for c in text.chars() {
        match c {
            '"' => out.push_str("\\\""),
            '\\' => out.push_str("\\\\"),
            '$' => out.push_str("\\$"),
            '\n' => out.push_str("\\n"),
            '\r' => out.push_str("\\r"),
            '\t' => out.push_str("\\t"),
            '\0' => out.push_str("\\0"),
            c => out.push(c),
        }
    }
    out
}

/// Number literal text for a non-negative finite number: positional, no exponent.
pub fn num_literal(n: f64) -> String {
    debug_assert!(n.is_finite() && n >= 0.0 && !(n == 0.0 && n.is_sign_negative()));
    let t = format!("{}", n);
    debug_assert!(!t.contains('e'));
    t
}

pub struct Printer {
    pub out: String,
    pub line: usize,
    pub full_parens: bool,
    indent: usize,
}

pub fn expr_prec(e: &Expr) -> u8 {
    match e {
        Expr::Assign(..) | Expr::CompoundAssign(..) | Expr::Set(..) | Expr::CompoundSet(..) | Expr::SetIndex(..) | Expr::Lambda(_) => PREC_ASSIGN,
        Expr::Or(..) => PREC_OR,
        Expr::And(..) => PREC_AND,
        Expr::Binary(op, ..) => op.prec(),
        Expr::Unary(..) => PREC_UNARY,
        Expr::Num(n) if *n < 0.0 || (*n == 0.0 && n.is_sign_negative()) => PREC_UNARY,
        Expr::Num(n) if !n.is_finite() => 11, // printed as a division
        Expr::Call(..) | Expr::Invoke(..) | Expr::Get(..) | Expr::Index(..) | Expr::SuperGet(_) | Expr::SuperInvoke(..) => PREC_CALL,
        _ => PREC_PRIMARY,
    }
}

impl Printer {
    pub fn new(full_parens: bool) -> Printer {
        Printer { out: String::new(), line: 1, full_parens, indent: 0 }
    }

    fn w(&mut self, text: &str) {
        self.line += text.matches('\n').count();
        self.out.push_str(text);
    }

    fn nl(&mut self) {
        self.out.push('\n');
        self.line += 1;
        for _ in 0..self.indent {
            self.out.push_str("  ");
        }
    }

    fn args(&mut self, args: &[Expr]) {
        for (i, a) in args.iter().enumerate() {
            if i > 0 {
                self.w(", ");
            }
            self.expr(a, PREC_ASSIGN);
        }
    }

    /// print `e` where an operand of at least precedence `min` is required
    pub fn expr(&mut self, e: &Expr, min: u8) {
        let p = expr_prec(e);
        let atomic = matches!(e, Expr::Nil | Expr::True | Expr::False | Expr::Str(_) | Expr::RawStr(..) | Expr::RawNum(..) | Expr::Var(_) | Expr::SelfRef | Expr::CapSelf | Expr::Paren(_) | Expr::VecLit(_) | Expr::TupleLit(_) | Expr::MapLit(_) | Expr::Interp(_))
            || matches!(e, Expr::Num(n) if p == PREC_PRIMARY && n.is_finite());
        let need = p < min || (self.full_parens && !atomic && min > PREC_ASSIGN);
        if need {
            self.w("(");
        }
        self.expr_inner(e);
        if need {
            self.w(")");
        }
    }

    fn expr_inner(&mut self, e: &Expr) {
        match e {
            Expr::Nil => self.w("nil"),
            Expr::True => self.w("true"),
            Expr::False => self.w("false"),
            Expr::Num(n) => {
                if n.is_nan() {
                    self.w("0 / 0");
                } else if n.is_infinite() {
                    self.w(if *n > 0.0 { "1 / 0" } else { "-1 / 0" });
                } else if *n < 0.0 || (*n == 0.0 && n.is_sign_negative()) {
                    let t = num_literal(-*n);
                    self.w("-");
                    self.w(&t);
                } else {
                    let t = num_literal(*n);
                    self.w(&t);
                }
            }
            Expr::RawNum(t, _) => self.w(t),
            Expr::Str(t) => {
                let t = format!("\"{}\"", escape_str(t));
                self.w(&t);
            }
            Expr::RawStr(src, _) => {
                let t = format!("\"{}\"", src);
                self.w(&t);
            }
            Expr::Interp(parts) => {
                self.w("\"");
                for p in parts {
                    match p {
                        Part::Lit(t) => {
                            let t = escape_str(t);
                            self.w(&t);
                        }
                        Part::Expr(e) => {
                            self.w("${");
                            self.expr(e, PREC_ASSIGN);
                            self.w("}");
                        }
                    }
                }
                self.w("\"");
            }
            Expr::Var(n) => self.w(n),
            Expr::Assign(n, v) => {
                self.w(n);
                self.w(" = ");
                self.expr(v, PREC_ASSIGN);
            }
            Expr::CompoundAssign(n, op, v) => {
                self.w(n);
                self.w(&format!(" {}= ", op.text()));
                self.expr(v, PREC_BITOR);
            }
            Expr::Unary(op, a) => {
                self.w(match op {
                    UnOp::Neg => "-",
                    UnOp::Not => "!",
                    UnOp::BitNot => "~",
                });
                self.expr(a, PREC_UNARY);
            }
            Expr::Binary(op, a, b) => {
                let p = op.prec();
                self.expr(a, p);
                if *op == BinOp::Range {
                    self.w("..");
                    self.expr(b, PREC_UNARY);
                } else {
                    self.w(&format!(" {} ", op.text()));
                    self.expr(b, p + 1);
                }
            }
            Expr::And(a, b) => {
                self.expr(a, PREC_AND + 1);
                self.w(" && ");
                self.expr(b, PREC_AND);
            }
            Expr::Or(a, b) => {
                self.expr(a, PREC_OR + 1);
                self.w(" || ");
                self.expr(b, PREC_OR);
            }
            Expr::Call(f, args) => {
                // `r.n(args)` would be a method invocation, not a call of the bound value
                if matches!(**f, Expr::Get(..) | Expr::SuperGet(_)) {
                    self.w("(");
                    self.expr(f, PREC_ASSIGN);
                    self.w(")");
                } else {
                    self.expr(f, PREC_CALL);
                }
                self.w("(");
                self.args(args);
                self.w(")");
            }
            Expr::Invoke(r, n, args) => {
                self.expr(r, PREC_CALL);
                self.w(".");
                self.w(n);
                self.w("(");
                self.args(args);
                self.w(")");
            }
            Expr::Get(r, n) => {
                self.expr(r, PREC_CALL);
                self.w(".");
                self.w(n);
            }
            Expr::Set(r, n, v) => {
                self.expr(r, PREC_CALL);
                self.w(".");
                self.w(n);
                self.w(" = ");
                self.expr(v, PREC_ASSIGN);
            }
            Expr::CompoundSet(r, n, op, v) => {
                self.expr(r, PREC_CALL);
                self.w(".");
                self.w(n);
                self.w(&format!(" {}= ", op.text()));
                self.expr(v, PREC_BITOR);
            }
            Expr::Index(a, i) => {
                self.expr(a, PREC_CALL);
                self.w("[");
                self.expr(i, PREC_ASSIGN);
                self.w("]");
            }
            Expr::SetIndex(a, i, v) => {
                self.expr(a, PREC_CALL);
                self.w("[");
                self.expr(i, PREC_ASSIGN);
                self.w("] = ");
                self.expr(v, PREC_ASSIGN);
            }
            Expr::VecLit(items) => {
                self.w("[");
                self.args(items);
                self.w("]");
            }
            Expr::TupleLit(items) => {
                self.w("(");
                self.args(items);
                if items.len() == 1 {
                    self.w(",");
                }
                self.w(")");
            }
            Expr::MapLit(items) => {
                self.w("{");
                for (i, (k, v)) in items.iter().enumerate() {
                    if i > 0 {
                        self.w(", ");
                    }
                    self.expr(k, PREC_ASSIGN);
                    self.w(": ");
                    self.expr(v, PREC_ASSIGN);
                }
                self.w("}");
            }
            Expr::Lambda(f) => {
                f.line.set(self.line);
                if f.params.is_empty() {
                    self.w("||");
                } else {
                    self.w("|");
                    self.w(&f.params.join(", "));
                    self.w("|");
                }
                self.w(" ");
                match &f.body {
                    FnBody::Expr(e) => self.expr(e, PREC_ASSIGN),
                    FnBody::Block(b) => self.block(b),
                }
            }
            Expr::SelfRef => self.w("self"),
            Expr::CapSelf => self.w("Self"),
            Expr::SuperGet(n) => {
                self.w("super.");
                self.w(n);
            }
            Expr::SuperInvoke(n, args) => {
                self.w("super.");
                self.w(n);
                self.w("(");
                self.args(args);
                self.w(")");
            }
            Expr::Paren(e) => {
                self.w("(");
                self.expr(e, PREC_ASSIGN);
                self.w(")");
            }
        }
    }

    pub fn block(&mut self, stmts: &[Stmt]) {
        self.w("{");
        self.indent += 1;
        for s in stmts {
            self.nl();
            self.stmt(s);
        }
        self.indent -= 1;
        self.nl();
        self.w("}");
    }

    fn fn_decl(&mut self, f: &FnDecl) {
        f.line.set(self.line);
        self.w("fn ");
        self.w(&f.name);
        self.w("(");
        let mut ps: Vec<String> = Vec::new();
        if matches!(f.kind, FnKind::Method | FnKind::Ctor) {
            ps.push("self".into());
        }
        ps.extend(f.params.iter().cloned());
        self.w(&ps.join(", "));
        self.w(") ");
        match &f.body {
            FnBody::Block(b) => self.block(b),
            FnBody::Expr(e) => {
                // a named function always has a block body
                self.w("{ return ");
                self.expr(e, PREC_ASSIGN);
                self.w("; }");
            }
        }
    }

    pub fn stmt(&mut self, s: &Stmt) {
        s.line.set(self.line);
        match &s.kind {
            StmtKind::Expr(e) => {
                // an expression statement must not start with `{` (it would be read as a block)
                if matches!(e, Expr::MapLit(_)) {
                    self.w("(");
                    self.expr(e, PREC_ASSIGN);
                    self.w(")");
                } else {
                    self.expr(e, PREC_ASSIGN);
                }
                self.w(";");
            }
            StmtKind::Var(n, init) => {
                self.w("var ");
                self.w(n);
                if let Some(e) = init {
                    self.w(" = ");
                    self.expr(e, PREC_ASSIGN);
                }
                self.w(";");
            }
            StmtKind::Block(b) => self.block(b),
            StmtKind::If(c, then, els) => {
                self.w("if ");
                self.expr(c, PREC_ASSIGN);
                self.w(" ");
                self.block(then);
                if let Some(e) = els {
                    self.w(" else ");
                    // the else branch's statement starts on this line
                    self.stmt(e);
                }
            }
            StmtKind::While(c, body) => {
                self.w("while ");
                self.expr(c, PREC_ASSIGN);
                self.w(" ");
                self.block(body);
            }
            StmtKind::For(v, it, body) => {
                self.w("for ");
                self.w(v);
                self.w(" in ");
                self.expr(it, PREC_ASSIGN);
                self.w(" ");
                self.block(body);
            }
            StmtKind::Break => self.w("break;"),
            StmtKind::Continue => self.w("continue;"),
            StmtKind::Return(e) => {
                self.w("return");
                if let Some(e) = e {
                    self.w(" ");
                    self.expr(e, PREC_ASSIGN);
                }
                self.w(";");
            }
            StmtKind::Throw(e) => {
                self.w("throw ");
                self.expr(e, PREC_ASSIGN);
                self.w(";");
            }
            StmtKind::Try(body, catch, finally) => {
                self.w("try ");
                self.block(body);
                if let Some((v, b)) = catch {
                    self.w(" catch ");
                    self.w(v);
                    self.w(" ");
                    self.block(b);
                }
                if let Some(b) = finally {
                    self.w(" finally ");
                    self.block(b);
                }
            }
            StmtKind::Fn(f) => self.fn_decl(f),
            StmtKind::Class(c) => {
                let mut attrs: Vec<String> = Vec::new();
                if let Some(n) = &c.default_ctor {
                    attrs.push(format!("constructor({})", n));
                }
                if let Some(sup) = &c.superclass {
                    attrs.push(format!("derive({})", sup));
                }
                if !attrs.is_empty() {
                    self.w(&format!("#[{}]", attrs.join(", ")));
                    self.nl();
                }
                self.w("class ");
                self.w(&c.name);
                self.w(" {");
                self.indent += 1;
                for m in &c.methods {
                    self.nl();
                    match m.kind {
                        FnKind::Static => {
                            self.w("#[static]");
                            self.nl();
                        }
                        FnKind::Ctor => {
                            self.w("#[constructor]");
                            self.nl();
                        }
                        _ => {}
                    }
                    self.fn_decl(m);
                }
                self.indent -= 1;
                self.nl();
                self.w("}");
            }
            StmtKind::Import(path, alias) => {
                self.w(&format!("import \"{}\"", escape_str(path)));
                if let Some(a) = alias {
                    self.w(" as ");
                    self.w(a);
                }
                self.w(";");
            }
        }
    }
}

/// Print a program; records every statement's line in the tree.
pub fn print_program(stmts: &[Stmt], full_parens: bool) -> String {
    print_program_from(stmts, full_parens, 1)
}

/// the program preceded by `first_line - 1` empty lines (its first statement sits on line `first_line`)
pub fn print_program_from(stmts: &[Stmt], full_parens: bool, first_line: usize) -> String {
    let mut p = Printer::new(full_parens);
    for _ in 1..first_line {
        p.out.push('\n');
    }
    p.line = first_line.max(1);
    for (i, s) in stmts.iter().enumerate() {
        if i > 0 {
            p.nl();
        }
        p.stmt(s);
    }
    p.out.push('\n');
    p.out
}

pub fn print_expr(e: &Expr, full_parens: bool) -> String {
    let mut p = Printer::new(full_parens);
    p.expr(e, PREC_ASSIGN);
    p.out
}
