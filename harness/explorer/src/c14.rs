//! C14 — modules load once, keep their own globals, and cycles are reported.
use crate::ast::*;
use crate::common::*;
use crate::diff::CmpOpts;
use crate::mcheck::{self, Case, Hooks};
use crate::meval::{ModuleSource, Outcome};
use serde_json::json;
use std::collections::BTreeMap;

const MODS: [&str; 3] = ["a", "b", "c"];

/// every name the interpreter defines before a program runs
pub const BUILTIN_NAMES: [&str; 30] = [
    "clock", "type", "print", "Type", "Object", "Nil", "Bool", "Num", "Func", "BuiltIn", "Method", "BuiltInMethod", "String", "Iter", "Tuple", "Vec", "Range", "HashMap", "Fiber",
    "Error", "StopIter", "RuntimeError", "AttributeError", "IndexError", "ImportError", "NameError", "TypeError", "ValueError", "MapIter", "FilterIter",
];

/// one line per built-in name: its value, or "missing <name>"
pub fn builtin_census() -> Vec<Stmt> {
    BUILTIN_NAMES
        .iter()
        .map(|n| st(StmtKind::Try(vec![print_stmt(var(n))], Some(("e".into(), vec![print_stmt(s(&format!("missing {}", n)))])), None)))
        .collect()
}

fn guarded_import(importer: &str, path: &str, alias: Option<&str>) -> Stmt {
    let name = alias.unwrap_or(path);
    st(StmtKind::Try(
        vec![
            st(StmtKind::Import(path.to_string(), alias.map(|a| a.to_string()))),
            print_stmt(Expr::Interp(vec![Part::Lit(format!("{} sees {}.name=", importer, path)), Part::Expr(get(var(name), "name"))])),
        ],
        Some(("e".into(), vec![print_stmt(Expr::Interp(vec![Part::Lit(format!("{}: import {} failed: ", importer, path)), Part::Expr(call(var("type"), vec![var("e")]))]))])),
        None,
    ))
}

fn module_body(name: &str, imports: &[&str]) -> Vec<Stmt> {
    let mut b = vec![
        print_stmt(s(&format!("load {}", name))),
        var_stmt("name", s(name)),
        fn_stmt(func("f", &[], vec![st(StmtKind::Return(Some(var("name"))))])),
        fn_stmt(func("set", &["v"], vec![expr_stmt(assign("name", var("v")))])),
        // built-ins are visible in every module
        print_stmt(Expr::Interp(vec![Part::Lit(format!("{} builtins: ", name)), Part::Expr(call(var("type"), vec![num(1.0)])), Part::Lit(" ".into()), Part::Expr(var("Error"))])),
    ];
    // ... every one of them (one line each)
    b.extend(builtin_census());
    for i in imports {
        b.push(guarded_import(name, i, None));
    }
    b.push(print_stmt(s(&format!("loaded {}", name))));
    b
}

fn main_uses(m: &str) -> Vec<Stmt> {
    vec![
        print_stmt(get(var(m), "name")),
        print_stmt(invoke(var(m), "f", vec![])),
        expr_stmt(set(var(m), "name", s(&format!("{} changed by main", m)))),
        print_stmt(invoke(var(m), "f", vec![])),
        expr_stmt(invoke(var(m), "set", vec![s(&format!("{} set through function", m))])),
        print_stmt(get(var(m), "name")),
        // a new attribute set from outside becomes a global of that module
        expr_stmt(set(var(m), "fresh", num(1.0))),
        print_stmt(get(var(m), "fresh")),
    ]
}

fn graph_case(bits: usize) -> Case {
    // bits 0..5: edges between a,b,c (u->v, u != v); bits 6..8: self loops; bits 9..11: main -> a,b,c
    let mut modules = BTreeMap::new();
    let mut k = 0;
    let mut imports: Vec<Vec<&str>> = vec![vec![], vec![], vec![]];
    for u in 0..3 {
        for v in 0..3 {
            if u != v {
                if bits >> k & 1 == 1 {
                    imports[u].push(MODS[v]);
                }
                k += 1;
            }
        }
    }
    for u in 0..3 {
        if bits >> (6 + u) & 1 == 1 {
            imports[u].push(MODS[u]);
        }
    }
    for u in 0..3 {
        modules.insert(MODS[u].to_string(), ModuleSource { program: Some(module_body(MODS[u], &imports[u])), compile_error: false });
    }
    let mut main = vec![var_stmt("name", s("main's own name"))];
    for u in 0..3 {
        if bits >> (9 + u) & 1 == 1 {
            main.push(st(StmtKind::Import(MODS[u].to_string(), None)));
            main.extend(main_uses(MODS[u]));
            // importing again yields the same object and does not run the body again
            main.push(st(StmtKind::Import(MODS[u].to_string(), Some(format!("{}_again", MODS[u])))));
            main.push(print_stmt(bin(BinOp::Eq, var(&format!("{}_again", MODS[u])), var(MODS[u]))));
        }
    }
    // nothing leaked into main's globals
    main.push(print_stmt(var("name")));
    main.push(st(StmtKind::Try(vec![print_stmt(var("f"))], Some(("e".into(), vec![print_stmt(call(var("type"), vec![var("e")]))])), None)));
    let mut c = Case::new("graphs_main_a_b_c", main);
    c.modules = modules;
    c.opts = CmpOpts { trace: false, kind: false };
    c
}


/// the same graphs with every module-to-module import deferred: each module's imports sit in its function
/// `late`, which main calls (twice) once the modules it imports are loaded - so no import meets a module
/// that is still loading, cycles and self-imports included; every module body runs once, `late` binds the
/// same module objects every time, and a module importing itself gets itself
fn module_body_lazy(name: &str, imports: &[&str]) -> Vec<Stmt> {
    let mut b = vec![
        print_stmt(s(&format!("load {}", name))),
        var_stmt("name", s(name)),
        fn_stmt(func("f", &[], vec![st(StmtKind::Return(Some(var("name"))))])),
    ];
    let mut late: Vec<Stmt> = Vec::new();
    for i in imports {
        late.push(guarded_import(name, i, None));
        // the module object is a local of `late`; what it names is the one module
        late.push(st(StmtKind::Try(vec![print_stmt(invoke(var(i), "f", vec![]))], Some(("e".into(), vec![print_stmt(call(var("type"), vec![var("e")]))])), None)));
    }
    late.push(print_stmt(s(&format!("late {} done", name))));
    b.push(fn_stmt(func("late", &[], late)));
    b.push(print_stmt(s(&format!("loaded {}", name))));
    b
}

fn lazy_graph_case(bits: usize) -> Case {
    let mut modules = BTreeMap::new();
    let mut k = 0;
    let mut imports: Vec<Vec<&str>> = vec![vec![], vec![], vec![]];
    for u in 0..3 {
        for v in 0..3 {
            if u != v {
                if bits >> k & 1 == 1 {
                    imports[u].push(MODS[v]);
                }
                k += 1;
            }
        }
    }
    for u in 0..3 {
        if bits >> (6 + u) & 1 == 1 {
            imports[u].push(MODS[u]);
        }
    }
    for u in 0..3 {
        modules.insert(MODS[u].to_string(), ModuleSource { program: Some(module_body_lazy(MODS[u], &imports[u])), compile_error: false });
    }
    let mut main = vec![var_stmt("name", s("main's own name"))];
    for u in 0..3 {
        if bits >> (9 + u) & 1 == 1 {
            main.push(st(StmtKind::Import(MODS[u].to_string(), None)));
        }
    }
    for round in 0..2 {
        for u in 0..3 {
            if bits >> (9 + u) & 1 == 1 {
                main.push(expr_stmt(invoke(var(MODS[u]), "late", vec![])));
                if round == 1 {
                    main.push(expr_stmt(set(var(MODS[u]), "name", s(&format!("{} renamed by main", MODS[u])))));
                }
            }
        }
    }
    // after the renaming every module sees the new names through its own imports
    for u in 0..3 {
        if bits >> (9 + u) & 1 == 1 {
            main.push(expr_stmt(invoke(var(MODS[u]), "late", vec![])));
        }
    }
    main.push(print_stmt(var("name")));
    let mut c = Case::new("graphs_with_deferred_imports", main);
    c.modules = modules;
    c.opts = CmpOpts { trace: false, kind: false };
    c
}


/// Paths spelled in ways that do not look "canonical" (a leading `./`, a doubled separator, a `.` component):
/// whatever the spelling, the statement of the property holds for it - the same spelling imported again
/// (at top level, in a function, from another module) yields the one module object, its body runs once,
/// and a cycle written with such spellings is reported as ImportError.  The module table serves every
/// spelling and its cleaned-up form with the same text, as a file system would.
fn odd_spellings() -> Vec<Case> {
    let mut out = Vec::new();
    let clean = |p: &str| -> String { p.split('/').filter(|c| !c.is_empty() && *c != ".").collect::<Vec<_>>().join("/") };
    let counter = |label: &str| -> Vec<Stmt> {
        vec![
            print_stmt(s(&format!("load {}", label))),
            var_stmt("count", num(0.0)),
            fn_stmt(func("bump", &[], vec![expr_stmt(Expr::CompoundAssign("count".into(), BinOp::Add, Box::new(num(1.0)))), st(StmtKind::Return(Some(var("count"))))])),
        ]
    };
    for sp in ["./cnt", ".//cnt", "d/./cnt", "d//cnt", "./d/cnt", "cnt/."] {
        let mut modules = BTreeMap::new();
        for key in [sp.to_string(), clean(sp)] {
            modules.insert(key, ModuleSource { program: Some(counter("counter")), compile_error: false });
        }
        // a second module that imports the counter with the same spelling
        let via = vec![print_stmt(s("load via")), st(StmtKind::Import(sp.to_string(), Some("inner".into()))), fn_stmt(func("get", &[], vec![st(StmtKind::Return(Some(var("inner"))))]))];
        modules.insert("via".to_string(), ModuleSource { program: Some(via), compile_error: false });
        let main = vec![
            st(StmtKind::Import(sp.to_string(), Some("x".into()))),
            print_stmt(invoke(var("x"), "bump", vec![])),
            print_stmt(invoke(var("x"), "bump", vec![])),
            st(StmtKind::Import(sp.to_string(), Some("y".into()))),
            print_stmt(bin(BinOp::Eq, var("y"), var("x"))),
            print_stmt(get(var("y"), "count")),
            fn_stmt(func("later", &[], vec![st(StmtKind::Import(sp.to_string(), Some("z".into()))), st(StmtKind::Return(Some(var("z"))))])),
            print_stmt(bin(BinOp::Eq, call(var("later"), vec![]), var("x"))),
            print_stmt(bin(BinOp::Eq, call(var("later"), vec![]), var("x"))),
            st(StmtKind::Import("via".into(), None)),
            print_stmt(bin(BinOp::Eq, invoke(var("via"), "get", vec![]), var("x"))),
            print_stmt(invoke(var("x"), "bump", vec![])),
        ];
        let mut c = Case::new("odd_spellings_of_a_path", main);
        c.modules = modules;
        out.push(c);
        // a cycle of two modules that name each other with such a spelling
        let (pa, pb) = (sp.replace("cnt", "ping"), sp.replace("cnt", "pong"));
        let mut modules = BTreeMap::new();
        let ping = vec![print_stmt(s("load ping")), var_stmt("name", s("ping")), guarded_import("ping", &pb, Some("other")), print_stmt(s("loaded ping"))];
        let pong = vec![print_stmt(s("load pong")), var_stmt("name", s("pong")), guarded_import("pong", &pa, Some("other")), print_stmt(s("loaded pong"))];
        for key in [pa.clone(), clean(&pa)] {
            modules.insert(key, ModuleSource { program: Some(ping.clone()), compile_error: false });
        }
        for key in [pb.clone(), clean(&pb)] {
            modules.insert(key, ModuleSource { program: Some(pong.clone()), compile_error: false });
        }
        let main = vec![st(StmtKind::Import(pa.clone(), Some("p".into()))), print_stmt(get(var("p"), "name")), st(StmtKind::Import(pb.clone(), Some("q".into()))), print_stmt(get(var("q"), "name")), st(StmtKind::Import(pa.clone(), Some("p2".into()))), print_stmt(bin(BinOp::Eq, var("p2"), var("p")))];
        let mut c = Case::new("odd_spellings_in_a_cycle", main);
        c.modules = modules;
        out.push(c);
    }
    out
}


/// Imports that do not complete leave nothing behind.  (a) An import executed at the call-depth limit - the
/// module body would be the 65th active call - is an IndexError `Stack overflow.` to the importing
/// statement; caught there, the importer's own globals are what they were (also one named like a built-in),
/// and the module can be imported afterwards from a shallower place: its body runs then, once.  The depth is
/// swept from four below the limit to two above.  (b) A module whose body throws is not loaded: a handler
/// around the import sees the thrown value; importing it again runs the body again (and fails again while
/// the cause persists, succeeds once it is gone); what its body had imported successfully stays loaded.
fn imports_that_do_not_complete() -> Vec<Case> {
    let mut out = Vec::new();
    let probe = |e: Expr| st(StmtKind::Try(vec![print_stmt(e)], Some(("err".into(), vec![print_stmt(call(var("type"), vec![var("err")]))])), None));
    for depth in 59..=66usize {
        for shadow in [false, true] {
            let mut modules = BTreeMap::new();
            modules.insert("deepm".to_string(), ModuleSource { program: Some(vec![print_stmt(s("load deepm")), var_stmt("name", s("deepm")), fn_stmt(func("f", &[], vec![st(StmtKind::Return(Some(var("name"))))]))]), compile_error: false });
            let at_bottom = vec![
                st(StmtKind::Try(
                    vec![st(StmtKind::Import("deepm".into(), None)), print_stmt(invoke(var("deepm"), "f", vec![])), st(StmtKind::Return(Some(s("imported at the bottom"))))],
                    Some(("e".into(), vec![print_stmt(call(var("type"), vec![var("e")])), print_stmt(get(var("e"), "context")), st(StmtKind::Return(Some(s("failed at the bottom"))))])),
                    None,
                )),
            ];
            let down = fn_stmt(func("down", &["n"], vec![st(StmtKind::If(bin(BinOp::Le, var("n"), num(1.0)), at_bottom, None)), st(StmtKind::Return(Some(call(var("down"), vec![bin(BinOp::Sub, var("n"), num(1.0))]))))]));
            let mut main = Vec::new();
            if shadow {
                main.push(var_stmt("Vec", s("main's own Vec")));
                main.push(var_stmt("print_count", num(0.0)));
            }
            main.push(down);
            // `down(depth)` makes depth active calls below the script
            main.push(print_stmt(call(var("down"), vec![num(depth as f64)])));
            if shadow {
                main.push(print_stmt(var("Vec")));
            }
            main.push(probe(call(var("type"), vec![Expr::VecLit(vec![])])));
            // afterwards, from the top level
            main.push(st(StmtKind::Import("deepm".into(), Some("again".into()))));
            main.push(print_stmt(invoke(var("again"), "f", vec![])));
            main.push(st(StmtKind::Import("deepm".into(), Some("third".into()))));
            main.push(print_stmt(bin(BinOp::Eq, var("third"), var("again"))));
            if shadow {
                main.push(print_stmt(var("Vec")));
            }
            let mut c = Case::new("import_at_the_call_depth_limit", main);
            c.modules = modules;
            out.push(c);
        }
    }
    // (b)
    for place in 0..3usize {
        let mut modules = BTreeMap::new();
        modules.insert("cfg".to_string(), ModuleSource { program: Some(vec![print_stmt(s("load cfg")), var_stmt("fail", Expr::True)]), compile_error: false });
        modules.insert(
            "fragile".to_string(),
            ModuleSource {
                program: Some(vec![
                    print_stmt(s("load fragile")),
                    var_stmt("before", s("defined before the failure")),
                    st(StmtKind::Import("cfg".into(), None)),
                    st(StmtKind::If(get(var("cfg"), "fail"), vec![st(StmtKind::Throw(s("fragile failed")))], None)),
                    var_stmt("after", s("defined after the check")),
                    print_stmt(s("loaded fragile")),
                ]),
                compile_error: false,
            },
        );
        modules.insert("wrapper".to_string(), ModuleSource { program: Some(vec![print_stmt(s("load wrapper")), st(StmtKind::Import("fragile".into(), None)), print_stmt(s("loaded wrapper"))]), compile_error: false });
        let target = if place == 2 { "wrapper" } else { "fragile" };
        let attempt = |label: &str| -> Stmt {
            let imp = vec![st(StmtKind::Import(target.to_string(), Some("m".into()))), print_stmt(s(&format!("{}: imported", label))), st(StmtKind::Return(Some(var("m"))))];
            let body = vec![st(StmtKind::Try(imp, Some(("e".into(), vec![print_stmt(Expr::Interp(vec![Part::Lit(format!("{}: failed with ", label)), Part::Expr(var("e"))])), st(StmtKind::Return(Some(Expr::Nil)))])), None))];
            fn_stmt(func(&format!("attempt_{}", label), &[], body))
        };
        let mut main = vec![attempt("first"), attempt("second"), attempt("third"), attempt("fourth")];
        let call_it = |label: &str| -> Expr { call(var(&format!("attempt_{}", label)), vec![]) };
        if place == 1 {
            // from inside a fiber
            main.push(print_stmt(invoke(invoke(var("Fiber"), "new", vec![lambda_expr(&[], call_it("first"))]), "call", vec![])));
        } else {
            main.push(print_stmt(call_it("first")));
        }
        main.push(print_stmt(call_it("second")));
        // the cause goes away
        main.push(st(StmtKind::Import("cfg".into(), None)));
        main.push(expr_stmt(set(var("cfg"), "fail", Expr::False)));
        main.push(var_stmt("ok", call_it("third")));
        main.push(probe(bin(BinOp::Ne, var("ok"), Expr::Nil)));
        main.push(var_stmt("again", call_it("fourth")));
        main.push(print_stmt(bin(BinOp::Eq, var("again"), var("ok"))));
        if place != 2 {
            main.push(probe(get(var("ok"), "after")));
        }
        let mut c = Case::new("module_whose_body_throws_is_not_loaded", main);
        c.modules = modules;
        out.push(c);
    }
    // (c) chains: l1 imports l2 imports l3 (imports l4); the module at level `thrower` throws while a
    // condition holds, the exception leaves every module body above it in one go and is caught in main (or
    // in a fiber): every module of the chain at or above the thrower is not loaded, those below it are;
    // the next attempt runs exactly the bodies that did not complete
    for len in 2..=4usize {
        for thrower in 1..=len {
            for in_fiber in [false, true] {
                let mut modules = BTreeMap::new();
                modules.insert("chaincfg".to_string(), ModuleSource { program: Some(vec![var_stmt("fail", Expr::True)]), compile_error: false });
                for level in 1..=len {
                    let name = format!("l{}", level);
                    let mut body = vec![print_stmt(s(&format!("load {}", name))), var_stmt("level", num(level as f64))];
                    if level < len {
                        body.push(st(StmtKind::Import(format!("l{}", level + 1), Some("next".into()))));
                    }
                    if level == thrower {
                        body.push(st(StmtKind::Import("chaincfg".into(), None)));
                        body.push(st(StmtKind::If(get(var("chaincfg"), "fail"), vec![st(StmtKind::Throw(s(&format!("{} failed", name))))], None)));
                    }
                    body.push(fn_stmt(func("depth", &[], vec![st(StmtKind::Return(Some(if level < len { bin(BinOp::Add, num(1.0), invoke(var("next"), "depth", vec![])) } else { num(1.0) })))])));
                    body.push(print_stmt(s(&format!("loaded {}", name))));
                    modules.insert(name, ModuleSource { program: Some(body), compile_error: false });
                }
                let attempt_body = vec![st(StmtKind::Try(
                    vec![st(StmtKind::Import("l1".into(), Some("m".into()))), st(StmtKind::Return(Some(invoke(var("m"), "depth", vec![]))))],
                    Some(("e".into(), vec![st(StmtKind::Return(Some(Expr::Interp(vec![Part::Lit("failed with ".into()), Part::Expr(var("e"))]))))])),
                    None,
                ))];
                let mut main = vec![fn_stmt(func("attempt", &[], attempt_body))];
                let call_attempt = || -> Expr {
                    if in_fiber {
                        invoke(invoke(var("Fiber"), "new", vec![lambda_expr(&[], call(var("attempt"), vec![]))]), "call", vec![])
                    } else {
                        call(var("attempt"), vec![])
                    }
                };
                main.push(print_stmt(call_attempt()));
                main.push(print_stmt(call_attempt()));
                main.push(st(StmtKind::Import("chaincfg".into(), None)));
                main.push(expr_stmt(set(var("chaincfg"), "fail", Expr::False)));
                main.push(print_stmt(call_attempt()));
                main.push(print_stmt(call_attempt()));
                // every module of the chain is now the one loaded module of its path
                for level in 1..=len {
                    main.push(st(StmtKind::Import(format!("l{}", level), Some(format!("again{}", level)))));
                    main.push(print_stmt(get(var(&format!("again{}", level)), "level")));
                }
                let mut c = Case::new("chain_of_modules_abandoned_by_one_exception", main);
                c.modules = modules;
                out.push(c);
            }
        }
    }
    out
}

fn placements() -> Vec<Case> {
    let mut out = Vec::new();
    let mods = |extra: Vec<(&str, ModuleSource)>| -> BTreeMap<String, ModuleSource> {
        let mut m = BTreeMap::new();
        m.insert("a".to_string(), ModuleSource { program: Some(module_body("a", &["b"])), compile_error: false });
        m.insert("b".to_string(), ModuleSource { program: Some(module_body("b", &[])), compile_error: false });
        for (k, v) in extra {
            m.insert(k.to_string(), v);
        }
        m
    };
    // import inside a function called 0 / 1 / 2 times
    for calls in 0..3 {
        let mut main = vec![fn_stmt(func("loader", &[], vec![st(StmtKind::Import("a".into(), None)), print_stmt(invoke(var("a"), "f", vec![])), st(StmtKind::Return(Some(var("a"))))]))];
        main.push(var_stmt("got", Expr::VecLit(vec![])));
        for _ in 0..calls {
            main.push(expr_stmt(invoke(var("got"), "push", vec![call(var("loader"), vec![])])));
        }
        if calls == 2 {
            main.push(print_stmt(bin(BinOp::Eq, index(var("got"), num(0.0)), index(var("got"), num(1.0)))));
        }
        // the function-local binding did not become a global of main
        main.push(st(StmtKind::Try(vec![print_stmt(var("a"))], Some(("e".into(), vec![print_stmt(call(var("type"), vec![var("e")]))])), None)));
        main.push(st(StmtKind::Import("b".into(), None)));
        main.push(print_stmt(get(var("b"), "name")));
        let mut c = Case::new("placement_in_function", main);
        c.modules = mods(vec![]);
        out.push(c);
    }
    // missing and uncompilable modules, at top level and inside try, then the run continues
    for (what, path) in [("missing", "nowhere"), ("uncompilable", "bad")] {
        let extra = vec![("bad", ModuleSource { program: None, compile_error: true }), ("uses_bad", ModuleSource { program: Some(module_body("uses_bad", &["bad", "nowhere", "b"])), compile_error: false })];
        let mut main = vec![guarded_import("main", path, None), guarded_import("main", "uses_bad", None), guarded_import("main", path, Some("alias")), st(StmtKind::Import("b".into(), None)), print_stmt(get(var("b"), "name"))];
        main.push(print_stmt(s(what)));
        let mut c = Case::new("missing_and_uncompilable", main);
        c.modules = mods(extra.clone());
        out.push(c);
        // uncaught at top level: the ImportError ends the run, naming the importing statement
        let mut c = Case::new("missing_and_uncompilable_uncaught", vec![print_stmt(s("before")), st(StmtKind::Import(path.into(), None)), print_stmt(s("not reached"))]);
        c.modules = mods(extra);
        c.opts = CmpOpts { trace: true, kind: true };
        out.push(c);
    }
    // importing "main" is a compile error; a module in a sub-directory is bound under its file name
    let mut sub = BTreeMap::new();
    sub.insert("dir/inner".to_string(), ModuleSource { program: Some(module_body("inner", &[])), compile_error: false });
    let mut c = Case::new("path_with_directory", vec![st(StmtKind::Import("dir/inner".into(), None)), print_stmt(get(var("inner"), "name")), st(StmtKind::Import("dir/inner".into(), Some("other".into()))), print_stmt(bin(BinOp::Eq, var("other"), var("inner")))]);
    c.modules = sub;
    out.push(c);
    // two modules with the same file name in different directories: the one imported at top level is main's
    // global `util`; the other, imported without an alias inside a function / block / loop body / lambda, is
    // a local `util` there - every use in that scope means the local one, and main's global is untouched
    for place in 0..4 {
        let mut m2 = BTreeMap::new();
        for d in ["x", "y"] {
            m2.insert(
                format!("{}/util", d),
                ModuleSource { program: Some(vec![print_stmt(s(&format!("load {}/util", d))), var_stmt("name", s(&format!("util of {}", d))), fn_stmt(func("f", &[], vec![st(StmtKind::Return(Some(var("name"))))]))]), compile_error: false },
            );
        }
        let uses = vec![
            st(StmtKind::Import("y/util".into(), None)),
            print_stmt(get(var("util"), "name")),
            expr_stmt(set(var("util"), "name", s("changed where y/util is local"))),
            print_stmt(invoke(var("util"), "f", vec![])),
            expr_stmt(assign("seen", var("util"))),
        ];
        let mut main = vec![st(StmtKind::Import("x/util".into(), None)), print_stmt(get(var("util"), "name")), var_stmt("seen", Expr::Nil)];
        match place {
            0 => {
                main.push(fn_stmt(func("scope", &[], uses)));
                main.push(expr_stmt(call(var("scope"), vec![])));
            }
            1 => main.push(block(uses)),
            2 => main.push(st(StmtKind::For("round".into(), Expr::VecLit(vec![num(1.0), num(2.0)]), uses))),
            _ => {
                main.push(var_stmt("scope", lambda_block(&[], uses)));
                main.push(expr_stmt(call(var("scope"), vec![])));
            }
        }
        main.push(print_stmt(bin(BinOp::Eq, var("seen"), var("util"))));
        main.push(print_stmt(get(var("util"), "name")));
        main.push(print_stmt(get(var("seen"), "name")));
        main.push(st(StmtKind::Import("y/util".into(), Some("other".into()))));
        main.push(print_stmt(bin(BinOp::Eq, var("other"), var("seen"))));
        main.push(print_stmt(get(var("other"), "name")));
        let mut c = Case::new("same_file_name_in_two_directories", main);
        c.modules = m2;
        out.push(c);
    }
    // a cycle through three modules entered from main; and main's module object is not importable state
    let mut cyc = BTreeMap::new();
    cyc.insert("a".to_string(), ModuleSource { program: Some(module_body("a", &["b"])), compile_error: false });
    cyc.insert("b".to_string(), ModuleSource { program: Some(module_body("b", &["c"])), compile_error: false });
    cyc.insert("c".to_string(), ModuleSource { program: Some(module_body("c", &["a"])), compile_error: false });
    let mut c = Case::new("cycle_of_three", vec![st(StmtKind::Import("a".into(), None)), st(StmtKind::Import("c".into(), None)), print_stmt(invoke(var("c"), "f", vec![])), st(StmtKind::Import("b".into(), None)), print_stmt(invoke(var("b"), "f", vec![]))]);
    c.modules = cyc;
    out.push(c);
    out
}


/// A later import of a module is a lookup: it changes nothing in that module.  The module defines
/// globals under names that built-ins also have (a variable `clock`, a function `type`, a class `Error`
/// with a static method) and the importer stores an attribute under a built-in's name (`print`); after
/// every further import - under an alias, inside a function, inside a fiber, inside try, through another
/// module - the module's own functions and the importer still see the module's definitions, and the
/// importer's own built-ins are the built-ins.
/// A module whose own top-level code raises and handles exceptions while it is being imported is loaded
/// like any other: once.  Eight module bodies (a throw handled at top level, through a finally block, from a
/// function, a failed built-in, a failed import of another module, in a loop, inside a fiber, and a handled
/// exception that crossed from a second module) each define a counter after the handling; the main program
/// imports the module, bumps the counter, imports it again in one of five ways and bumps again: one load, one
/// module object, one counter.
fn modules_that_handle_their_own_exceptions() -> Vec<Case> {
    let mut out = Vec::new();
    let handled = |body: Vec<Stmt>| -> Stmt { st(StmtKind::Try(body, Some(("e".into(), vec![print_stmt(s("handled in m"))])), None)) };
    let bodies: Vec<(&str, Vec<Stmt>)> = vec![
        ("throw", vec![handled(vec![st(StmtKind::Throw(s("x")))])]),
        ("through_finally", vec![handled(vec![st(StmtKind::Try(vec![st(StmtKind::Throw(num(1.0)))], None, Some(vec![print_stmt(s("finally in m"))])))])]),
        ("from_function", vec![fn_stmt(func("f", &[], vec![st(StmtKind::Throw(s("deep")))])), handled(vec![expr_stmt(call(var("f"), vec![]))])]),
        ("built_in", vec![handled(vec![expr_stmt(index(Expr::VecLit(vec![]), num(1.0)))])]),
        ("failed_import", vec![handled(vec![st(StmtKind::Import("zz_not_there".into(), None))])]),
        ("in_a_loop", vec![st(StmtKind::For("i".into(), bin(BinOp::Range, num(0.0), num(3.0)), vec![handled(vec![st(StmtKind::If(bin(BinOp::Eq, var("i"), num(1.0)), vec![st(StmtKind::Throw(var("i")))], None))])]))]),
        ("in_a_fiber", vec![expr_stmt(invoke(invoke(var("Fiber"), "new", vec![lambda_block(&[], vec![handled(vec![st(StmtKind::Throw(num(1.0)))])])]), "call", vec![]))]),
        ("from_another_module", vec![st(StmtKind::Import("thrower".into(), None)), handled(vec![expr_stmt(invoke(var("thrower"), "fail", vec![]))])]),
    ];
    let reimports: Vec<(&str, Vec<Stmt>)> = vec![
        ("alias", vec![st(StmtKind::Import("m".into(), Some("again".into()))), print_stmt(bin(BinOp::Eq, var("again"), var("m")))]),
        ("same_name", vec![st(StmtKind::Import("m".into(), None))]),
        ("in_function", vec![fn_stmt(func("later", &[], vec![st(StmtKind::Import("m".into(), None)), st(StmtKind::Return(Some(var("m"))))])), print_stmt(bin(BinOp::Eq, call(var("later"), vec![]), var("m")))]),
        ("through_another_module", vec![st(StmtKind::Import("via".into(), None)), print_stmt(invoke(var("via"), "ask", vec![]))]),
        ("after_a_handled_failure_in_main", vec![st(StmtKind::Try(vec![st(StmtKind::Throw(s("main's own")))], Some(("e".into(), vec![print_stmt(s("handled in main"))])), None)), st(StmtKind::Import("m".into(), None))]),
    ];
    for (_bname, body) in &bodies {
        for (_rname, re) in &reimports {
            let mut module: Vec<Stmt> = vec![print_stmt(s("load m"))];
            module.extend(body.clone());
            module.push(var_stmt("count", num(0.0)));
            module.push(fn_stmt(func("bump", &[], vec![expr_stmt(assign("count", bin(BinOp::Add, var("count"), num(1.0)))), st(StmtKind::Return(Some(var("count"))))])));
            module.push(print_stmt(s("loaded m")));
            let mut main = vec![st(StmtKind::Import("m".into(), None)), print_stmt(invoke(var("m"), "bump", vec![]))];
            main.extend(re.clone());
            main.push(print_stmt(invoke(var("m"), "bump", vec![])));
            main.push(st(StmtKind::Import("m".into(), Some("last".into()))));
            main.push(print_stmt(bin(BinOp::Eq, var("last"), var("m"))));
            main.push(print_stmt(invoke(var("last"), "bump", vec![])));
            let mut c = Case::new("modules_that_handle_their_own_exceptions", main);
            c.modules.insert("m".to_string(), ModuleSource { program: Some(module), compile_error: false });
            c.modules.insert("via".to_string(), ModuleSource { program: Some(vec![st(StmtKind::Import("m".into(), None)), fn_stmt(func("ask", &[], vec![st(StmtKind::Return(Some(invoke(var("m"), "bump", vec![]))))]))]), compile_error: false });
            c.modules.insert("thrower".to_string(), ModuleSource { program: Some(vec![fn_stmt(func("fail", &[], vec![st(StmtKind::Throw(s("from thrower")))]))]), compile_error: false });
            c.opts = CmpOpts { trace: false, kind: false };
            out.push(c);
        }
    }
    out
}

/// A function that escaped from a module whose import was abandoned keeps *its* module's globals, also for the
/// closures it makes later.  The module throws one of its own functions (or a vec / an instance holding it) from
/// its top-level code; the importer catches it, calls it - the function makes a nested closure that reads and
/// counts in the module's globals - imports the module again (the code runs again and throws a second
/// generation), and uses both generations side by side: each counts in its own globals, and the failed imports
/// leave nothing behind that a later import would trip over.
pub fn escaped_functions_of_abandoned_imports() -> Vec<crate::expect::Expect> {
    use crate::expect::Expect;
    let mut out = Vec::new();
    let carriers = [("the function itself", "throw greeter;", "e"), ("a vec holding it", "throw [greeter];", "e[0]"), ("a closure over it", "var g = greeter; throw || g();", "e")];
    let nestings = [
        ("lambda", "fn greeter() { var f = || { counter += 1; return \"${greeting} ${counter}\"; }; return f(); }"),
        ("nested function", "fn greeter() { fn inner() { counter += 1; return \"${greeting} ${counter}\"; } return inner(); }"),
        ("lambda in a lambda", "fn greeter() { var f = || (|| { counter += 1; return \"${greeting} ${counter}\"; })(); return f(); }"),
        ("closure made in a fiber", "fn greeter() { return Fiber.new(|| { var f = || { counter += 1; return \"${greeting} ${counter}\"; }; return f(); }).call(); }"),
    ];
    for (cname, throw_stmt, take) in carriers {
        for (nname, greeter) in nestings {
            let module = format!("print(\"load plug\");\nvar greeting = \"hello from plug\";\nvar counter = 0;\n{}\n{}\nprint(\"not reached\");\n", greeter, throw_stmt);
            let main = format!(
                "var first = nil;\ntry {{ import \"plug\"; }} catch e {{ first = {take}; }}\nprint(first());\nprint(first());\nvar second = nil;\ntry {{ import \"plug\"; }} catch e {{ second = {take}; }}\nprint(second());\nprint(first());\nprint(second());\ntry {{ import \"plug\"; print(\"imported\"); }} catch e {{ print(type(e) == ImportError); }}\nimport \"other\";\nprint(other.ok);\n",
                take = take
            );
            let mut modules = std::collections::BTreeMap::new();
            modules.insert("plug".to_string(), module);
            modules.insert("other".to_string(), "var ok = \"other loaded\";\n".to_string());
            out.push(Expect {
                family: "escaped_functions_of_abandoned_imports",
                request: proto::Request { op: "run".into(), snippets: vec![main], modules, fuel: Some(1_000_000), ..Default::default() },
                out: vec![vec!["load plug".into(), "hello from plug 1".into(), "hello from plug 2".into(), "load plug".into(), "hello from plug 1".into(), "hello from plug 3".into(), "hello from plug 2".into(), "load plug".into(), "false".into(), "other loaded".into()]],
                end: vec!["ok".into()],
                describe: json!({"thrown": cname, "the_function_makes": nname}),
                nontrivial: true,
            });
        }
    }
    out
}

fn reimport_changes_nothing() -> Vec<Case> {
    let mut out = Vec::new();
    let shadow_body = || -> Vec<Stmt> {
        vec![
            print_stmt(s("load shadow")),
            var_stmt("clock", s("shadow's clock")),
            fn_stmt(func("type", &["x"], vec![st(StmtKind::Return(Some(s("shadow's type"))))])),
            class_stmt("Error", None, None, vec![method(FnKind::Static, "which", &[], vec![st(StmtKind::Return(Some(s("shadow's Error"))))])]),
            var_stmt("count", num(0.0)),
            fn_stmt(func(
                "report",
                &[],
                vec![
                    expr_stmt(assign("count", bin(BinOp::Add, var("count"), num(1.0)))),
                    st(StmtKind::Return(Some(Expr::VecLit(vec![var("count"), var("clock"), call(var("type"), vec![num(1.0)]), invoke(var("Error"), "which", vec![])])))),
                ],
            )),
        ]
    };
    let via_body = || -> Vec<Stmt> { vec![print_stmt(s("load via")), st(StmtKind::Import("shadow".into(), None)), fn_stmt(func("ask", &[], vec![st(StmtKind::Return(Some(invoke(var("shadow"), "report", vec![]))))]))] };
    let look = |m: &str| -> Vec<Stmt> {
        vec![
            st(StmtKind::Try(
                vec![print_stmt(invoke(var(m), "report", vec![])), print_stmt(get(var(m), "clock")), print_stmt(call(get(var(m), "type"), vec![num(2.0)])), print_stmt(get(var(m), "print")), print_stmt(get(var(m), "extra"))],
                Some(("e".into(), vec![print_stmt(Expr::Interp(vec![Part::Lit("look failed: ".into()), Part::Expr(call(var("type"), vec![var("e")]))]))])),
                None,
            )),
            // the importer's own names are the built-ins
            print_stmt(call(var("type"), vec![num(3.0)])),
            print_stmt(bin(BinOp::Eq, var("clock"), get(var(m), "clock"))),
        ]
    };
    let reimports: Vec<(&str, Vec<Stmt>)> = vec![
        ("alias", vec![st(StmtKind::Import("shadow".into(), Some("again".into()))), print_stmt(bin(BinOp::Eq, var("again"), var("shadow")))]),
        ("same_name", vec![st(StmtKind::Import("shadow".into(), None))]),
        ("in_function", vec![fn_stmt(func("later", &[], vec![st(StmtKind::Import("shadow".into(), None)), st(StmtKind::Return(Some(var("shadow"))))])), print_stmt(bin(BinOp::Eq, call(var("later"), vec![]), var("shadow")))]),
        ("in_fiber", vec![print_stmt(bin(BinOp::Eq, invoke(invoke(var("Fiber"), "new", vec![lambda_block(&[], vec![st(StmtKind::Import("shadow".into(), None)), st(StmtKind::Return(Some(var("shadow"))))])]), "call", vec![]), var("shadow")))]),
        ("in_try", vec![st(StmtKind::Try(vec![st(StmtKind::Import("shadow".into(), Some("t".into()))), print_stmt(bin(BinOp::Eq, var("t"), var("shadow")))], Some(("e".into(), vec![print_stmt(s("import failed"))])), None))]),
        ("through_another_module", vec![st(StmtKind::Import("via".into(), None)), print_stmt(invoke(var("via"), "ask", vec![]))]),
    ];
    for first in 0..reimports.len() {
        for second in 0..reimports.len() {
            let mut main = vec![st(StmtKind::Import("shadow".into(), None))];
            main.extend(look("shadow"));
            // attributes stored from outside: one under a built-in's name, one new
            main.push(expr_stmt(set(var("shadow"), "print", s("print replaced from outside"))));
            main.push(expr_stmt(set(var("shadow"), "extra", s("extra from outside"))));
            main.push(expr_stmt(set(var("shadow"), "clock", s("clock changed from outside"))));
            main.extend(look("shadow"));
            main.extend(reimports[first].1.clone());
            main.extend(look("shadow"));
            if second != first {
                main.extend(reimports[second].1.clone());
                main.extend(look("shadow"));
            }
            let mut c = Case::new("reimport_changes_nothing", main);
            c.modules.insert("shadow".to_string(), ModuleSource { program: Some(shadow_body()), compile_error: false });
            c.modules.insert("via".to_string(), ModuleSource { program: Some(via_body()), compile_error: false });
            c.opts = CmpOpts { trace: false, kind: false };
            out.push(c);
        }
    }
    out
}

/// "Within one interpreter": a module loaded by one program is still loaded, with its state, for the next
/// program fed to the same interpreter - whatever the first program ended with (normally, an uncaught
/// throw at top level, in a function, in a function of the module, in a fiber, a failing import), also with
/// a program that does not compile in between.  The expectation is written out by hand (the reference
/// evaluator runs one program at a time).
fn across_programs() -> Vec<crate::expect::Expect> {
    let mut modules = BTreeMap::new();
    modules.insert("a".to_string(), "print(\"load a\");\nvar name = \"a\";\nfn f() { return name; }\nfn set(v) { name = v; }\nfn fails() { throw \"from a\"; }\n".to_string());
    modules.insert("b".to_string(), "print(\"load b\");\nimport \"a\";\nfn ask() { return a.f(); }\n".to_string());
    let fails: Vec<(&str, &str)> = vec![
        ("", "ok"),
        ("throw \"top\";\n", "Unhandled exception: top"),
        ("fn g() { [][1]; }\ng();\n", "Unhandled IndexError"),
        ("a.fails();\n", "Unhandled exception: from a"),
        ("Fiber.new(|| { throw \"in fiber\"; }).call();\n", "Unhandled exception: in fiber"),
        ("import \"nowhere\";\n", "Unhandled ImportError"),
    ];
    let seconds: Vec<(&str, Vec<&str>)> = vec![
        ("import \"a\";\nprint(a.name);\nprint(a.f());\n", vec!["changed", "changed"]),
        ("fn later() { import \"a\"; return a.f(); }\nprint(later());\n", vec!["changed"]),
        ("import \"b\";\nprint(b.ask());\n", vec!["load b", "changed"]),
        ("import \"a\" as again;\nprint(again.name);\nagain.set(\"changed again\");\nprint(a.f());\n", vec!["changed", "changed again"]),
    ];
    let mut out = Vec::new();
    for (fail, end) in &fails {
        for with_compile_error in [false, true] {
            for (second, second_out) in &seconds {
                let mut snippets = vec![format!("import \"a\";\nprint(a.name);\na.set(\"changed\");\n{}", fail)];
                let mut outs: Vec<Vec<String>> = vec![vec!["load a".into(), "a".into()]];
                let mut ends: Vec<String> = vec![end.to_string()];
                if with_compile_error {
                    snippets.push("var = ;\n".into());
                    outs.push(vec![]);
                    ends.push("[module \"main\", line 1] Error".into());
                }
                snippets.push(second.to_string());
                outs.push(second_out.iter().map(|s| s.to_string()).collect());
                ends.push("ok".into());
                // and once more: still loaded
                snippets.push("import \"a\";\nprint(a.f() == a.name);\n".into());
                outs.push(vec!["true".into()]);
                ends.push("ok".into());
                out.push(crate::expect::Expect {
                    family: "module_stays_loaded_across_programs",
                    request: proto::Request { op: "run".into(), snippets: snippets.clone(), modules: modules.clone(), fuel: Some(1_000_000), ..Default::default() },
                    out: outs,
                    end: ends,
                    describe: json!({"programs": snippets}),
                    nontrivial: true,
                });
            }
        }
    }
    out
}

// ---- exceptions that cross module frames: the importer catches what a module body, or a function
// ---- defined in another module, threw, and then goes on using its own globals
#[derive(Clone, Copy, Debug, PartialEq)]
enum Fail {
    Throw,
    Missing,
    Uncompilable,
    Cycle,
    Deep,
    FnThrow,
    FnImport,
    FnFinally,
}
#[derive(Clone, Copy, Debug, PartialEq)]
enum Guard {
    CatchHere,
    FnInTry,
    FinallyThenCatch,
}

fn failing_module(fail: Fail, importer: &str) -> Vec<Stmt> {
    let mut b = vec![print_stmt(s("load t")), var_stmt("name", s("t name")), fn_stmt(func("f", &[], vec![st(StmtKind::Return(Some(var("name"))))]))];
    match fail {
        Fail::Throw => b.push(st(StmtKind::Throw(bin(BinOp::Add, var("name"), s(" failed"))))),
        Fail::Missing => b.push(st(StmtKind::Import("nowhere".into(), None))),
        Fail::Uncompilable => b.push(st(StmtKind::Import("bad".into(), None))),
        Fail::Cycle => b.push(st(StmtKind::Import(importer.into(), None))),
        Fail::Deep => b.push(st(StmtKind::Import("u".into(), None))),
        Fail::FnThrow => b.push(fn_stmt(func("boom", &[], vec![st(StmtKind::Throw(bin(BinOp::Add, var("name"), s(" boom"))))]))),
        Fail::FnImport => b.push(fn_stmt(func("boom", &[], vec![st(StmtKind::Import("nowhere".into(), None)), st(StmtKind::Return(Some(var("nowhere"))))]))),
        Fail::FnFinally => b.push(fn_stmt(func(
            "boom",
            &[],
            vec![st(StmtKind::Try(vec![st(StmtKind::Throw(bin(BinOp::Add, var("name"), s(" fin"))))], None, Some(vec![print_stmt(bin(BinOp::Add, s("t finally sees "), var("name")))])))],
        ))),
    }
    b.push(print_stmt(s("end of t")));
    b
}

fn crossing_case(fail: Fail, guard: Guard, importer: &'static str) -> Case {
    let calls_fn = matches!(fail, Fail::FnThrow | Fail::FnImport | Fail::FnFinally);
    let mut attempt = vec![st(StmtKind::Import("t".into(), None))];
    if calls_fn {
        attempt.push(expr_stmt(invoke(var("t"), "boom", vec![])));
    }
    attempt.push(print_stmt(s("not reached")));
    let handler = ("e".to_string(), vec![print_stmt(Expr::Interp(vec![Part::Lit(format!("{} caught ", importer)), Part::Expr(call(var("type"), vec![var("e")]))]))]);
    let mut body = vec![print_stmt(s(&format!("load {}", importer))), var_stmt("name", s(&format!("{} name", importer)))];
    match guard {
        Guard::CatchHere => body.push(st(StmtKind::Try(attempt, Some(handler), None))),
        Guard::FnInTry => {
            attempt.push(st(StmtKind::Return(Some(num(1.0)))));
            body.push(fn_stmt(func("attempt", &[], attempt)));
            body.push(st(StmtKind::Try(vec![expr_stmt(call(var("attempt"), vec![]))], Some(handler), None)));
        }
        Guard::FinallyThenCatch => {
            let fin = vec![print_stmt(bin(BinOp::Add, s("finally sees "), var("name"))), expr_stmt(assign("name", bin(BinOp::Add, var("name"), s(" (finally)"))))];
            body.push(st(StmtKind::Try(vec![st(StmtKind::Try(attempt, None, Some(fin)))], Some(handler), None)));
        }
    }
    // straight after the handler: read, define and assign globals, with no call in between
    body.push(print_stmt(var("name")));
    body.push(var_stmt("after", bin(BinOp::Add, var("name"), s(" after"))));
    body.push(fn_stmt(func("describe", &[], vec![st(StmtKind::Return(Some(bin(BinOp::Add, bin(BinOp::Add, var("name"), s("/")), var("after")))))])));
    body.push(expr_stmt(assign("name", s(&format!("{} renamed", importer)))));
    body.push(print_stmt(call(var("describe"), vec![])));
    body.push(st(StmtKind::Try(vec![print_stmt(var("f"))], Some(("e".into(), vec![print_stmt(call(var("type"), vec![var("e")]))])), None)));
    if calls_fn && guard != Guard::FnInTry {
        // t loaded and is bound here: nothing of ours landed in it
        body.push(print_stmt(get(var("t"), "name")));
        body.push(st(StmtKind::Try(vec![print_stmt(get(var("t"), "after"))], Some(("e".into(), vec![print_stmt(call(var("type"), vec![var("e")]))])), None)));
        body.push(print_stmt(invoke(var("t"), "f", vec![])));
    }
    body.push(st(StmtKind::Import("ok".into(), None)));
    body.push(print_stmt(get(var("ok"), "name")));
    body.push(print_stmt(var("name")));
    let mut modules = BTreeMap::new();
    modules.insert("t".to_string(), ModuleSource { program: Some(failing_module(fail, importer)), compile_error: false });
    modules.insert("u".to_string(), ModuleSource { program: Some(vec![print_stmt(s("load u")), var_stmt("name", s("u name")), st(StmtKind::Throw(s("u failed")))]), compile_error: false });
    modules.insert("bad".to_string(), ModuleSource { program: None, compile_error: true });
    modules.insert("ok".to_string(), ModuleSource { program: Some(module_body("ok", &[])), compile_error: false });
    let main = if importer == "main" {
        body
    } else {
        modules.insert(importer.to_string(), ModuleSource { program: Some(body), compile_error: false });
        vec![
            var_stmt("name", s("main name")),
            st(StmtKind::Import(importer.into(), None)),
            print_stmt(get(var(importer), "name")),
            print_stmt(get(var(importer), "after")),
            print_stmt(invoke(var(importer), "describe", vec![])),
            print_stmt(var("name")),
            st(StmtKind::Try(vec![print_stmt(var("after"))], Some(("e".into(), vec![print_stmt(call(var("type"), vec![var("e")]))])), None)),
        ]
    };
    let mut c = Case::new("exception_crosses_module_frames", main);
    c.modules = modules;
    c
}

/// control comes back into a module from a fiber whose code lives in another module (the fiber runs to
/// its end: M-eval has no yield); straight afterwards the caller uses its own globals
fn fibers_from_other_modules() -> Vec<Case> {
    let mut out = Vec::new();
    for importer in ["main", "a"] {
        for variant in 0..3 {
            let t_body = vec![
                print_stmt(s("load t")),
                var_stmt("name", s("t name")),
                fn_stmt(func("make", &["v"], vec![st(StmtKind::Return(Some(invoke(var("Fiber"), "new", vec![lambda_block(&[], vec![expr_stmt(assign("name", bin(BinOp::Add, var("name"), s("+")))), st(StmtKind::Return(Some(bin(BinOp::Add, var("name"), var("v")))))])]))))])),
                var_stmt("ready", invoke(var("Fiber"), "new", vec![lambda_expr(&[], bin(BinOp::Add, var("name"), s(" from ready")))])),
            ];
            let fiber_expr = match variant {
                0 => invoke(var("t"), "make", vec![s(" made")]),
                1 => get(var("t"), "ready"),
                _ => invoke(var("Fiber"), "new", vec![get(var("t"), "f_plain")]),
            };
            let mut t_body = t_body;
            t_body.push(fn_stmt(func("f_plain", &[], vec![st(StmtKind::Return(Some(bin(BinOp::Add, var("name"), s(" plain")))))])));
            let body = vec![
                print_stmt(s(&format!("load {}", importer))),
                var_stmt("name", s(&format!("{} name", importer))),
                st(StmtKind::Import("t".into(), None)),
                var_stmt("fib", fiber_expr),
                // the result of call() combined with an own global, with no call in between
                var_stmt("got", bin(BinOp::Add, invoke(var("fib"), "call", vec![]), bin(BinOp::Add, s(" / "), var("name")))),
                print_stmt(var("got")),
                var_stmt("after", bin(BinOp::Add, var("name"), s(" after"))),
                fn_stmt(func("describe", &[], vec![st(StmtKind::Return(Some(bin(BinOp::Add, bin(BinOp::Add, var("name"), s("/")), var("after")))))])),
                expr_stmt(assign("name", s(&format!("{} renamed", importer)))),
                print_stmt(call(var("describe"), vec![])),
                print_stmt(get(var("t"), "name")),
                st(StmtKind::Try(vec![print_stmt(get(var("t"), "after"))], Some(("e".into(), vec![print_stmt(call(var("type"), vec![var("e")]))])), None)),
                print_stmt(invoke(var("fib"), "has_finished", vec![])),
            ];
            let mut modules = BTreeMap::new();
            modules.insert("t".to_string(), ModuleSource { program: Some(t_body), compile_error: false });
            let main = if importer == "main" {
                body
            } else {
                modules.insert(importer.to_string(), ModuleSource { program: Some(body), compile_error: false });
                vec![
                    var_stmt("name", s("main name")),
                    st(StmtKind::Import(importer.into(), None)),
                    print_stmt(get(var(importer), "name")),
                    print_stmt(get(var(importer), "after")),
                    print_stmt(invoke(var(importer), "describe", vec![])),
                    print_stmt(var("name")),
                ]
            };
            let mut c = Case::new("fiber_from_another_module", main);
            c.modules = modules;
            out.push(c);
        }
    }
    out
}

fn crossings() -> Vec<Case> {
    let mut out = Vec::new();
    for fail in [Fail::Throw, Fail::Missing, Fail::Uncompilable, Fail::Cycle, Fail::Deep, Fail::FnThrow, Fail::FnImport, Fail::FnFinally] {
        for guard in [Guard::CatchHere, Guard::FnInTry, Guard::FinallyThenCatch] {
            for importer in ["main", "a"] {
                if fail == Fail::Cycle && importer == "main" {
                    continue;
                }
                out.push(crossing_case(fail, guard, importer));
            }
        }
    }
    out
}

pub fn cases_for_c01(thorough: bool) -> Vec<Case> {
    let graphs = (0..(1usize << 12)).filter(|b| (b >> 9) != 0 && (thorough || b % 16 == 5)).map(graph_case);
    placements().into_iter().chain(reimport_changes_nothing()).chain(modules_that_handle_their_own_exceptions()).chain(crossings()).chain(fibers_from_other_modules()).chain(graphs).collect()
}

pub fn run(ctx: &Ctx) -> Report {
    let mut report = Report::new();
    let active = active_findings(ctx, &mut report);
    let thorough = ctx.thorough();
    // quick: every graph whose module-to-module part is arbitrary and main imports a non-empty subset
    let total = 1usize << 12;
    let graphs = (0..total).map(graph_case);
    // the deferred form needs main to import something: 3584 graphs
    let lazy = (0..total).filter(move |b| (b >> 9) != 0).map(lazy_graph_case);
    let cases = placements().into_iter().chain(imports_that_do_not_complete()).chain(odd_spellings()).chain(lazy.collect::<Vec<_>>()).into_iter().chain(reimport_changes_nothing()).chain(modules_that_handle_their_own_exceptions()).chain(crossings()).chain(fibers_from_other_modules()).chain(graphs);
    let hooks = Hooks {
        attribute: &|_c, _m, _o, _mm| None,
        nontrivial: &|c, m| c.modules.len() >= 2 && m.out.iter().filter(|l| l.starts_with("load ")).count() >= 2 || m.out.iter().any(|l| l.contains("failed")) || matches!(m.outcome, Outcome::Uncaught(_)),
        fuel: 2_000_000,
    };
    let stats = mcheck::run(ctx, cases, &hooks);
    mcheck::fill_report(
        &mut report,
        &stats,
        "every import graph over {main, a, b, c}: each of the 6 module-to-module edges, 3 self-loops and 3 edges from main independently present or absent (4096 graphs); every import inside a module sits in its own try/catch and is followed by a use; every module prints when its body runs, defines the same global names, and reads every one of the 30 built-in names; main reads, writes and calls through each module object, imports it again under an alias and compares identity, and probes that nothing leaked. The same graphs with every module-to-module import deferred into a function `late` of the importing module, which main calls three times after loading (the 3584 graphs in which main imports something): no import meets a module still loading, every body runs once, cycles and self-imports bind the one module object, renamings by main are seen through every import. Plus placements: import inside a function called 0/1/2 times, missing and uncompilable modules (caught, uncaught, aliased), a path with a directory, two modules of the same file name in different directories (one a global of main, the other imported without an alias inside a function / block / loop body / lambda), a three-module cycle; six spellings of a path that are not in a cleaned-up form (leading `./`, doubled separators, `.` components, served by the module table under both forms): the same spelling imported again at top level, in a function and from another module is the one module, loaded once, and a cycle written with such spellings is an ImportError; imports that do not complete: an import with 59..66 calls active (the module body would be the 65th: IndexError to the importing statement, the importer's globals - also one named like a built-in - untouched, the module importable afterwards) and a module whose body throws while a condition holds (every attempt runs the body again, the first attempt after the condition is gone loads it, once; directly, from a fiber, through a wrapper module). Plus 48 sequences of three or four programs on one interpreter (a module loaded by the first program - which ends normally or with one of five uncaught errors, optionally followed by a program that does not compile - is still loaded, with its state, for the next programs, imported at top level, in a function, through another module, under an alias). Plus `reimport_changes_nothing`: a module that defines globals under names built-ins also have and receives attributes from outside, imported again in every ordered pair of six ways (alias, same name, in a function, in a fiber, in try, through another module) with the module's and the importer's view printed after each. Plus exceptions that cross module frames: a module body that throws / imports a missing, an uncompilable, its importing (cycle) or a throwing module without a handler, or a function of another module that throws / fails an import / throws through its own finally; caught in the importer (main or a module) directly, through a function, or after a finally block that itself uses globals; straight after the handler the importer reads, defines and assigns its own globals and the check confirms where they landed. Plus fibers whose code lives in another module (made by a function of that module, stored in it, or built here from its function), run to their end from main or from a module that then uses its own globals at once. non-trivial = at least two module bodies ran, or an import failed.",
        json!({"modules": 4, "graphs": total}),
    );
    // programs as modules
    {
        let hooks2 = Hooks { attribute: &|_c, _m, _o, _mm| None, nontrivial: &|_c, m| m.out.len() >= 2, fuel: 2_000_000 };
        let corpus = crate::metamorph::standard_corpus(if thorough { 1 } else { 4 });
        let cases2 = crate::metamorph::as_module_cases("program_as_the_body_of_a_module", &corpus);
        let n2 = cases2.len();
        let st2 = mcheck::run(ctx, cases2.into_iter(), &hooks2);
        report.cov(
            "programs_as_modules",
            json!({
                "rule": "metamorphic (the module law): every program of the standard corpus (C05/C06/C07/C08/C18 generators) is made the top-level code of a module that an otherwise empty main program imports; printed lines and outcome must be what M-eval gives for the program run as the main program (globals are the module's, built-ins are there, closures, classes, fibers, handlers and loop exits work in a frame that is not the script's)",
                "cases": n2, "executions": st2.executions, "distinct": st2.distinct.len(), "skipped_outside_model": st2.unsupported,
            }),
        );
        report.violations.extend(st2.violations);
    }
    // several programs on one interpreter
    let across = across_programs();
    let n_across = across.len();
    let xs = crate::expect::run_expect(ctx, &ctx.runner_checked, across.into_iter(), &|_e, _r| None, &|_e, _p| None);
    report.cov("programs_sequences_on_one_interpreter", json!(n_across));
    report.violations.extend(xs.violations);
    {
        let esc = escaped_functions_of_abandoned_imports();
        let n_esc = esc.len();
        let es = crate::expect::run_expect(ctx, &ctx.runner_checked, esc.into_iter(), &|_e, _r| None, &|_e, _p| None);
        report.cov("escaped_functions_of_abandoned_imports", json!(n_esc));
        report.violations.extend(es.violations);
    }
    // a program compiled once for a module of the embedding's choosing and executed again and again
    {
        let kept = crate::c15::kept_program_histories();
        let n_kept = kept.len();
        let ks = crate::expect::run_expect(ctx, &ctx.runner_checked, kept.into_iter(), &|_e, _r| None, &|_e, _p| None);
        report.cov("kept_program_runs_in_its_module", json!(n_kept));
        report.violations.extend(ks.violations);
    }
    report.assumptions = vec!["a module whose top-level code did not run to its end is not loaded: a later import of the same path runs the code again (DESIGN 11.3, KF-C14-F3)".into()];
    record_known(&mut report, &active, &stats.attributed);
    report.violations.extend(stats.violations);
    report
}
