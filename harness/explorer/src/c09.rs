//! C09 — fibers transfer control and values faithfully and keep their own state.
//! Explicit-state BFS over the coroutine model M-fiber: scripted fibers x sequences of main-program
//! actions; every transition found is replayed on the real VM as a program whose main part is the
//! action path from the initial state.
use crate::common::*;
use crate::expect::{self, Expect};
use proto::Request;
use serde_json::json;
use std::collections::{HashSet, VecDeque};

#[derive(Clone, Copy, Debug, PartialEq, Eq, Hash)]
pub enum Act {
    P,
    Y,
    Y0,
    XY,
    C(usize, bool),
    R,
    T,
    HF(usize),
}

#[derive(Clone, Copy, Debug, PartialEq, Eq, Hash)]
pub enum Wrap {
    None,
    Frame,
    Try,
    Local,
    Cap,
    /// try { body } finally { print }
    TryFinally,
    /// try { throw } finally { body }: the body runs while an exception is in flight
    InFinally,
    /// var l = ..; try { body } catch e { .. } print(l): a local declared just before the try statement
    /// must survive whatever error the body's calls report
    LocalTry,
}

#[derive(Clone, Debug, PartialEq, Eq, Hash)]
pub struct Script {
    pub param: bool,
    pub wrap: Wrap,
    pub acts: Vec<Act>,
}

#[derive(Clone, Copy, Debug, PartialEq, Eq, Hash)]
pub enum Main {
    Call(usize),
    CallArg(usize),
    Call2(usize),
    Hf(usize),
    Yield,
}

// ---- model instructions -----------------------------------------------------------------------------

#[derive(Clone, Debug)]
enum Ins {
    PrintParam,
    Print(String),
    Yield(Option<String>, bool), // value, print the resume value?
    CallF(usize, Option<String>),
    /// the same call as an expression statement: the result is dropped
    CallFQuiet(usize, Option<String>),
    Ret(String),
    RetNil,
    Throw(String),
    HasFin(usize),
    EnterFrame(usize), // jump target of the inner function; return address = next
    PrintInnerRet,
    EnterTry(usize), // catch pc
    LeaveTry(usize), // jump over the catch
    CatchPrint,
    CapInc,
    EnterFinally(usize),
    /// normal end of a try body whose statement has a finally block: the handler is popped, the block follows
    LeaveToFinally,
    EndFinally,
}

fn compile(f: usize, s: &Script) -> Vec<Ins> {
    let mut body: Vec<Ins> = Vec::new();
    for (i, a) in s.acts.iter().enumerate() {
        let tag = |p: &str| format!("{}{}{}", p, f, i);
        body.push(match a {
            Act::P => Ins::Print(tag("p")),
            Act::Y => Ins::Yield(Some(tag("y")), false),
            Act::Y0 => Ins::Yield(None, false),
            Act::XY => Ins::Yield(Some(tag("x")), true),
            // under the LocalTry wrapper a call with an argument is an expression statement: the failing
            // call then starts at the stack height of the enclosing handler
            Act::C(j, true) if s.wrap == Wrap::LocalTry => Ins::CallFQuiet(*j, Some(tag("a"))),
            Act::C(j, arg) => Ins::CallF(*j, if *arg { Some(tag("a")) } else { None }),
            Act::R => Ins::Ret(tag("r")),
            Act::T => Ins::Throw(tag("t")),
            Act::HF(j) => Ins::HasFin(*j),
        });
    }
    let mut code: Vec<Ins> = Vec::new();
    if s.param {
        code.push(Ins::PrintParam);
    }
    match s.wrap {
        Wrap::None => {
            code.extend(body);
            code.push(Ins::RetNil);
        }
        Wrap::Frame => {
            // [EnterFrame(t)] [PrintInnerRet] [RetNil] t: body.. RetNil
            let t = code.len() + 3;
            code.push(Ins::EnterFrame(t));
            code.push(Ins::PrintInnerRet);
            code.push(Ins::RetNil);
            code.extend(body);
            code.push(Ins::RetNil);
        }
        Wrap::Try => {
            // [EnterTry(c)] body [LeaveTry(end)] c: [CatchPrint] end: [RetNil]
            let c = code.len() + 1 + body.len() + 1;
            code.push(Ins::EnterTry(c));
            code.extend(body);
            code.push(Ins::LeaveTry(c + 1));
            code.push(Ins::CatchPrint);
            code.push(Ins::RetNil);
        }
        Wrap::Local => {
            code.extend(body);
            code.push(Ins::Print(format!("L{}", f)));
            code.push(Ins::RetNil);
        }
        Wrap::LocalTry => {
            // [EnterTry(c)] body [LeaveTry(end)] c: [CatchPrint] end: [Print L] [RetNil]
            let c = code.len() + 1 + body.len() + 1;
            code.push(Ins::EnterTry(c));
            code.extend(body);
            code.push(Ins::LeaveTry(c + 1));
            code.push(Ins::CatchPrint);
            code.push(Ins::Print(format!("L{}", f)));
            code.push(Ins::RetNil);
        }
        Wrap::Cap => {
            code.push(Ins::CapInc);
            code.extend(body);
            code.push(Ins::CapInc);
            code.push(Ins::RetNil);
        }
        Wrap::TryFinally => {
            // [EnterFinally(f)] body [LeaveToFinally] f: [Print fin] [EndFinally] [RetNil]
            let fpc = code.len() + 1 + body.len() + 1;
            code.push(Ins::EnterFinally(fpc));
            code.extend(body);
            code.push(Ins::LeaveToFinally);
            code.push(Ins::Print(format!("fin{}", f)));
            code.push(Ins::EndFinally);
            code.push(Ins::RetNil);
        }
        Wrap::InFinally => {
            // [EnterFinally(f)] [Throw] f: body [EndFinally] [RetNil]
            let fpc = code.len() + 2;
            code.push(Ins::EnterFinally(fpc));
            code.push(Ins::Throw(format!("tf{}", f)));
            code.extend(body);
            code.push(Ins::EndFinally);
            code.push(Ins::RetNil);
        }
    }
    code
}

#[derive(Clone, Debug, PartialEq, Eq, Hash)]
enum Status {
    New,
    Suspended,
    Running,
    Finished,
}

#[derive(Clone, Debug, PartialEq, Eq, Hash)]
struct FiberSt {
    status: Status,
    pc: usize,
    calls: Vec<usize>,
    handlers: Vec<(usize, usize, bool)>,
    print_resume: bool,
    cap: u32,
    inner_ret: Option<String>,
    exc: Option<String>,
    pending_exc: Option<(String, String)>,
    pending_ret: Option<String>,
}

#[derive(Clone, Debug, PartialEq, Eq, Hash)]
struct World {
    fibers: Vec<FiberSt>,
    aborted: Option<String>,
}

enum Exc {
    /// a value thrown by the program: (text, class shown by type())
    Thrown(String, String),
    /// the whole run ends: first line of the report
    Abort(String),
}

struct Model<'a> {
    code: &'a [Vec<Ins>],
    params: Vec<bool>,
    out: Vec<String>,
}

fn err(class: &str, msg: &str) -> Exc {
    Exc::Thrown(format!("\u{1}{}: {}", class, msg), format!("<class {}>", class))
}

impl<'a> Model<'a> {
    /// `F_j.call(args)` evaluated by `caller` (None = the main program)
    fn call_fiber(&mut self, w: &mut World, j: usize, nargs: usize, arg: Option<String>) -> Result<String, Exc> {
        let arity = if self.params[j] { 1 } else { 0 };
        if w.fibers[j].status == Status::New {
            if nargs != arity {
                return Err(err("TypeError", &format!("Expected {} parameter{} but found {}.", arity, if arity == 1 { "" } else { "s" }, nargs)));
            }
        } else if nargs > 1 {
            return Err(err("TypeError", &format!("Expected at most 1 parameter but found {}.", nargs)));
        }
        match w.fibers[j].status {
            Status::Finished => return Err(err("RuntimeError", "Cannot call a finished fiber.")),
            Status::Running => return Err(err("RuntimeError", "Cannot call a fiber that has already been called.")),
            _ => {}
        }
        let resume = if nargs == 1 { arg } else { None };
        self.run(w, j, resume)
    }

    /// run fiber j until it yields, returns, or the run aborts; the result is what `call` evaluates to
    fn run(&mut self, w: &mut World, j: usize, resume: Option<String>) -> Result<String, Exc> {
        let was_new = w.fibers[j].status == Status::New;
        w.fibers[j].status = Status::Running;
        let mut pending_value = resume.clone();
        if !was_new && w.fibers[j].print_resume {
            self.out.push(resume.unwrap_or_else(|| "nil".into()));
            w.fibers[j].print_resume = false;
        }
        let code = self.code[j].clone();
        loop {
            let pc = w.fibers[j].pc;
            let ins = code[pc].clone();
            w.fibers[j].pc = pc + 1;
            let step: Result<(), Exc> = match ins {
                Ins::PrintParam => {
                    self.out.push(format!("param {}", pending_value.take().unwrap_or_else(|| "nil".into())));
                    Ok(())
                }
                Ins::Print(t) => {
                    self.out.push(t);
                    Ok(())
                }
                Ins::Yield(v, print_resume) => {
                    w.fibers[j].status = Status::Suspended;
                    w.fibers[j].print_resume = print_resume;
                    return Ok(v.unwrap_or_else(|| "nil".into()));
                }
                Ins::CallF(k, arg) => {
                    let n = if arg.is_some() { 1 } else { 0 };
                    match self.call_fiber(w, k, n, arg) {
                        Ok(v) => {
                            self.out.push(v);
                            Ok(())
                        }
                        Err(e) => Err(e),
                    }
                }
                Ins::CallFQuiet(k, arg) => {
                    let n = if arg.is_some() { 1 } else { 0 };
                    self.call_fiber(w, k, n, arg).map(|_| ())
                }
                Ins::HasFin(k) => {
                    self.out.push(if w.fibers[k].status == Status::Finished { "true".into() } else { "false".into() });
                    Ok(())
                }
                Ins::Ret(v) if matches!(w.fibers[j].handlers.last(), Some((_, d, true)) if *d == w.fibers[j].calls.len()) => {
                    // return out of a try body whose statement has a finally block: the block runs first
                    let (fpc, _, _) = w.fibers[j].handlers.pop().unwrap();
                    w.fibers[j].pending_ret = Some(v);
                    w.fibers[j].pc = fpc;
                    Ok(())
                }
                Ins::Ret(v) => {
                    if let Some(ret) = w.fibers[j].calls.pop() {
                        w.fibers[j].inner_ret = Some(v);
                        w.fibers[j].pc = ret;
                        Ok(())
                    } else {
                        w.fibers[j].status = Status::Finished;
                        return Ok(v);
                    }
                }
                Ins::RetNil => {
                    if let Some(ret) = w.fibers[j].calls.pop() {
                        w.fibers[j].inner_ret = Some("nil".into());
                        w.fibers[j].pc = ret;
                        Ok(())
                    } else {
                        w.fibers[j].status = Status::Finished;
                        return Ok("nil".into());
                    }
                }
                Ins::Throw(t) => Err(Exc::Thrown(t, "<class String>".into())),
                Ins::EnterFrame(t) => {
                    w.fibers[j].calls.push(pc + 1);
                    w.fibers[j].pc = t;
                    Ok(())
                }
                Ins::PrintInnerRet => {
                    let v = w.fibers[j].inner_ret.take().unwrap_or_else(|| "nil".into());
                    self.out.push(format!("inner returned {}", v));
                    Ok(())
                }
                Ins::EnterTry(c) => {
                    let depth = w.fibers[j].calls.len();
                    w.fibers[j].handlers.push((c, depth, false));
                    Ok(())
                }
                Ins::EnterFinally(fpc) => {
                    let depth = w.fibers[j].calls.len();
                    w.fibers[j].handlers.push((fpc, depth, true));
                    Ok(())
                }
                Ins::LeaveToFinally => {
                    w.fibers[j].handlers.pop();
                    Ok(())
                }
                Ins::EndFinally => {
                    if let Some((text, class)) = w.fibers[j].pending_exc.take() {
                        Err(Exc::Thrown(text, class))
                    } else if let Some(v) = w.fibers[j].pending_ret.take() {
                        if let Some(ret) = w.fibers[j].calls.pop() {
                            w.fibers[j].inner_ret = Some(v);
                            w.fibers[j].pc = ret;
                            Ok(())
                        } else {
                            w.fibers[j].status = Status::Finished;
                            return Ok(v);
                        }
                    } else {
                        Ok(())
                    }
                }
                Ins::LeaveTry(end) => {
                    w.fibers[j].handlers.pop();
                    w.fibers[j].pc = end;
                    Ok(())
                }
                Ins::CatchPrint => {
                    self.out.push("caught".into());
                    self.out.push(w.fibers[j].exc.take().unwrap_or_default());
                    Ok(())
                }
                Ins::CapInc => {
                    w.fibers[j].cap += 1;
                    self.out.push(format!("{}", w.fibers[j].cap));
                    Ok(())
                }
            };
            match step {
                Ok(()) => {}
                Err(Exc::Abort(m)) => return Err(Exc::Abort(m)),
                Err(Exc::Thrown(text, class)) => {
                    if let Some((c, depth, is_finally)) = w.fibers[j].handlers.pop() {
                        w.fibers[j].calls.truncate(depth);
                        if is_finally {
                            w.fibers[j].pending_exc = Some((text, class));
                        } else {
                            w.fibers[j].exc = Some(class);
                        }
                        w.fibers[j].pc = c;
                    } else {
                        // nobody in this fiber catches it: exceptions do not cross fiber boundaries
                        let first = if let Some(rest) = text.strip_prefix('\u{1}') { format!("Unhandled {}", rest) } else { format!("Unhandled exception: {}", text) };
                        return Err(Exc::Abort(first));
                    }
                }
            }
        }
    }

    fn main_action(&mut self, w: &mut World, a: Main) {
        let r: Result<String, Exc> = match a {
            Main::Call(j) => self.call_fiber(w, j, 0, None),
            Main::CallArg(j) => self.call_fiber(w, j, 1, Some("m".into())),
            Main::Call2(j) => self.call_fiber(w, j, 2, Some("m".into())),
            Main::Hf(j) => Ok(if w.fibers[j].status == Status::Finished { "true".into() } else { "false".into() }),
            Main::Yield => Err(err("RuntimeError", "Cannot yield from module-level code.")),
        };
        match r {
            Ok(v) => self.out.push(v),
            Err(Exc::Thrown(_, class)) => self.out.push(class),
            Err(Exc::Abort(m)) => w.aborted = Some(m),
        }
    }
}

// ---- rendering ---------------------------------------------------------------------------------------

fn render_fiber(f: usize, s: &Script) -> String {
    let mut body = String::new();
    for (i, a) in s.acts.iter().enumerate() {
        let tag = |p: &str| format!("{}{}{}", p, f, i);
        body.push_str(&match a {
            Act::P => format!("    print(\"{}\");\n", tag("p")),
            Act::Y => format!("    Fiber.yield(\"{}\");\n", tag("y")),
            Act::Y0 => "    Fiber.yield();\n".to_string(),
            Act::XY => format!("    var x{i} = Fiber.yield(\"{t}\");\n    print(x{i});\n", i = i, t = tag("x")),
            Act::C(j, true) if s.wrap == Wrap::LocalTry => format!("    F{}.call(\"{}\");\n", j, tag("a")),
            Act::C(j, true) => format!("    print(F{}.call(\"{}\"));\n", j, tag("a")),
            Act::C(j, false) => format!("    print(F{}.call());\n", j),
            Act::R => format!("    return \"{}\";\n", tag("r")),
            Act::T => format!("    throw \"{}\";\n", tag("t")),
            Act::HF(j) => format!("    print(F{}.has_finished());\n", j),
        });
    }
    let inner = match s.wrap {
        Wrap::None => body,
        Wrap::Frame => format!("    fn inner() {{\n{}    }}\n    var r = inner();\n    print(\"inner returned ${{r}}\");\n", body),
        Wrap::Try => format!("    try {{\n{}    }} catch e {{\n    print(\"caught\");\n    print(type(e));\n    }}\n", body),
        Wrap::Local => format!("    var l = \"L{}\";\n{}    print(l);\n", f, body),
        Wrap::LocalTry => format!("    var l = \"L{}\";\n    try {{\n{}    }} catch e {{\n    print(\"caught\");\n    print(type(e));\n    }}\n    print(l);\n", f, body),
        Wrap::Cap => format!("    var c = 0;\n    var inc = || {{ c = c + 1; return c; }};\n    print(inc());\n{}    print(inc());\n", body),
        Wrap::TryFinally => format!("    try {{\n{}    }} finally {{\n    print(\"fin{}\");\n    }}\n", body, f),
        Wrap::InFinally => format!("    try {{\n    throw \"tf{}\";\n    }} finally {{\n{}    }}\n", f, body),
    };
    if s.param {
        format!("var F{} = Fiber.new(|p| {{\n    print(\"param ${{p}}\");\n{}}});\n", f, inner)
    } else {
        format!("var F{} = Fiber.new(|| {{\n{}}});\n", f, inner)
    }
}

fn render_main(a: Main) -> String {
    let e = match a {
        Main::Call(j) => format!("print(F{}.call());", j),
        Main::CallArg(j) => format!("print(F{}.call(\"m\"));", j),
        Main::Call2(j) => format!("print(F{}.call(\"m\", \"n\"));", j),
        Main::Hf(j) => format!("print(F{}.has_finished());", j),
        Main::Yield => "print(Fiber.yield(1));".to_string(),
    };
    format!("try {{ {} }} catch e {{ print(type(e)); }}\n", e)
}

// ---- enumeration --------------------------------------------------------------------------------------

fn bodies(max_len: usize, f: usize, nf: usize) -> Vec<Vec<Act>> {
    let other: Vec<usize> = (0..nf).filter(|k| *k != f).collect();
    let mut leaves = vec![Act::P, Act::Y, Act::Y0, Act::XY, Act::R, Act::T];
    for o in &other {
        leaves.push(Act::C(*o, false));
        leaves.push(Act::C(*o, true));
    }
    leaves.push(Act::C(f, false)); // a fiber calling itself
    leaves.push(Act::HF(f));
    let mut all: Vec<Vec<Act>> = vec![vec![]];
    let mut frontier: Vec<Vec<Act>> = vec![vec![]];
    for _ in 0..max_len {
        let mut next = Vec::new();
        for b in &frontier {
            // nothing follows a return or throw
            if matches!(b.last(), Some(Act::R) | Some(Act::T)) {
                continue;
            }
            for l in &leaves {
                let mut v = b.clone();
                v.push(*l);
                next.push(v);
            }
        }
        all.extend(next.iter().cloned());
        frontier = next;
    }
    all
}

fn representative_scripts(f: usize, nf: usize) -> Vec<Script> {
    let o = (f + 1) % nf;
    let mk = |param: bool, wrap: Wrap, acts: Vec<Act>| Script { param, wrap, acts };
    vec![
        mk(false, Wrap::None, vec![]),
        mk(false, Wrap::None, vec![Act::R]),
        mk(false, Wrap::None, vec![Act::Y, Act::R]),
        mk(true, Wrap::None, vec![Act::XY]),
        mk(false, Wrap::None, vec![Act::C(o, false)]),
        mk(false, Wrap::None, vec![Act::T]),
        mk(false, Wrap::Try, vec![Act::Y, Act::Y]),
        mk(false, Wrap::Frame, vec![Act::XY, Act::C(o, true)]),
        mk(false, Wrap::TryFinally, vec![Act::Y]),
        mk(false, Wrap::InFinally, vec![Act::Y]),
    ]
}

/// Fibers abandoned while suspended keep their captured variables for as long as a closure over them
/// lives.  A maker function runs a fiber up to its first yield; the fiber hands out closures over its own
/// locals (declared in its body, in a function it called, or in a fiber it called) and is then dropped:
/// nothing refers to it any more.  Up to three such counters are made and used in every order of a
/// bounded length; each keeps its own variable however many other fibers come and go in between.
fn abandoned_fibers_keep_captured_variables() -> Vec<Expect> {
    use crate::ast::*;
    let mut out = Vec::new();
    let counter_body = |depth: usize| -> Vec<Stmt> {
        // the closure and its variable, `depth` function frames below the fiber's body
        let core = vec![
            var_stmt("count", var("start")),
            var_stmt("step", lambda_block(&[], vec![expr_stmt(assign("count", bin(BinOp::Add, var("count"), num(1.0)))), st(StmtKind::Return(Some(var("count"))))])),
            var_stmt("peek", lambda_expr(&[], Expr::VecLit(vec![s("count is"), var("count")]))),
            expr_stmt(invoke(var("Fiber"), "yield", vec![Expr::VecLit(vec![var("step"), var("peek")])])),
            print_stmt(s("never resumed")),
        ];
        match depth {
            0 => core,
            1 => vec![fn_stmt(func("inner", &[], core)), expr_stmt(call(var("inner"), vec![]))],
            _ => vec![var_stmt("nested", invoke(var("Fiber"), "new", vec![lambda_block(&[], core)])), st(StmtKind::Return(Some(invoke(var("nested"), "call", vec![]))))],
        }
    };
    for depth in 0..3 {
        let maker = fn_stmt(func(
            "make_counter",
            &["start"],
            vec![var_stmt("f", invoke(var("Fiber"), "new", vec![lambda_block(&[], counter_body(depth))])), st(StmtKind::Return(Some(invoke(var("f"), "call", vec![]))))],
        ));
        // every sequence of 4 actions over {make next counter, step counter 0/1/2, peek all, churn}
        let actions = 6usize;
        let len = 4usize;
        for code in 0..actions.pow(len as u32) {
            let mut seq = Vec::new();
            let mut c = code;
            for _ in 0..len {
                seq.push(c % actions);
                c /= actions;
            }
            // the first action always makes a counter
            if seq[0] != 0 {
                continue;
            }
            let mut prog = vec![maker.clone(), var_stmt("cs", Expr::VecLit(vec![]))];
            let mut made = 0usize;
            let mut ok = true;
            // the expectation: each counter is a number of its own
            let mut counts: Vec<i64> = Vec::new();
            let mut lines: Vec<String> = Vec::new();
            for a in &seq {
                match a {
                    0 => {
                        if made == 3 {
                            ok = false;
                            break;
                        }
                        prog.push(expr_stmt(invoke(var("cs"), "push", vec![call(var("make_counter"), vec![num((made as f64 + 1.0) * 10.0)])])));
                        counts.push((made as i64 + 1) * 10);
                        made += 1;
                    }
                    1 | 2 | 3 => {
                        let k = a - 1;
                        if k >= made {
                            ok = false;
                            break;
                        }
                        prog.push(print_stmt(call(index(index(var("cs"), num(k as f64)), num(0.0)), vec![])));
                        counts[k] += 1;
                        lines.push(format!("{}", counts[k]));
                    }
                    4 => {
                        prog.push(st(StmtKind::For("c".into(), var("cs"), vec![print_stmt(call(index(var("c"), num(1.0)), vec![]))])));
                        for c in &counts {
                            lines.push(format!("[count is, {}]", c));
                        }
                    }
                    _ => prog.push(st(StmtKind::For("k".into(), bin(BinOp::Range, num(0.0), num(3.0)), vec![var_stmt("other", invoke(var("Fiber"), "new", vec![lambda_block(&[], vec![var_stmt("mine", Expr::VecLit(vec![var("k")])), expr_stmt(invoke(var("Fiber"), "yield", vec![var("mine")]))])])), expr_stmt(invoke(var("other"), "call", vec![]))]))),
                }
            }
            if !ok {
                continue;
            }
            prog.push(st(StmtKind::For("c".into(), var("cs"), vec![print_stmt(call(index(var("c"), num(0.0)), vec![])), print_stmt(call(index(var("c"), num(1.0)), vec![]))])));
            for c in counts.iter_mut() {
                *c += 1;
                lines.push(format!("{}", c));
                lines.push(format!("[count is, {}]", c));
            }
            let src = print_program(&prog, false);
            out.push(Expect {
                family: "abandoned_fibers_keep_captured_variables",
                request: Request { op: "run".into(), snippets: vec![src], fuel: Some(2_000_000), gc: Some(proto::GcSpec { mode: "default".into(), only: vec![], quarantine: true }), want: vec!["uaf".into()], ..Default::default() },
                out: vec![lines],
                end: vec!["ok".into()],
                describe: json!({"depth": depth, "actions": seq}),
                nontrivial: true,
            });
        }
    }
    out
}


/// Every kind of value as the argument of a fiber's first call and of a resume: the parameter (first call)
/// and the pending yield expression (resume) receive exactly that value - nil, false and other "empty"
/// values included - and the fiber's own locals, declared before and after, are where the source says.
pub fn argument_values() -> Vec<Expect> {
    let vals: [(&str, &str); 10] = [("nil", "nil"), ("false", "false"), ("true", "true"), ("0", "0"), ("\"\"", ""), ("[]", "[]"), ("(1,)", "(1,)"), ("7", "7"), ("\"s\"", "s"), ("[nil]", "[nil]")];
    let mut out = Vec::new();
    for (first, first_p) in vals {
        for (second, second_p) in vals {
            for in_frame in [false, true] {
                let body = "var a = \"local a\"; print([x, a]); var b = \"local b\"; var y = Fiber.yield(x); var c = \"local c\"; print([x, y, a, b, c]); return [x, y];";
                let def = if in_frame {
                    format!("fn body(x) {{ {} }}\nvar f = Fiber.new(|x| {{ var outer = \"outer local\"; var r = body(x); print(outer); return r; }});\n", body)
                } else {
                    format!("var f = Fiber.new(|x| {{ {} }});\n", body)
                };
                let src = format!("{}print(f.call({}));\nprint(f.call({}));\nprint(f.has_finished());\n", def, first, second);
                let mut exp = vec![format!("[{}, local a]", first_p), first_p.to_string(), format!("[{}, {}, local a, local b, local c]", first_p, second_p)];
                if in_frame {
                    exp.push("outer local".to_string());
                }
                exp.push(format!("[{}, {}]", first_p, second_p));
                exp.push("true".to_string());
                out.push(Expect {
                    family: "argument_values_of_first_call_and_resume",
                    request: Request { op: "run".into(), snippets: vec![src], fuel: Some(1_000_000), ..Default::default() },
                    out: vec![exp],
                    end: vec!["ok".into()],
                    describe: json!({"first_call": first, "resume": second, "yield_from_a_nested_frame": in_frame}),
                    nontrivial: true,
                });
            }
        }
    }
    out
}

/// Fibers keep their state from one program to the next on the same interpreter.  A first program creates
/// fibers held in globals, steps them, and ends - normally, by an uncaught error at top level, by an uncaught
/// error inside a fiber, inside a fiber called by a fiber, or it does not compile at all; a second and a third
/// program ask every fiber whether it has finished and call it again: a finished fiber stays finished and
/// refuses calls, a suspended one goes on where it was, whatever ended the programs in between.
fn fibers_across_programs() -> Vec<crate::expect::Expect> {
    use crate::expect::Expect;
    let defs = "var steps = Fiber.new(|| { Fiber.yield(1); Fiber.yield(2); Fiber.yield(3); return 4; });\nvar other = Fiber.new(|| { var k = 0; while true { k += 1; Fiber.yield(\"other ${k}\"); } });\nvar bomb = Fiber.new(|| { Fiber.yield(\"armed\"); throw \"boom\"; });\nvar inner = Fiber.new(|| { Fiber.yield(\"inner armed\"); throw \"inner boom\"; });\nvar outer = Fiber.new(|| { Fiber.yield(\"outer armed\"); inner.call(); return \"outer done\"; });\nprint(steps.call());\nprint(other.call());\nprint(bomb.call());\nprint(inner.call());\nprint(outer.call());\n";
    let first_out = vec!["1", "other 1", "armed", "inner armed", "outer armed"];
    // (how the first program ends, its last statement, which fibers are finished afterwards: bomb, inner, outer)
    let endings: [(&str, &str, &str, bool, bool, bool); 5] = [
        ("normally", "", "ok", false, false, false),
        ("uncaught error at top level", "throw \"top\";\n", "Unhandled exception: top", false, false, false),
        ("uncaught error inside a fiber", "bomb.call();\n", "Unhandled exception: boom", true, false, false),
        ("uncaught error inside a fiber called by a fiber", "outer.call();\n", "Unhandled exception: inner boom", false, true, true),
        ("uncaught built-in error inside a fiber", "Fiber.new(|| [][1]).call();\n", "Unhandled IndexError", false, false, false),
    ];
    let mut out = Vec::new();
    for (how, last, end, bomb_dead, inner_dead, outer_dead) in endings {
        for between in ["", "var zz = ;\n", "throw \"again\";\n", "Fiber.new(|| { throw \"in a new fiber\"; }).call();\n"] {
            let probe = |n: usize| -> (String, Vec<String>) {
                // the n-th probing program (n = 1, 2): steps yields 2 then 3; other counts on by two per probe
                let mut src = String::new();
                let mut exp: Vec<String> = Vec::new();
                src.push_str("print(steps.has_finished());\nprint(steps.call());\n");
                exp.push("false".into());
                exp.push(format!("{}", n + 1));
                src.push_str("print(other.call());\n");
                exp.push(format!("other {}", 2 * n));
                for (name, dead) in [("bomb", bomb_dead), ("inner", inner_dead), ("outer", outer_dead)] {
                    src.push_str(&format!("print({}.has_finished());\n", name));
                    exp.push(format!("{}", dead));
                    if dead {
                        src.push_str(&format!("try {{ {}.call(); print(\"it ran\"); }} catch e {{ print(e.context); }}\n", name));
                        exp.push("Cannot call a finished fiber.".into());
                    }
                }
                src.push_str("print(other.call());\nprint(\"still running\");\n");
                exp.push(format!("other {}", 2 * n + 1));
                exp.push("still running".into());
                (src, exp)
            };
            let (p1, e1) = probe(1);
            let (p2, e2) = probe(2);
            let mut snippets = vec![format!("{}{}", defs, last), p1];
            let mut outs: Vec<Vec<String>> = vec![first_out.iter().map(|x| x.to_string()).collect(), e1];
            let mut ends: Vec<String> = vec![end.to_string(), "ok".into()];
            if !between.is_empty() {
                snippets.push(between.to_string());
                outs.push(vec![]);
                ends.push(if between.starts_with("var zz") { "[module".into() } else { "Unhandled exception".into() });
            }
            snippets.push(p2);
            outs.push(e2);
            ends.push("ok".into());
            out.push(Expect {
                family: "fibers_across_programs",
                request: proto::Request { op: "run".into(), snippets, fuel: Some(2_000_000), ..Default::default() },
                out: outs,
                end: ends,
                describe: json!({"first_program_ends": how, "between_the_probes": between}),
                nontrivial: true,
            });
        }
    }
    out
}

pub fn run(ctx: &Ctx) -> Report {
    let mut report = Report::new();
    let active = active_findings(ctx, &mut report);
    let thorough = ctx.thorough();
    let nf = 2;
    let script_len = if thorough { 3 } else { 2 };
    let main_depth = if thorough { 6 } else { 5 };
    let wraps = [Wrap::None, Wrap::Frame, Wrap::Try, Wrap::Local, Wrap::Cap, Wrap::TryFinally, Wrap::InFinally, Wrap::LocalTry];
    let mut f0_scripts: Vec<Script> = Vec::new();
    for b in bodies(script_len, 0, nf) {
        for w in wraps {
            for param in [false, true] {
                // parameters only with the plain wrapper (the parameter hand-over does not depend on the wrapper)
                if param && w != Wrap::None {
                    continue;
                }
                // a running fiber re-entered with the wrong argument count is an error either way; which
                // of the two error classes is reported first is not fixed by the property: left out
                if param && b.iter().any(|a| matches!(a, Act::C(0, false))) {
                    continue;
                }
                // inside a finally block entered by an exception: no abrupt exit from the finally block (X)
                if w == Wrap::InFinally && b.iter().any(|a| matches!(a, Act::R | Act::T)) {
                    continue;
                }
                // the LocalTry wrapper differs from Try and Local only where a call with an argument can
                // report an error
                if w == Wrap::LocalTry && !b.iter().any(|a| matches!(a, Act::C(_, true))) {
                    continue;
                }
                if thorough || b.len() <= 2 {
                    f0_scripts.push(Script { param, wrap: w, acts: b.clone() });
                }
            }
        }
    }
    let f1_scripts: Vec<Script> = if thorough {
        let mut v = representative_scripts(1, nf);
        for b in bodies(2, 1, nf) {
            v.push(Script { param: false, wrap: Wrap::None, acts: b });
        }
        v
    } else {
        representative_scripts(1, nf)
    };
    let mains = [Main::Call(0), Main::CallArg(0), Main::Call(1), Main::CallArg(1), Main::Call2(0), Main::Hf(0), Main::Hf(1), Main::Yield];

    let mut cases: Vec<Expect> = Vec::new();
    let mut total_states = 0usize;
    let mut total_transitions = 0usize;
    let mut max_depth = 0usize;
    let mut fired: HashSet<String> = HashSet::new();
    let mut interleavings: HashSet<String> = HashSet::new();
    // cases are run in batches of a few hundred thousand (all of them at once do not fit in memory in the
    // thorough tier)
    let monitor = |_e: &Expect, r: &proto::Response| -> Option<String> {
        if r.monitor_failures > 0 {
            Some(format!("the raw active-fiber pointer disagreed with the active fiber at {} of {} instruction fetches", r.monitor_failures, r.monitor_checks))
        } else {
            None
        }
    };
    let mut stats = expect::ExpectStats::default();
    let mut n_cases = 0usize;
    for s0 in &f0_scripts {
        if cases.len() >= 300_000 {
            n_cases += cases.len();
            let batch = std::mem::take(&mut cases);
            stats.merge(expect::run_expect(ctx, &ctx.runner_checked, batch.into_iter(), &monitor, &|_e, _p| None));
        }
        for (s1_index, s1) in f1_scripts.iter().enumerate() {
            // quick tier: what follows an action reported as an error is explored for three of the ten
            // representative scripts of fiber 1 (the empty one, yield-then-return, call of fiber 0)
            let continue_after_errors = thorough || [0usize, 2, 4].contains(&s1_index);
            let scripts = [s0.clone(), s1.clone()];
            let code: Vec<Vec<Ins>> = scripts.iter().enumerate().map(|(f, s)| compile(f, s)).collect();
            let params: Vec<bool> = scripts.iter().map(|s| s.param).collect();
            for s in &scripts {
                for a in &s.acts {
                    fired.insert(format!("{:?}", a).split('(').next().unwrap().to_string());
                }
                fired.insert(format!("{:?}", s.wrap));
            }
            let defs: String = scripts.iter().enumerate().map(|(f, s)| render_fiber(f, s)).collect();
            let init = World {
                fibers: (0..nf).map(|_| FiberSt { status: Status::New, pc: 0, calls: vec![], handlers: vec![], print_resume: false, cap: 0, inner_ret: None, exc: None, pending_exc: None, pending_ret: None }).collect(),
                aborted: None,
            };
            // BFS over main action sequences
            // states are merged by model state; a main action that leaves the model state unchanged (an
            // error, has_finished) is remembered as a marker so that what follows it is explored too, with
            // that action in the replayed path
            let mut seen: HashSet<(World, Option<Main>)> = HashSet::new();
            seen.insert((init.clone(), None));
            let mut seen_markers: HashSet<(World, Main)> = HashSet::new();
            // second rendering of the same transitions: the fibers are defined in a module, the main
            // program has globals of its own and uses them straight after every action (only for the
            // plain wrapper without parameter: the hand-over of control between modules does not depend
            // on what the fiber's body is wrapped in)
            let in_module = s0.wrap == Wrap::None && !s0.param;
            let mut queue: VecDeque<(World, Vec<Main>, Vec<String>, Vec<String>)> = VecDeque::new();
            queue.push_back((init, vec![], vec![], vec![]));
            total_states += 1;
            while let Some((w, path, out, out_steps)) = queue.pop_front() {
                max_depth = max_depth.max(path.len());
                if w.aborted.is_some() || path.len() >= main_depth {
                    continue;
                }
                for &a in &mains {
                    let mut m = Model { code: &code, params: params.clone(), out: out.clone() };
                    let mut w2 = w.clone();
                    m.main_action(&mut w2, a);
                    total_transitions += 1;
                    let mut p2 = path.clone();
                    p2.push(a);
                    // the program replaying this transition: definitions + the action path
                    let src = format!("{}{}print(\"end\");\n", defs, p2.iter().map(|x| render_main(*x)).collect::<String>());
                    let (mut exp_out, end) = match &w2.aborted {
                        Some(msg) => (m.out.clone(), msg.clone()),
                        None => (m.out.clone(), "ok".to_string()),
                    };
                    if w2.aborted.is_none() {
                        exp_out.push("end".into());
                    }
                    interleavings.insert(format!("{:?}", p2));
                    cases.push(Expect {
                        family: "transition_replay",
                        request: Request { op: "run".into(), snippets: vec![src], fuel: Some(1_000_000), want: vec!["monitor".into()], ..Default::default() },
                        out: vec![exp_out],
                        end: vec![end],
                        describe: json!({"fiber_scripts": format!("{:?}", scripts), "main_path": format!("{:?}", p2)}),
                        nontrivial: p2.len() >= 2,
                    });
                    let mut steps2 = out_steps.clone();
                    steps2.extend(m.out[out.len()..].iter().cloned());
                    if w2.aborted.is_none() {
                        steps2.push(format!("step {}", p2.len()));
                    }
                    if in_module {
                        let mut main = String::from("import \"d\";\nvar F0 = d.F0;\nvar F1 = d.F1;\nvar step = 0;\n");
                        for x in &p2 {
                            main.push_str(&render_main(*x));
                            main.push_str("step = step + 1;\nprint(\"step ${step}\");\n");
                        }
                        main.push_str("print(\"end\");\n");
                        let mut exp = steps2.clone();
                        if w2.aborted.is_none() {
                            exp.push("end".into());
                        }
                        let mut modules = std::collections::BTreeMap::new();
                        modules.insert("d".to_string(), defs.clone());
                        cases.push(Expect {
                            family: "transition_replay_fibers_defined_in_a_module",
                            request: Request { op: "run".into(), snippets: vec![main], modules, fuel: Some(1_000_000), want: vec!["monitor".into()], ..Default::default() },
                            out: vec![exp],
                            end: vec![match &w2.aborted {
                                Some(msg) => msg.clone(),
                                None => "ok".to_string(),
                            }],
                            describe: json!({"fiber_scripts": format!("{:?}", scripts), "main_path": format!("{:?}", p2), "fibers_in_module": true}),
                            nontrivial: p2.len() >= 2,
                        });
                    }
                    // (one no-op deep: the path of a marker state ends in exactly one action that left the
                    // model state unchanged; a second one in a row is replayed but not continued)
                    let from_marker = path.last().map(|l| seen_markers.contains(&(w.clone(), *l))).unwrap_or(false);
                    // only actions that were reported as errors: the property says those leave every fiber's
                    // state untouched (has_finished is the other action without effect; it is not continued)
                    let was_error = m.out[out.len()..].iter().any(|l| l.starts_with("<class "));
                    let marker = if w2 == w && was_error && continue_after_errors { Some(a) } else { None };
                    if w2 == w && marker.is_none() && seen.contains(&(w2.clone(), None)) {
                        continue;
                    }
                    if marker.is_some() && (from_marker || p2.len() > if thorough { 3 } else { 2 }) {
                        continue;
                    }
                    if let Some(mk) = marker {
                        seen_markers.insert((w2.clone(), mk));
                    }
                    if seen.insert((w2.clone(), marker)) {
                        total_states += 1;
                        queue.push_back((w2, p2, m.out, steps2));
                    }
                }
            }
        }
    }
    // vacuity: every action and wrapper of the alphabet occurred
    for need in ["P", "Y", "Y0", "XY", "C", "R", "T", "HF", "Frame", "Try", "Local", "Cap", "TryFinally", "InFinally", "LocalTry"] {
        if !fired.contains(need) {
            crate::pool::machinery_failure(&format!("C09: action {} never occurred in any script", need));
        }
    }
    n_cases += cases.len();
    stats.merge(expect::run_expect(ctx, &ctx.runner_checked, cases.into_iter(), &monitor, &|_e, _p| None));
    expect::fill(
        &mut report,
        &stats,
        "for every pair of fiber scripts (fiber 0: every script up to the length bound over {print, yield value, yield nothing, x = yield, call the other fiber with/without argument, call itself, has_finished, return, throw} under each wrapper {none, nested function frame, try/catch, local kept across suspensions, captured variable, try/finally around the script, script inside a finally block entered by an exception, a local declared just before a try/catch around the script and printed after it}, with and without a parameter; fiber 1: representative scripts) a breadth-first search over sequences of main-program actions {call, call with argument, call with two arguments, has_finished, yield at top level} with canonical hashing of the model state; every transition is replayed on the real VM (program = definitions + action path) and must print exactly the model's labels; the fiber/raw-pointer agreement monitor runs at every instruction. For the plain wrapper every transition is replayed a second time with the fibers defined in an imported module and a main program that updates and prints a global of its own straight after every action. Plus fibers abandoned while suspended: counters (closures over a local of the fiber's body, of a function it called, of a fiber it called) handed out by fibers that nothing refers to afterwards, every sequence of four actions over {make the next counter, step counter 0/1/2, look at all, run three other fibers}, each counter's expected numbers computed by the explorer; swept objects quarantined, any touch of freed memory is a violation. Plus every ordered pair of ten argument values (nil, false, true, 0, the empty string, an empty vec, a tuple, ...) as the argument of a one-parameter fiber's first call and of its resume, yielding from the body and from a nested frame: parameter, yield value and the fiber's locals as the source says.",
        json!({"fibers": nf, "script_length": script_len, "main_sequence_length": main_depth}),
    );
    report.cov("states", json!(total_states));
    report.cov("transitions", json!(total_transitions));
    report.cov("traces_validated_against_impl", json!(n_cases));
    report.cov("max_depth", json!(max_depth));
    report.cov("distinct_main_interleavings", json!(interleavings.len()));
    report.cov("script_pairs", json!(f0_scripts.len() * f1_scripts.len()));
    report.assumptions = vec![
        "an exception that leaves a fiber's outermost frame ends the whole run (the repository's throw_from_fiber script fixes that reading)".into(),
        "for fibers abandoned while suspended the use-after-free side is C01's (suspended fiber as a holder, swept objects quarantined); here their captured variables are followed through every sequence of four uses of up to three counters handed out by abandoned fibers".into(),
    ];
    {
        let cases = fibers_across_programs();
        let n = cases.len();
        let st = crate::expect::run_expect(ctx, &ctx.runner_checked, cases.into_iter(), &|_e, _r| None, &|_e, _p| None);
        report.cov("fibers_across_programs", json!(n));
        report.violations.extend(st.violations);
    }
    // the fiber operations that fail (and those that do not) leave the calling function's variables intact:
    // C08's family, the rows of Fiber and the Fiber class (every tuple of 0-2 arguments from eight values)
    let n_fv = crate::c08::failing_built_ins_leave_variables_intact(ctx, &mut report, true);
    report.cov("fiber_operations_leave_the_callers_variables_intact", json!(n_fv));
    record_known(&mut report, &active, &stats.attributed);
    report.violations.extend(stats.violations);
    // fibers abandoned while suspended: expected numbers computed here (M-eval has no yield)
    {
        let cases = abandoned_fibers_keep_captured_variables();
        let n = cases.len();
        let ms = expect::run_expect(ctx, &ctx.runner_checked, cases.into_iter(), &|_e, r| if r.uaf.is_empty() { None } else { Some(format!("use after free: {:?}", r.uaf)) }, &|_e, _p| None);
        report.cov("abandoned_fiber_programs", json!(n));
        report.violations.extend(ms.violations);
    }
    {
        let cases = argument_values();
        let n = cases.len();
        let ms = expect::run_expect(ctx, &ctx.runner_checked, cases.into_iter(), &|_e, _r| None, &|_e, _p| None);
        report.cov("argument_value_programs", json!(n));
        report.violations.extend(ms.violations);
    }
    // yield insertion: whole programs of the other properties' corpora, suspended after every statement
    {
        use crate::metamorph::{yield_cases, Driver};
        let mut corpus: Vec<crate::mcheck::Case> = crate::metamorph::standard_corpus(if thorough { 1 } else { 4 });
        if thorough {
            corpus.extend(crate::c08::nests_of_depth(2).into_iter().map(|n| crate::mcheck::Case::new("c08", crate::c08::program(&[n]))));
        }
        let drivers: &[Driver] = &[Driver::Plain, Driver::Values, Driver::Interleaved, Driver::InExpressions];
        let cases = yield_cases("Y_program_suspended_after_every_statement", &corpus, drivers);
        let n = cases.len();
        let hooks = crate::mcheck::Hooks { attribute: &|_c, _m, _o, _mm| None, nontrivial: &|_c, m| m.out.len() >= 2, fuel: 4_000_000 };
        let st = crate::mcheck::run(ctx, cases.into_iter(), &hooks);
        report.cov(
            "yield_insertion",
            json!({
                "rule": "metamorphic: every program of a corpus drawn from the C05 (statements), C06 (closures), C07 (classes), C08 (exception nests, loops around try statements, re-entered try statements, recursion from finally blocks) and C18 (iteration) generators that does not use fibers itself is run inside one fiber with a `Fiber.yield` inserted before the first and after every statement of every block, function, method, lambda, loop body and try / catch / finally block, and resumed until it has finished by four drivers (plain resumes; yields carrying a value and resumes passing one; resumes alternating with another fiber that keeps locals, closures and try / catch / finally of its own across its suspensions and reports any disturbance of them; plain resumes with, in addition, a yield in the middle of expressions - every call argument, literal element and right operand `e` becomes `(Fiber.yield() || e)`, so the fiber is suspended with half-evaluated expressions on its stack); printed lines and outcome must equal M-eval's for the same statements in a fiber that is called once and never yields",
                "programs": corpus.len(),
                "drivers": 4,
                "cases": n,
                "executions": st.executions,
                "distinct": st.distinct.len(),
                "nontrivial": st.nontrivial.len(),
                "skipped_outside_model": st.unsupported,
                "distinct_model_outcomes": st.outcome_signatures.len(),
            }),
        );
        if st.unsupported * 10 > n.max(1) {
            crate::pool::machinery_failure("yield insertion: more than a tenth of the corpus is outside the model");
        }
        report.violations.extend(st.violations);
    }
    report
}
