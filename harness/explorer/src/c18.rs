//! C18 — iteration is uniform over built-in and user-defined iterables.
use crate::ast::*;
use crate::common::*;
use crate::mcheck::{self, Case, Hooks};
use crate::meval::Outcome;
use serde_json::json;

fn ret(e: Expr) -> Stmt {
    st(StmtKind::Return(Some(e)))
}

const CHARS: [&str; 4] = ["a", "\u{e9}", "\u{20ac}", "\u{1f600}"];

/// (description, prelude, iterable expression, element kind is string?)
/// set by the thorough tier of C18 itself: longer sequences, wider range bounds, longer strings
static DEEP: std::sync::atomic::AtomicBool = std::sync::atomic::AtomicBool::new(false);

fn iterables(thorough: bool) -> Vec<(String, Vec<Stmt>, Expr, bool)> {
    let deep = DEEP.load(std::sync::atomic::Ordering::Relaxed);
    let mut v = Vec::new();
    for len in 0..=(if deep { 5usize } else { 3usize }) {
        let items: Vec<Expr> = (0..len).map(|i| num((i as f64 + 1.0) * 10.0)).collect();
        v.push((format!("vec{}", len), vec![], Expr::VecLit(items.clone()), false));
        v.push((format!("tuple{}", len), vec![], Expr::TupleLit(items), false));
    }
    let (lo, hi) = if deep { (-3i32, 4i32) } else { (-2i32, 3i32) };
    for b in lo..=hi {
        for e in lo..=hi {
            v.push((format!("range {}..{}", b, e), vec![], Expr::Paren(Box::new(bin(BinOp::Range, num(b as f64), num(e as f64)))), false));
        }
    }
    // strings over the 1-4 byte alphabet
    let max = if deep { 4 } else if thorough { 3 } else { 2 };
    let mut strings = vec![String::new()];
    let mut frontier = vec![String::new()];
    for _ in 0..max {
        let mut next = Vec::new();
        for s0 in &frontier {
            for c in CHARS {
                next.push(format!("{}{}", s0, c));
            }
        }
        strings.extend(next.iter().cloned());
        frontier = next;
    }
    strings.push("a\u{e9}\u{20ac}\u{1f600}".to_string());
    for t in strings {
        v.push((format!("string {:?}", t), vec![], s(&t), true));
    }
    // a user-defined iterator class: counts up to `max`
    for (n, early) in [(0, false), (1, false), (3, false), (3, true)] {
        let mut next_body = vec![st(StmtKind::If(bin(BinOp::Ge, get(Expr::SelfRef, "i"), get(Expr::SelfRef, "max")), vec![ret(invoke(var("StopIter"), "new", vec![]))], None))];
        if early {
            next_body.push(st(StmtKind::If(bin(BinOp::Eq, get(Expr::SelfRef, "i"), num(1.0)), vec![expr_stmt(set(Expr::SelfRef, "i", num(99.0))), ret(invoke(var("StopIter"), "new", vec![]))], None)));
        }
        next_body.push(expr_stmt(Expr::CompoundSet(Box::new(Expr::SelfRef), "i".into(), BinOp::Add, Box::new(num(1.0)))));
        next_body.push(ret(bin(BinOp::Mul, get(Expr::SelfRef, "i"), num(7.0))));
        let cls = class_stmt(
            "Counter",
            Some("Iter"),
            None,
            vec![
                method(FnKind::Ctor, "new", &["max"], vec![expr_stmt(set(Expr::SelfRef, "i", num(0.0))), expr_stmt(set(Expr::SelfRef, "max", var("max")))]),
                method(FnKind::Method, "iter", &[], vec![ret(Expr::SelfRef)]),
                method(FnKind::Method, "next", &[], next_body),
            ],
        );
        v.push((format!("user iterator max={} early={}", n, early), vec![cls], invoke(var("Counter"), "new", vec![num(n as f64)]), false));
    }
    // a user-defined iterator whose iter() starts over, and a user-defined collection whose iter()
    // makes a new cursor object each time: iter() is not the identity for either
    let restart = class_stmt(
        "Restart",
        Some("Iter"),
        None,
        vec![
            method(FnKind::Ctor, "new", &["max"], vec![expr_stmt(set(Expr::SelfRef, "i", num(0.0))), expr_stmt(set(Expr::SelfRef, "max", var("max")))]),
            method(FnKind::Method, "iter", &[], vec![expr_stmt(set(Expr::SelfRef, "i", num(0.0))), ret(Expr::SelfRef)]),
            method(
                FnKind::Method,
                "next",
                &[],
                vec![
                    st(StmtKind::If(bin(BinOp::Ge, get(Expr::SelfRef, "i"), get(Expr::SelfRef, "max")), vec![ret(invoke(var("StopIter"), "new", vec![]))], None)),
                    expr_stmt(Expr::CompoundSet(Box::new(Expr::SelfRef), "i".into(), BinOp::Add, Box::new(num(1.0)))),
                    ret(bin(BinOp::Mul, get(Expr::SelfRef, "i"), num(10.0))),
                ],
            ),
        ],
    );
    v.push(("user restartable iterator max=3".to_string(), vec![restart], invoke(var("Restart"), "new", vec![num(3.0)]), false));
    let cursor = class_stmt(
        "BagCursor",
        Some("Iter"),
        None,
        vec![
            method(FnKind::Ctor, "new", &["items"], vec![expr_stmt(set(Expr::SelfRef, "items", var("items"))), expr_stmt(set(Expr::SelfRef, "i", num(0.0)))]),
            method(FnKind::Method, "iter", &[], vec![ret(Expr::SelfRef)]),
            method(
                FnKind::Method,
                "next",
                &[],
                vec![
                    st(StmtKind::If(bin(BinOp::Ge, get(Expr::SelfRef, "i"), invoke(get(Expr::SelfRef, "items"), "len", vec![])), vec![ret(invoke(var("StopIter"), "new", vec![]))], None)),
                    expr_stmt(Expr::CompoundSet(Box::new(Expr::SelfRef), "i".into(), BinOp::Add, Box::new(num(1.0)))),
                    ret(index(get(Expr::SelfRef, "items"), bin(BinOp::Sub, get(Expr::SelfRef, "i"), num(1.0)))),
                ],
            ),
        ],
    );
    let bag = class_stmt(
        "Bag",
        Some("Iter"),
        None,
        vec![
            method(FnKind::Ctor, "new", &["items"], vec![expr_stmt(set(Expr::SelfRef, "items", var("items")))]),
            method(FnKind::Method, "iter", &[], vec![ret(invoke(var("BagCursor"), "new", vec![get(Expr::SelfRef, "items")]))]),
        ],
    );
    for len in [0usize, 3] {
        let items: Vec<Expr> = (0..len).map(|i| num((i as f64 + 1.0) * 10.0)).collect();
        v.push((format!("user collection len={}", len), vec![cursor.clone(), bag.clone()], invoke(var("Bag"), "new", vec![Expr::VecLit(items)]), false));
    }
    // the protocol offered through fields: `iter` and `next` are closures stored in fields of a plain
    // instance; and a class-made iterator whose `next` method is shadowed by a field of that name (a member
    // access finds a field first - a for loop asks for `next` like any other caller)
    let counting = |limit: f64, factor: f64| -> Expr {
        lambda_block(
            &[],
            vec![
                st(StmtKind::If(bin(BinOp::Ge, get(var("fo"), "i"), num(limit)), vec![ret(invoke(var("StopIter"), "new", vec![]))], None)),
                expr_stmt(Expr::CompoundSet(Box::new(var("fo")), "i".into(), BinOp::Add, Box::new(num(1.0)))),
                ret(bin(BinOp::Mul, get(var("fo"), "i"), num(factor))),
            ],
        )
    };
    let plain = class_stmt("Plain", None, Some("new"), vec![]);
    v.push((
        "protocol through fields only".to_string(),
        vec![plain, var_stmt("fo", invoke(var("Plain"), "new", vec![])), expr_stmt(set(var("fo"), "i", num(0.0))), expr_stmt(set(var("fo"), "iter", lambda_expr(&[], var("fo")))), expr_stmt(set(var("fo"), "next", counting(3.0, 5.0)))],
        var("fo"),
        false,
    ));
    let counter_cls = class_stmt(
        "Shadowed",
        Some("Iter"),
        None,
        vec![
            method(FnKind::Ctor, "new", &[], vec![expr_stmt(set(Expr::SelfRef, "i", num(0.0)))]),
            method(FnKind::Method, "iter", &[], vec![ret(Expr::SelfRef)]),
            method(FnKind::Method, "next", &[], vec![st(StmtKind::If(bin(BinOp::Ge, get(Expr::SelfRef, "i"), num(2.0)), vec![ret(invoke(var("StopIter"), "new", vec![]))], None)), expr_stmt(Expr::CompoundSet(Box::new(Expr::SelfRef), "i".into(), BinOp::Add, Box::new(num(1.0)))), ret(s("from the method"))]),
        ],
    );
    v.push(("next method shadowed by a field".to_string(), vec![counter_cls, var_stmt("fo", invoke(var("Shadowed"), "new", vec![])), expr_stmt(set(var("fo"), "next", counting(3.0, 100.0)))], var("fo"), false));
    v
}

fn loop_over(prelude: &[Stmt], it: &Expr, body: Vec<Stmt>) -> Vec<Stmt> {
    let mut main = prelude.to_vec();
    // inside a function so that residue on the stack would shift the locals declared afterwards
    let f = vec![var_stmt("before", s("before")), st(StmtKind::For("x".into(), it.clone(), body)), var_stmt("after", s("after")), print_stmt(var("before")), print_stmt(var("after")), ret(s("returned normally"))];
    main.push(fn_stmt(func("f", &[], f)));
    main.push(print_stmt(call(var("f"), vec![])));
    main
}

fn i1(thorough: bool) -> Vec<Case> {
    iterables(thorough).into_iter().map(|(_, pre, it, _)| Case::new("I1_for_over_every_iterable", loop_over(&pre, &it, vec![print_stmt(var("x"))]))).collect()
}

/// ranges whose end points are at or beyond the largest machine integers (an infinite end point is
/// clamped), left by break after three elements, in both directions
fn i1_extreme_ranges() -> Vec<Case> {
    let inf = || bin(BinOp::Div, num(1.0), num(0.0));
    let ninf = || bin(BinOp::Div, num(-1.0), num(0.0));
    let big = || num(9223372036854775807.0);
    let nbig = || num(-9223372036854775808.0);
    let ends: Vec<(Expr, Expr)> = vec![
        (num(-1.0), inf()), (num(1.0), ninf()), (num(0.0), inf()), (num(0.0), ninf()), (ninf(), inf()), (inf(), ninf()), (inf(), num(0.0)), (ninf(), num(0.0)),
        (num(-1.0), big()), (num(1.0), nbig()), (nbig(), big()), (big(), nbig()), (num(-2.0), num(4611686018427387904.0)), (num(4611686018427387904.0), num(-4611686018427387904.0)),
        (big(), inf()), (nbig(), ninf()),
    ];
    let mut out = Vec::new();
    for (b, e) in ends {
        let body = vec![print_stmt(var("x")), expr_stmt(assign("n", bin(BinOp::Add, var("n"), num(1.0)))), st(StmtKind::If(bin(BinOp::Eq, var("n"), num(3.0)), vec![st(StmtKind::Break)], None))];
        let rng = Expr::Paren(Box::new(bin(BinOp::Range, Expr::Paren(Box::new(b)), Expr::Paren(Box::new(e)))));
        out.push(Case::new("I1_extreme_ranges", vec![var_stmt("n", num(0.0)), var_stmt("r", rng), print_stmt(var("r")), st(StmtKind::For("x".into(), var("r"), body)), print_stmt(var("n"))]));
    }
    out
}

fn i2(thorough: bool) -> Vec<Case> {
    let mut out = Vec::new();
    for (desc, pre, it, _) in iterables(thorough) {
        // only the three-element iterables (and the user iterators)
        if !(desc.ends_with('3') || desc == "range 0..3" || desc == "range 3..0" || desc.starts_with("user") || desc.contains("\u{1f600}\"") && desc.len() > 20) {
            continue;
        }
        for pos in 0..3 {
            for action in 0..3 {
                let act = match action {
                    0 => st(StmtKind::Break),
                    1 => st(StmtKind::Continue),
                    _ => ret(s("returned from inside the loop")),
                };
                let body = vec![
                    var_stmt("inner", var("x")),
                    st(StmtKind::If(bin(BinOp::Eq, var("n"), num(pos as f64)), vec![expr_stmt(assign("n", bin(BinOp::Add, var("n"), num(1.0)))), act], None)),
                    expr_stmt(assign("n", bin(BinOp::Add, var("n"), num(1.0)))),
                    print_stmt(var("inner")),
                ];
                let mut main = vec![var_stmt("n", num(0.0))];
                main.extend(loop_over(&pre, &it, body));
                out.push(Case::new("I2_break_continue_return_at_each_position", main));
            }
        }
        // nested loops over the same iterable are independent
        let nested = vec![st(StmtKind::For("y".into(), var("src"), vec![print_stmt(Expr::VecLit(vec![var("x"), var("y")]))]))];
        let mut main = pre.clone();
        main.push(var_stmt("src", it.clone()));
        main.push(st(StmtKind::For("x".into(), var("src"), nested)));
        out.push(Case::new("I2_nested_same_iterable", main));
        // one shared iterator is consumed jointly
        let nested = vec![print_stmt(var("x")), st(StmtKind::For("y".into(), var("shared"), vec![print_stmt(Expr::VecLit(vec![var("x"), var("y")])), st(StmtKind::Break)]))];
        let mut main = pre.clone();
        main.push(var_stmt("shared", invoke(it.clone(), "iter", vec![])));
        main.push(st(StmtKind::For("x".into(), var("shared"), nested)));
        main.push(st(StmtKind::For("z".into(), var("shared"), vec![print_stmt(var("z"))])));
        out.push(Case::new("I2_shared_iterator", main));
    }
    out
}

fn callbacks(is_str: bool) -> Vec<(&'static str, Expr)> {
    let mut v: Vec<(&'static str, Expr)> = vec![("identity", lambda_expr(&["e"], var("e")))];
    if is_str {
        v.push(("append", lambda_expr(&["e"], bin(BinOp::Add, var("e"), s("!")))));
        v.push(("is_a", lambda_expr(&["e"], bin(BinOp::Eq, var("e"), s("a")))));
    } else {
        v.push(("plus1", lambda_expr(&["e"], bin(BinOp::Add, var("e"), num(1.0)))));
        v.push(("even_tens", lambda_expr(&["e"], bin(BinOp::Eq, bin(BinOp::Mod, var("e"), num(20.0)), num(0.0)))));
    }
    v.push(("always_false", lambda_expr(&["e"], Expr::False)));
    v.push((
        "throws_on_second",
        lambda_block(&["e"], vec![expr_stmt(assign("calls", bin(BinOp::Add, var("calls"), num(1.0)))), st(StmtKind::If(bin(BinOp::Eq, var("calls"), num(2.0)), vec![st(StmtKind::Throw(s("callback failed")))], None)), ret(var("e"))]),
    ));
    v
}

fn i3(thorough: bool) -> Vec<Case> {
    let mut out = Vec::new();
    for (desc, pre, it, is_str) in iterables(thorough) {
        if desc.starts_with("range") && !["range 0..3", "range 2..-1", "range 1..1"].contains(&desc.as_str()) {
            continue;
        }
        if desc.starts_with("string") && desc.len() > 14 && !thorough {
            continue;
        }
        let cbs = callbacks(is_str);
        let adapters = ["map", "filter"];
        // user-defined iterables offer map/filter/collect/reduce themselves: called on the result of
        // iter() and directly on the object
        let starts: Vec<Expr> = if desc.starts_with("user") { vec![invoke(it.clone(), "iter", vec![]), it.clone()] } else { vec![invoke(it.clone(), "iter", vec![])] };
        for start in &starts {
        for a1 in adapters {
            for (_, c1) in &cbs {
                let base = invoke(start.clone(), a1, vec![c1.clone()]);
                // depth 1: collect, for, reduce
                let mut main = pre.clone();
                main.push(var_stmt("calls", num(0.0)));
                main.push(print_stmt(invoke(base.clone(), "collect", vec![])));
                out.push(Case::new("I3_adapter_depth1_collect", main));
                let mut main = pre.clone();
                main.push(var_stmt("calls", num(0.0)));
                main.push(st(StmtKind::For("x".into(), base.clone(), vec![print_stmt(var("x"))])));
                out.push(Case::new("I3_adapter_depth1_for", main));
                for a2 in adapters {
                    for (_, c2) in cbs.iter().take(if thorough { cbs.len() } else { 3 }) {
                        let mut main = pre.clone();
                        main.push(var_stmt("calls", num(0.0)));
                        main.push(print_stmt(invoke(invoke(base.clone(), a2, vec![c2.clone()]), "collect", vec![])));
                        out.push(Case::new("I3_adapter_depth2", main));
                        if thorough {
                            for a3 in adapters {
                                let mut main = pre.clone();
                                main.push(var_stmt("calls", num(0.0)));
                                main.push(print_stmt(invoke(invoke(invoke(base.clone(), a2, vec![c2.clone()]), a3, vec![cbs[1].1.clone()]), "collect", vec![])));
                                out.push(Case::new("I3_adapter_depth3", main));
                            }
                        }
                    }
                }
            }
        }
        }
        if desc.starts_with("user") {
            // collect / reduce directly on the object, twice: the second pass sees what the first left
            let mut main = pre.clone();
            main.push(var_stmt("obj", it.clone()));
            main.push(print_stmt(invoke(var("obj"), "collect", vec![])));
            main.push(print_stmt(invoke(invoke(var("obj"), "filter", vec![cbs[2].1.clone()]), "collect", vec![])));
            main.push(print_stmt(invoke(invoke(var("obj"), "map", vec![cbs[1].1.clone()]), "collect", vec![])));
            main.push(print_stmt(invoke(var("obj"), "reduce", vec![lambda_expr(&["acc", "e"], bin(BinOp::Add, var("acc"), var("e"))), num(0.0)])));
            out.push(Case::new("I3_user_object_reused", main));
            // a loop left early, then an adapter over the same object
            for a in adapters {
                let mut main = pre.clone();
                main.push(var_stmt("obj", it.clone()));
                main.push(st(StmtKind::For("x".into(), var("obj"), vec![print_stmt(var("x")), st(StmtKind::Break)])));
                main.push(print_stmt(invoke(invoke(var("obj"), a, vec![cbs[0].1.clone()]), "collect", vec![])));
                out.push(Case::new("I3_user_object_after_break", main));
            }
        }
        // reduce
        let mut main = pre.clone();
        let f = if is_str { lambda_expr(&["acc", "e"], bin(BinOp::Add, var("acc"), var("e"))) } else { lambda_expr(&["acc", "e"], bin(BinOp::Add, bin(BinOp::Mul, var("acc"), num(2.0)), var("e"))) };
        main.push(print_stmt(invoke(invoke(it.clone(), "iter", vec![]), "reduce", vec![f, if is_str { s(">") } else { num(1.0) }])));
        out.push(Case::new("I3_reduce", main));
        // wrong callback arity, non-callable callback
        let mut main = pre.clone();
        main.push(print_stmt(invoke(invoke(invoke(it.clone(), "iter", vec![]), "map", vec![lambda_expr(&[], num(1.0))]), "collect", vec![])));
        out.push(Case::new("I3_callback_arity", main));
        let mut main = pre.clone();
        main.push(print_stmt(invoke(invoke(invoke(it.clone(), "iter", vec![]), "filter", vec![num(5.0)]), "collect", vec![])));
        out.push(Case::new("I3_callback_not_callable", main));
    }
    out
}

fn i4() -> Vec<Case> {
    let mut out = Vec::new();
    // iterating things that are not iterable
    for e in [num(5.0), Expr::Nil, Expr::True, var("print"), var("Num")] {
        out.push(Case::new("I4_not_iterable", vec![st(StmtKind::For("x".into(), e, vec![print_stmt(var("x"))]))]));
    }
    // iter() returning something without next
    out.push(Case::new(
        "I4_bad_protocol",
        vec![class_stmt("NoNext", None, Some("new"), vec![method(FnKind::Method, "iter", &[], vec![ret(num(1.0))])]), st(StmtKind::For("x".into(), invoke(var("NoNext"), "new", vec![]), vec![print_stmt(var("x"))]))],
    ));
    // (Q) an instance of a *subclass* of StopIter is an ordinary element for `for`, a stop for map/filter
    let sub = class_stmt("MyStop", Some("StopIter"), None, vec![method(FnKind::Ctor, "new", &[], vec![expr_stmt(Expr::SuperInvoke("new".into(), vec![]))])]);
    let it_cls = class_stmt(
        "Weird",
        Some("Iter"),
        None,
        vec![
            method(FnKind::Ctor, "new", &[], vec![expr_stmt(set(Expr::SelfRef, "i", num(0.0)))]),
            method(FnKind::Method, "iter", &[], vec![ret(Expr::SelfRef)]),
            method(
                FnKind::Method,
                "next",
                &[],
                vec![
                    expr_stmt(Expr::CompoundSet(Box::new(Expr::SelfRef), "i".into(), BinOp::Add, Box::new(num(1.0)))),
                    st(StmtKind::If(bin(BinOp::Eq, get(Expr::SelfRef, "i"), num(2.0)), vec![ret(invoke(var("MyStop"), "new", vec![]))], None)),
                    st(StmtKind::If(bin(BinOp::Gt, get(Expr::SelfRef, "i"), num(3.0)), vec![ret(invoke(var("StopIter"), "new", vec![]))], None)),
                    ret(get(Expr::SelfRef, "i")),
                ],
            ),
        ],
    );
    out.push(Case::new("I4_stop_iter_subclass", vec![sub.clone(), it_cls.clone(), st(StmtKind::For("x".into(), invoke(var("Weird"), "new", vec![]), vec![print_stmt(call(var("type"), vec![var("x")]))]))]));
    out.push(Case::new("I4_stop_iter_subclass", vec![sub, it_cls, print_stmt(invoke(invoke(invoke(var("Weird"), "new", vec![]), "map", vec![lambda_expr(&["e"], var("e"))]), "collect", vec![]))]));
    // an exhausted iterator keeps answering StopIter
    for src in [Expr::VecLit(vec![num(1.0)]), s("a"), Expr::Paren(Box::new(bin(BinOp::Range, num(0.0), num(1.0)))), Expr::TupleLit(vec![num(1.0)])] {
        out.push(Case::new(
            "I4_exhausted_iterator",
            vec![var_stmt("it", invoke(src, "iter", vec![])), print_stmt(invoke(var("it"), "next", vec![])), print_stmt(call(var("type"), vec![invoke(var("it"), "next", vec![])])), print_stmt(call(var("type"), vec![invoke(var("it"), "next", vec![])])), st(StmtKind::For("x".into(), var("it"), vec![print_stmt(var("x"))]))],
        ));
    }
    out
}

fn i5() -> Vec<Case> {
    let mut out = Vec::new();
    for pos in 0..3 {
        for mutation in 0..4 {
            let m = match mutation {
                0 => expr_stmt(invoke(var("v"), "push", vec![num(99.0)])),
                1 => expr_stmt(invoke(var("v"), "pop", vec![])),
                2 => expr_stmt(Expr::SetIndex(Box::new(var("v")), Box::new(num(2.0)), Box::new(num(77.0)))),
                _ => st(StmtKind::Block(vec![expr_stmt(invoke(var("v"), "pop", vec![])), expr_stmt(invoke(var("v"), "pop", vec![]))])),
            };
            let body = vec![print_stmt(var("x")), st(StmtKind::If(bin(BinOp::Eq, var("n"), num(pos as f64)), vec![m], None)), expr_stmt(assign("n", bin(BinOp::Add, var("n"), num(1.0))))];
            out.push(Case::new(
                "I5_mutation_during_iteration",
                vec![var_stmt("v", Expr::VecLit(vec![num(10.0), num(20.0), num(30.0)])), var_stmt("n", num(0.0)), st(StmtKind::For("x".into(), var("v"), body)), print_stmt(var("v"))],
            ));
        }
    }
    out
}

/// I6: ranges have no memory.  What `b..e` denotes, prints as, iterates over and selects from a sequence
/// does not depend on which ranges were built before it in the same interpreter: every ordered pair of
/// ranges with end points in [-2,3] is used one after the other (the first one once more at the end),
/// directly and with nine or seventy other ranges built in between.
fn i6() -> Vec<Case> {
    let mut out = Vec::new();
    let rng = |b: i32, e: i32| Expr::Paren(Box::new(bin(BinOp::Range, num(b as f64), num(e as f64))));
    let probe = |e: Expr| st(StmtKind::Try(vec![print_stmt(e)], Some(("err".into(), vec![print_stmt(call(var("type"), vec![var("err")]))])), None));
    let uses = |b: i32, e: i32| -> Vec<Stmt> {
        vec![
            probe(rng(b, e)),
            probe(invoke(invoke(rng(b, e), "iter", vec![]), "collect", vec![])),
            probe(index(var("v"), rng(b, e))),
            probe(index(var("t"), rng(b, e))),
            probe(index(s("abc"), rng(b, e))),
            probe(bin(BinOp::Eq, rng(b, e), rng(b, e))),
        ]
    };
    // (nine: more than the eight ranges the interpreter is known to keep at hand; seventy: in case that
    // number is ever raised)
    for churn in [0, 9, 70] {
        for b1 in -2..=3 {
            for e1 in -2..=3 {
                let mut prog = vec![var_stmt("v", Expr::VecLit(vec![num(10.0), num(20.0), num(30.0)])), var_stmt("t", Expr::TupleLit(vec![num(10.0), num(20.0), num(30.0)]))];
                if churn > 0 {
                    prog.push(fn_stmt(func("others", &[], vec![st(StmtKind::For("i".into(), rng(0, churn), vec![var_stmt("r", bin(BinOp::Range, bin(BinOp::Add, num(100.0), var("i")), bin(BinOp::Sub, num(200.0), var("i"))))]))])));
                }
                // one program per first range: every second range after it, the first one again each time
                for b2 in -2..=3 {
                    for e2 in -2..=3 {
                        prog.extend(uses(b1, e1));
                        if churn > 0 {
                            prog.push(expr_stmt(call(var("others"), vec![])));
                        }
                        prog.extend(uses(b2, e2));
                        prog.push(probe(bin(BinOp::Eq, rng(b1, e1), rng(b2, e2))));
                    }
                }
                prog.extend(uses(b1, e1));
                out.push(Case::new("I6_ranges_have_no_memory", prog));
            }
        }
    }
    out
}


/// I7: break and continue that leave a for loop's body through try statements (one to three nested, locals
/// declared between the levels, in try bodies, catch blocks and finally blocks) leave no iteration state
/// behind: the loop goes on with the right element (continue) or ends (break), the loop's hidden iterator
/// and the locals declared before and after the loop are where the source says, for every kind of iterable
/// and every element position.
/// I8: every kind of callable as a callback.  map, filter and reduce take whatever can be called: a function
/// of the program, a lambda, a built-in function (`type`), a bound built-in method (`acc.push`), a bound
/// method of an instance, a constructor, a static method - over every kind of iterable, consumed by collect
/// and by `for`.
fn i8(thorough: bool) -> Vec<Case> {
    let mut out = Vec::new();
    let decls = || -> Vec<Stmt> {
        vec![
            class_stmt(
                "Box",
                None,
                None,
                vec![
                    method(FnKind::Ctor, "new", &["v"], vec![expr_stmt(set(Expr::SelfRef, "v", var("v")))]),
                    method(FnKind::Method, "wrap", &["e"], vec![ret(Expr::TupleLit(vec![get(Expr::SelfRef, "v"), var("e")]))]),
                    method(FnKind::Method, "truthy", &["e"], vec![ret(bin(BinOp::Ne, var("e"), get(Expr::SelfRef, "v")))]),
                    method(FnKind::Method, "join", &["a", "e"], vec![ret(Expr::VecLit(vec![var("a"), var("e")]))]),
                    method(FnKind::Static, "twice", &["x"], vec![ret(Expr::VecLit(vec![var("x"), var("x")]))]),
                    method(FnKind::Static, "pair", &["a", "x"], vec![ret(Expr::TupleLit(vec![var("a"), var("x")]))]),
                ],
            ),
            var_stmt("b", invoke(var("Box"), "new", vec![num(0.0)])),
            var_stmt("acc", Expr::VecLit(vec![])),
            fn_stmt(func("named", &["e"], vec![ret(Expr::VecLit(vec![var("e")]))])),
        ]
    };
    for (desc, pre, it, _is_str) in iterables(thorough) {
        if desc.starts_with("range") && !["range 0..3", "range 2..-1", "range 1..1"].contains(&desc.as_str()) {
            continue;
        }
        if desc.starts_with("string") && desc.len() > 14 {
            continue;
        }
        let start = || invoke(it.clone(), "iter", vec![]);
        let mut progs: Vec<Vec<Stmt>> = Vec::new();
        for cb in [var("type"), var("named"), get(var("Box"), "twice"), get(var("b"), "wrap"), lambda_expr(&["e"], call(var("type"), vec![var("e")]))] {
            progs.push(vec![print_stmt(invoke(invoke(start(), "map", vec![cb.clone()]), "collect", vec![]))]);
            progs.push(vec![st(StmtKind::For("x".into(), invoke(start(), "map", vec![cb.clone()]), vec![print_stmt(var("x"))]))]);
            progs.push(vec![print_stmt(invoke(invoke(invoke(start(), "map", vec![cb.clone()]), "map", vec![var("type")]), "collect", vec![]))]);
        }
        progs.push(vec![print_stmt(invoke(invoke(invoke(start(), "map", vec![get(var("Box"), "new")]), "map", vec![lambda_expr(&["o"], get(var("o"), "v"))]), "collect", vec![]))]);
        progs.push(vec![expr_stmt(invoke(invoke(start(), "map", vec![get(var("acc"), "push")]), "collect", vec![])), print_stmt(var("acc"))]);
        for cb in [var("type"), get(var("b"), "truthy"), var("named")] {
            progs.push(vec![print_stmt(invoke(invoke(start(), "filter", vec![cb.clone()]), "collect", vec![]))]);
            progs.push(vec![st(StmtKind::For("x".into(), invoke(start(), "filter", vec![cb]), vec![print_stmt(var("x"))]))]);
        }
        for cb in [get(var("Box"), "pair"), get(var("b"), "join")] {
            progs.push(vec![print_stmt(invoke(start(), "reduce", vec![cb, Expr::Nil]))]);
        }
        for body in progs {
            let mut main = pre.clone();
            main.extend(decls());
            main.extend(body);
            out.push(Case::new("I8_every_kind_of_callable_as_a_callback", main));
        }
    }
    out
}

/// I9: every kind of value is an element like any other.  A sequence whose middle element is nil, a number,
/// a string, a container, a function, a built-in function, a bound method, an instance, or a *class object*
/// (built-in classes, the class StopIter itself, error classes, a class of the program, a class of the program
/// derived from StopIter or from Iter) goes through map, filter, collect, reduce and `for`, from a vec and from
/// a tuple: the adapters transform, keep, drop and count that element as they do its neighbours.  (Only an
/// *instance* of StopIter or of a class derived from it ends a sequence; those are not in the pool.)
fn i9() -> Vec<crate::expect::Expect> {
    use crate::expect::Expect;
    let decls = "#[constructor(new)]\nclass Plain { fn m(self) { return 1; } }\n#[derive(StopIter)]\nclass Done {}\n#[derive(Iter)]\nclass MyIter {}\n#[derive(Error)]\nclass MyErr {}\nvar inst = Plain.new();\n";
    let elements = ["nil", "0", "\"s\"", "[1]", "(1,)", "{1: 2}", "(0..2)", "(|a| a)", "type", "inst.m", "[1].len", "inst", "Error.new(\"e\")", "Num", "String", "Vec", "Fiber", "Type", "Object", "StopIter", "Error", "TypeError", "Iter", "Plain", "Done", "MyIter", "MyErr"];
    let mut out = Vec::new();
    for e in elements {
        for (open, close) in [("[", "]"), ("(", ")")] {
            let seq = format!("{}1, {}, 3{}", open, e, close);
            let src = format!(
                "{decls}var seq = {seq};\nprint(seq.iter().map(|x| 0).collect());\nprint(seq.iter().filter(|x| false).collect());\nprint(seq.iter().filter(|x| true).collect().len());\nprint(seq.iter().map(|x| x).collect()[1] == seq[1]);\nprint(seq.iter().map(|x| x).filter(|x| true).map(|x| 7).collect());\nprint(seq.iter().collect().len());\nprint(seq.iter().reduce(|a, x| a + 1, 0));\nvar n = 0;\nfor x in seq {{ n += 1; }}\nprint(n);\nvar k = 0;\nfor x in seq.iter().map(|x| x) {{ k += 1; }}\nprint(k);\n",
                decls = decls,
                seq = seq
            );
            out.push(Expect {
                family: "I9_every_kind_of_value_is_an_element_like_any_other",
                request: proto::Request { op: "run".into(), snippets: vec![src], fuel: Some(1_000_000), ..Default::default() },
                out: vec![vec!["[0, 0, 0]".into(), "[]".into(), "3".into(), "true".into(), "[7, 7, 7]".into(), "3".into(), "3".into(), "3".into(), "3".into()]],
                end: vec!["ok".into()],
                describe: json!({"element": e, "sequence": if open == "[" { "vec" } else { "tuple" }}),
                nontrivial: true,
            });
        }
    }
    out
}

fn i7() -> Vec<Case> {
    let mut out = Vec::new();
    let its: Vec<(Vec<Stmt>, Expr)> = iterables(false)
        .into_iter()
        .filter(|(d, _, _, _)| ["vec3", "tuple3", "range 0..3", "range 2..-1"].contains(&d.as_str()) || d == &format!("string {:?}", "a\u{e9}\u{20ac}") || d.starts_with("user"))
        .map(|(_, pre, it, _)| (pre, it))
        .collect();
    let fin = |tag: &str| vec![print_stmt(s(tag))];
    for (pre, it) in &its {
        for exit in [StmtKind::Break, StmtKind::Continue] {
            for at in 1..=3usize {
                for shape in 0..5usize {
                    let hit = st(StmtKind::If(bin(BinOp::Eq, var("count"), num(at as f64)), vec![st(exit.clone())], None));
                    let core = vec![hit, print_stmt(Expr::VecLit(vec![s("past the exit"), var("x"), var("between")]))];
                    let stmt: Stmt = match shape {
                        // try { local; try { exit } finally } finally
                        0 => st(StmtKind::Try(vec![var_stmt("between", bin(BinOp::Mul, var("count"), num(10.0))), st(StmtKind::Try(core.clone(), None, Some(fin("inner finally"))))], None, Some(fin("outer finally")))),
                        // try { local; try { exit } catch } finally
                        1 => st(StmtKind::Try(vec![var_stmt("between", bin(BinOp::Mul, var("count"), num(10.0))), st(StmtKind::Try(core.clone(), Some(("e".into(), fin("never"))), None))], None, Some(fin("outer finally")))),
                        // try { throw } catch { local; try { exit } finally }
                        2 => st(StmtKind::Try(vec![st(StmtKind::Throw(s("into the catch block")))], Some(("e".into(), vec![var_stmt("between", bin(BinOp::Mul, var("count"), num(10.0))), st(StmtKind::Try(core.clone(), None, Some(fin("inner finally"))))])), None)),
                        // three levels, a local at each
                        3 => st(StmtKind::Try(
                            vec![var_stmt("between", bin(BinOp::Mul, var("count"), num(10.0))), st(StmtKind::Try(vec![var_stmt("deeper", s("second level")), st(StmtKind::Try(core.clone(), None, Some(fin("innermost finally")))), print_stmt(var("deeper"))], None, Some(fin("middle finally"))))],
                            None,
                            Some(fin("outer finally")),
                        )),
                        // try {} finally { local; try { exit } finally }   (exit from inside a finally block)
                        _ => st(StmtKind::Try(vec![print_stmt(s("body"))], None, Some(vec![var_stmt("between", bin(BinOp::Mul, var("count"), num(10.0))), st(StmtKind::Try(core.clone(), None, Some(fin("inner finally"))))]))),
                    };
                    let body = vec![expr_stmt(Expr::CompoundAssign("count".into(), BinOp::Add, Box::new(num(1.0)))), stmt, print_stmt(Expr::VecLit(vec![s("end of body"), var("x")]))];
                    let mut main = pre.clone();
                    let f = vec![
                        var_stmt("before", s("first above")),
                        var_stmt("count", num(0.0)),
                        st(StmtKind::For("x".into(), it.clone(), body)),
                        var_stmt("after", s("declared after the loop")),
                        print_stmt(Expr::VecLit(vec![var("before"), var("count"), var("after")])),
                        ret(s("returned normally")),
                    ];
                    main.push(fn_stmt(func("f", &[], f)));
                    main.push(print_stmt(call(var("f"), vec![])));
                    out.push(Case::new("I7_loop_exits_through_try_statements", main));
                }
            }
        }
    }
    out
}

pub fn cases_for_c04(thorough: bool) -> Vec<Case> {
    i1(thorough).into_iter().chain(i1_extreme_ranges()).chain(i2(thorough)).chain(i4()).chain(i5()).chain(i7()).collect()
}

pub fn run(ctx: &Ctx) -> Report {
    let mut report = Report::new();
    // the quick tier runs what used to be the thorough bounds (it takes five seconds); the thorough tier
    // lengthens every sequence, widens the range bounds and lengthens the strings
    if ctx.thorough() {
        DEEP.store(true, std::sync::atomic::Ordering::Relaxed);
    }
    let thorough = true;
    let cases = i1(thorough).into_iter().chain(i1_extreme_ranges()).chain(i2(thorough)).chain(i3(thorough)).chain(i4()).chain(i5()).chain(i6()).chain(i7()).chain(i8(thorough));
    let hooks = Hooks { attribute: &|_c, _m, _o, _mm| None, nontrivial: &|_c, m| m.out.len() >= 2 || matches!(m.outcome, Outcome::Uncaught(_)), fuel: 2_000_000 };
    let stats = mcheck::run(ctx, cases, &hooks);
    mcheck::fill_report(
        &mut report,
        &stats,
        "I1: a for loop over every vec/tuple of length 0-3, every range b..e with b,e in [-2,3], every string of up to 2/3 characters over a 1-4-byte alphabet, and user-defined iterables (an iterator: normal, early stop; an iterator whose iter() starts over; a collection whose iter() makes a new cursor object; a plain instance offering iter and next through fields; an iterator whose next method is shadowed by a field); and 16 ranges with end points at or beyond the largest machine integers, left by break; I2: break/continue/return at each element position, nested loops over one iterable, one shared iterator; I3: every map/filter chain up to depth 2/3 with callbacks {identity, transform, predicate, always false, throwing on the second call}, reduce, collect, bad callbacks - on user-defined iterables both through iter() and directly on the object, on a reused object and after a loop left by break; I4: non-iterables, broken protocols, StopIter subclass, exhausted iterators; I5: push/pop/set of a vec at each position during its own iteration; I6: every ordered pair of ranges with end points in [-2,3] used one after the other in one interpreter (printed, iterated, as index into a vec, a tuple and a string, compared), directly and with nine / seventy other ranges built in between, the first one used again after each; I7: break and continue at each element position that leave the loop body through one to three nested try statements (locals declared between the levels; in try bodies, a catch block, a finally block) over a vec, a tuple, ranges in both directions, a string and the user-defined iterables: the loop goes on or ends as the source says and the locals before and after the loop are intact. non-trivial = at least two lines or an error.",
        json!({"sequence_length": if ctx.thorough() { 5 } else { 3 }, "range_bounds": if ctx.thorough() { "-3..4" } else { "-2..3" }, "string_chars": if ctx.thorough() { 4 } else { 3 }, "adapter_depth": 3}),
    );
    report.assumptions = vec!["vec iteration is by cursor index into the live vec; `for` stops at an instance whose class is exactly StopIter (Appendix A)".into()];
    report.violations = stats.violations;
    {
        let cases = i9();
        let n = cases.len();
        let st = crate::expect::run_expect(ctx, &ctx.runner_checked, cases.into_iter(), &|_e, _r| None, &|_e, _p| None);
        report.cov("I9_programs", json!(n));
        report.violations.extend(st.violations);
    }
    report
}
