//! C02 — running a program never panics, crashes or corrupts memory.
//! Exhaustive sweeps on the real VM (checked configuration: every unchecked fast path of the optimised
//! build is a panic here): every built-in function and method x receiver (of the right class and of a
//! class derived from it) x every argument tuple from an adversarial pool; every operator-like
//! construct x every pool value; a resource grid (call depth x frame width, nesting ladders,
//! self-containing data, mutation during iteration).
use crate::common::*;
use crate::pool::{par_map, Obs};
use proto::Request;
use serde_json::json;
use std::collections::{BTreeMap, BTreeSet};

const PRELUDE: &str = r#"
#[constructor(new)]
class K { fn m(self) { return 1; } }
var inst = K.new();
var selfvec = []; selfvec.push(selfvec);
var suspended = Fiber.new(|| { Fiber.yield(1); return 2; }); suspended.call();
var finished = Fiber.new(|| 1); finished.call();
var fresh_fiber = Fiber.new(|a| a);
var spent_iter = [1].iter(); spent_iter.next(); spent_iter.next();
var huge = 1; for i in 0..1000 { huge = huge * 2; }
"#;

/// (name, expression)
pub fn pool() -> Vec<(&'static str, &'static str)> {
    vec![
        ("nil", "nil"), ("true", "true"), ("false", "false"), ("zero", "0"), ("neg_zero", "-0"), ("one", "1"), ("minus_one", "-1"), ("frac", "1.5"),
        ("two53", "9007199254740992"), ("two63", "9223372036854775808"), ("minus_two63", "-9223372036854775808"), ("huge", "huge"), ("inf", "1 / 0"), ("neg_inf", "-1 / 0"),
        ("nan", "0 / 0"), ("empty_str", "\"\""), ("multibyte_str", "\"a\u{e9}\u{20ac}\u{1f600}\""), ("empty_vec", "[]"), ("vec", "[1, \"a\", nil]"), ("self_vec", "selfvec"),
        ("byte_vec", "[104, 195, 169]"), ("tuple", "(1, 2)"), ("tuple_with_vec", "(1, [2])"), ("tuple_with_map", "((1, {}), 2)"), ("empty_tuple", "()"), ("map", "{1: 2}"), ("range_up", "0..3"), ("range_down", "3..-2"), ("range_empty", "2..2"),
        ("lambda0", "(|| 1)"), ("lambda1", "(|a| a)"), ("lambda2", "(|a, b| a)"), ("class", "K"), ("builtin_class", "Vec"), ("instance", "inst"), ("bound_method", "inst.m"),
        ("bound_native", "[1].len"), ("native", "print"), ("fiber_new", "fresh_fiber"), ("fiber_suspended", "suspended"), ("fiber_finished", "finished"), ("iter_fresh", "[1, 2].iter()"),
        ("iter_spent", "spent_iter"), ("stop_iter", "StopIter.new()"), ("error", "Error.new(1)"),
    ]
}

/// (class label, receiver expression, methods with arity)
pub fn natives() -> Vec<(&'static str, &'static str, Vec<(&'static str, usize)>)> {
    let iter_methods = vec![("next", 0), ("iter", 0), ("map", 1), ("filter", 1), ("reduce", 2), ("collect", 0)];
    vec![
        ("String", "\"h\u{e9}llo\"", vec![("iter", 0), ("len", 0), ("is_alpha", 0), ("is_digit", 0), ("is_hexdigit", 0), ("count_chars", 0), ("char_byte_index", 1), ("find", 2), ("replace", 2), ("split", 1), ("starts_with", 1), ("ends_with", 1), ("to_num", 0), ("to_bytes", 0), ("to_code_points", 0), ("derives", 1)]),
        ("StringClass", "String", vec![("from", 1), ("from_ascii", 1), ("from_utf8", 1), ("from_code_points", 1)]),
        ("Tuple", "(1, 2, 3)", vec![("len", 0), ("iter", 0)]),
        ("Vec", "[1, 2, 3]", vec![("push", 1), ("pop", 0), ("len", 0), ("iter", 0)]),
        ("Range", "(0..3)", vec![("iter", 0)]),
        ("HashMap", "{1: 2, \"a\": 3}", vec![("has_key", 1), ("get", 1), ("insert", 2), ("remove", 1), ("clear", 0), ("len", 0), ("keys", 0), ("values", 0), ("items", 0)]),
        ("VecIter", "[1, 2].iter()", iter_methods.clone()),
        ("TupleIter", "(1, 2).iter()", iter_methods.clone()),
        ("RangeIter", "(0..2).iter()", iter_methods.clone()),
        ("StringIter", "\"ab\".iter()", iter_methods.clone()),
        ("MapIter", "[1, 2].iter().map(|e| e)", iter_methods.clone()),
        ("FilterIter", "[1, 2].iter().filter(|e| true)", iter_methods),
        ("FiberClass", "Fiber", vec![("new", 1), ("yield", 0), ("yield", 1)]),
        ("Fiber", "Fiber.new(|| 1)", vec![("call", 0), ("call", 1), ("has_finished", 0)]),
        ("ErrorClass", "Error", vec![("new", 1)]),
        ("StopIterClass", "StopIter", vec![("new", 0)]),
        ("Instance", "inst", vec![("derives", 1), ("m", 0)]),
        ("Num", "5", vec![("derives", 1)]),
        ("Class", "K", vec![("derives", 1), ("new", 0)]),
    ]
}

struct Case {
    family: &'static str,
    cell: String,
    source: String,
    derived_receiver: bool,
    /// the body is already a whole program (no try/catch wrapper added)
    raw: bool,
}

fn wrap(stmt: &str) -> String {
    format!("{}\ntry {{\n  {}\n  print(\"completed\");\n}} catch e {{\n  print(\"caught\");\n  print(type(e));\n}}\nprint(\"end\");\n", PRELUDE, stmt)
}

fn tuples(n: usize, k: usize) -> Vec<Vec<usize>> {
    let mut all = vec![vec![]];
    for _ in 0..k {
        let mut next = Vec::new();
        for t in &all {
            for i in 0..n {
                let mut v = t.clone();
                v.push(i);
                next.push(v);
            }
        }
        all = next;
    }
    all
}

fn cases(thorough: bool) -> Vec<Case> {
    let base_pool = pool();
    // in the native sweep the receiver is bound first, and the arguments may be the receiver itself or
    // hold it (a map inserted into itself, a vec pushed onto itself, an iterator mapped over itself, ...)
    let p: Vec<(&'static str, &'static str)> = base_pool.iter().cloned().chain([("the_receiver", "recv"), ("tuple_holding_the_receiver", "(1, recv)"), ("vec_holding_the_receiver", "[recv]")]).collect();
    let mut out = Vec::new();
    // (i) native sweep
    for (class, recv, methods) in natives() {
        for (m, arity) in &methods {
            for derived in [false, true] {
                if derived && ["StringClass", "FiberClass", "ErrorClass", "StopIterClass", "Instance", "Num", "Class"].contains(&class) {
                    continue;
                }
                let recv_expr = if derived { "X.new()".to_string() } else { recv.to_string() };
                let setup = if derived { format!("var D = type({});\n  #[constructor(new), derive(D)] class X {{}}\n  ", recv) } else { String::new() };
                // every argument tuple of the native's arity; plus one fewer and one more argument
                let mut arities = vec![*arity];
                if *arity > 0 {
                    arities.push(arity - 1);
                }
                arities.push(arity + 1);
                for (ai, a) in arities.iter().enumerate() {
                    // wrong argument counts are rejected before any argument is looked at: a spread of about
                    // sixty tuples per native is the whole behaviour
                    let tus: Vec<Vec<usize>> = if ai == 0 {
                        tuples(p.len(), *a)
                    } else {
                        let all = tuples(p.len(), *a);
                        let step = (all.len() / 60).max(1);
                        all.into_iter().step_by(step).collect()
                    };
                    // the quick tier takes every pair for two-argument natives on the proper receiver and a
                    // third of them on the derived receiver
                    for (ti, t) in tus.iter().enumerate() {
                        if !thorough && *a == 2 && derived && ti % 3 != 0 {
                            continue;
                        }
                        // receiver and arguments are bound once and the identical call is made twice on the
                        // same objects: a failed call must leave them untouched, so it fails the same way again
                        let binds: String = t.iter().enumerate().map(|(k, i)| format!("var a{} = {};\n", k, p[*i].1)).collect();
                        let names: Vec<String> = (0..t.len()).map(|k| format!("a{}", k)).collect();
                        let call = format!("recv.{}({})", m, names.join(", "));
                        let src = format!(
                            "{}\n{}var recv = nil;\ntry {{ recv = {}; }} catch e {{ print(\"receiver construction failed\"); }}\n{}var before = String.from([{}]);\ntry {{\n  var r = {};\n  print(\"completed\");\n}} catch e {{\n  print(\"caught\");\n  print(type(e));\n}}\nprint(String.from([{}]) == before);\ntry {{\n  var r = {};\n  print(\"completed\");\n}} catch e {{\n  print(\"caught\");\n  print(type(e));\n}}\nprint(\"end\");\n",
                            PRELUDE, setup.replace("\n  ", "\n"), recv_expr, binds, names.join(", "), call, names.join(", "), call
                        );
                        out.push(Case {
                            family: "native_sweep",
                            cell: format!("{}.{}/{} {}", class, m, a, t.iter().map(|i| p[*i].0).collect::<Vec<_>>().join(",")),
                            source: src,
                            derived_receiver: derived,
                            raw: false,
                        });
                    }
                }
            }
        }
    }
    // (i'') every native method taken as a value first - from a proper receiver and from an instance of a
    // class derived from the built-in class in the language - and called afterwards: through a variable,
    // through a field of another object, and as `super.m` taken as a value inside a method
    for (class, recv, methods) in natives() {
        if ["StringClass", "FiberClass", "ErrorClass", "StopIterClass", "Instance", "Num", "Class"].contains(&class) {
            continue;
        }
        let small = ["nil", "1", "\"s\"", "[1]", "(|| 1)"];
        for (m, arity) in &methods {
            let mut arg_tuples: Vec<Vec<&str>> = vec![vec![]];
            for _ in 0..*arity {
                arg_tuples = arg_tuples.into_iter().flat_map(|t| small.iter().map(move |v| { let mut u = t.clone(); u.push(*v); u })).collect();
            }
            for args in arg_tuples {
                for derived in [false, true] {
                    for how in ["variable", "field", "super value"] {
                        if how == "super value" && !derived {
                            continue;
                        }
                        let decl = if derived {
                            format!("var D = type({});\n#[constructor(new), derive(D)] class X {{\n  fn i(self) {{ var b = super.{}; return b({}); }}\n}}\nvar recv = X.new();\n", recv, m, args.join(", "))
                        } else {
                            format!("var recv = {};\n", recv)
                        };
                        let call = match how {
                            "variable" => format!("var b = recv.{}; var r = b({});", m, args.join(", ")),
                            "field" => format!("var holder = K.new(); holder.f = recv.{}; var r = holder.f({}); var r2 = (holder.f)({});", m, args.join(", "), args.join(", ")),
                            _ => "var r = recv.i();".to_string(),
                        };
                        out.push(Case { family: "native_taken_as_a_value", cell: format!("{}.{} {} {} ({})", class, m, if derived { "derived" } else { "proper" }, how, args.join(",")), source: wrap(&format!("{}{}", decl, call)), derived_receiver: derived, raw: false });
                    }
                }
            }
        }
    }
    // (i') every native reached through `super` from an instance method and from a static method of a class
    // derived from the built-in class: the receiver is then an instance of that class, or the class object
    for (class, recv, methods) in natives() {
        if ["StringClass", "FiberClass", "ErrorClass", "StopIterClass", "Instance", "Num", "Class"].contains(&class) {
            continue;
        }
        let small = ["nil", "1", "\"s\"", "[1]", "(|| 1)"];
        for (m, arity) in &methods {
            let params: Vec<String> = (0..*arity).map(|k| format!("p{}", k)).collect();
            let mut arg_tuples: Vec<Vec<&str>> = vec![vec![]];
            for _ in 0..*arity {
                arg_tuples = arg_tuples.into_iter().flat_map(|t| small.iter().map(move |v| { let mut u = t.clone(); u.push(*v); u })).collect();
            }
            for args in arg_tuples {
                for via in ["instance", "static"] {
                    let decl = format!(
                        "var D = type({});\n#[constructor(new), derive(D)] class X {{\n  fn i(self{}{}) {{ return super.{}({}); }}\n  #[static] fn s({}) {{ return super.{}({}); }}\n}}\n",
                        recv, if params.is_empty() { "" } else { ", " }, params.join(", "), m, params.join(", "), params.join(", "), m, params.join(", ")
                    );
                    let call = if via == "instance" { format!("X.new().i({})", args.join(", ")) } else { format!("X.s({})", args.join(", ")) };
                    out.push(Case { family: "native_through_super", cell: format!("{}.{} via {} ({})", class, m, via, args.join(",")), source: wrap(&format!("{}var r = {};", decl, call)), derived_receiver: true, raw: false });
                }
            }
        }
    }
    let p = base_pool;
    for (name, e) in &p {
        // global natives
        for f in ["type", "print", "clock"] {
            for extra in ["", ", 1"] {
                out.push(Case { family: "global_native", cell: format!("{}({}{})", f, name, extra), source: wrap(&format!("var r = {}({}{});", f, e, extra)), derived_receiver: false, raw: false });
            }
        }
        // (ii) operator-like constructs on every pool value
        let forms: Vec<(&str, String)> = vec![
            ("call0", format!("var r = ({})();", e)),
            ("call1", format!("var r = ({})(1);", e)),
            ("call2", format!("var r = ({})(1, 2);", e)),
            ("get_property", format!("var r = ({}).some_property;", e)),
            ("set_property", format!("({}).some_property = 1;", e)),
            ("invoke_unknown", format!("({}).no_such_method(1);", e)),
            ("throw", format!("throw {};", e)),
            ("for_over", format!("var n = 0; for x in {} {{ n = n + 1; if n > 5 {{ break; }} }}", e)),
            ("inherit_from", format!("var S = {}; #[derive(S)] class Sub {{}}", e)),
            ("negate", format!("var r = -({});", e)),
            ("bit_not", format!("var r = ~({});", e)),
            ("not", format!("var r = !({});", e)),
            ("interpolate", format!("var r = \"${{{}}}\";", e)),
            ("print", format!("print({});", e)),
            ("map_key", format!("var r = {{({}): 1}};", e)),
            ("range_from", format!("var r = ({})..3;", e)),
            ("range_to", format!("var r = 0..({});", e)),
            ("type_derives", format!("var r = ({}).derives(type({}));", e, e)),
            ("fiber_new", format!("var r = Fiber.new({}).call();", e)),
            ("string_from", format!("var r = String.from({});", e)),
        ];
        for (fname, stmt) in forms {
            out.push(Case { family: "operator_sweep", cell: format!("{} {}", fname, name), source: wrap(&stmt), derived_receiver: false, raw: false });
        }
        for (name2, e2) in &p {
            for (fname, stmt) in [
                ("index", format!("var r = ({})[{}];", e, e2)),
                ("set_index", format!("var t = {}; t[{}] = 1;", e, e2)),
                ("equal", format!("var r = ({}) == ({});", e, e2)),
                ("add", format!("var r = ({}) + ({});", e, e2)),
                ("shift", format!("var r = ({}) << ({});", e, e2)),
                ("modulo", format!("var r = ({}) % ({});", e, e2)),
            ] {
                out.push(Case { family: "operator_sweep_pairs", cell: format!("{} {} {}", fname, name, name2), source: wrap(&stmt), derived_receiver: false, raw: false });
            }
        }
    }
    // slices with every pair of interesting bounds on every sliceable kind
    let bounds = ["0", "1", "-1", "3", "4", "-4", "9223372036854775808", "-9223372036854775808"];
    for recv in ["\"a\u{e9}b\"", "[1, 2, 3]", "(1, 2, 3)"] {
        for b in bounds {
            for e in bounds {
                out.push(Case { family: "slice_bounds", cell: format!("{}[{}..{}]", recv, b, e), source: wrap(&format!("var r = {}[({})..({})];", recv, b, e)), derived_receiver: false, raw: false });
            }
        }
    }
    // (iii) resource grid: call depth x frame width
    for depth in [1usize, 10, 50, 62, 63, 64, 65, 70] {
        for width in [1usize, 8, 64, 200, 250] {
            let locals: String = (0..width).map(|i| format!("var l{} = n;", i)).collect();
            let src = format!("fn rec(n) {{ {} if n > 0 {{ return rec(n - 1) + 1; }} return 0; }}\ntry {{ print(rec({})); }} catch e {{ print(type(e)); }}\nprint(\"end\");\n", locals, depth);
            out.push(Case { family: "resource_depth_x_width", cell: format!("depth {} width {}", depth, width), source: src, derived_receiver: false, raw: true });
        }
        // wide temporaries instead of locals: a long argument list evaluated at every level
        let args: String = (0..200).map(|_| "n").collect::<Vec<_>>().join(", ");
        let params: String = (0..200).map(|i| format!("p{}", i)).collect::<Vec<_>>().join(", ");
        let src = format!("fn w({}) {{ return p0; }}\nfn rec(n) {{ if n > 0 {{ return w({}) + rec(n - 1); }} return 0; }}\ntry {{ print(rec({})); }} catch e {{ print(type(e)); }}\nprint(\"end\");\n", params, args, depth);
        out.push(Case { family: "resource_depth_x_width", cell: format!("depth {} wide call", depth), source: src, derived_receiver: false, raw: true });
    }
    // nesting ladders: print, ==, hashing, iteration, dropping.  On the checked runner (a collection at
    // every allocation makes building quadratic) up to 10^4; deeper ones run in `deep_nesting_cases`.
    for n in [10usize, 100, 1000, 10000] {
        for (what, build, use_) in nesting_shapes() {
            // a fiber owns a value stack of 256 KiB: chains of them are kept short
            if what == "nested_fiber_chain" && n > 1000 {
                continue;
            }
            let src = format!("{}\n{}\nprint(\"end\");\n", build.replace("@N@", &n.to_string()), use_);
            out.push(Case { family: "resource_nesting", cell: format!("{} depth {}", what, n), source: src, derived_receiver: false, raw: false });
        }
    }
    // error reports: every uncaught-error program of C17's generator (call chains over eight link kinds,
    // twelve failing statements, earlier handled exceptions in every active frame, errors through finally
    // blocks) - building the report must not panic
    for (i, src) in crate::c17::sources_for_c02().into_iter().enumerate() {
        out.push(Case { family: "error_reports", cell: format!("C17 program {}", i), source: src, derived_receiver: false, raw: true });
    }
    // every program of the other properties' generators: whatever a program means, running it never panics
    // (stack discipline of loop exits through try statements, closures, classes, iteration)
    {
        use crate::ast::print_program;
        let quick_stride = |n: usize| if thorough { 1 } else { n };
        let mut k = 0usize;
        let mut add = |family: &'static str, srcs: Vec<String>, stride: usize, out: &mut Vec<Case>| {
            for (i, src) in srcs.into_iter().enumerate() {
                if i % stride == 0 {
                    out.push(Case { family, cell: format!("{} {}", family, k), source: src, derived_receiver: false, raw: true });
                    k += 1;
                }
            }
        };
        add("loop_exits_at_script_level_repeated", crate::c08::script_level_repeated(), 1, &mut out);
        add("programs_of_C08", crate::c08::cases_for_c04(false).iter().map(|c| print_program(&c.prog, false)).collect(), 1, &mut out);
        add("programs_of_C06", crate::c06::cases_for_c04(false).iter().map(|c| print_program(&c.prog, false)).collect(), 1, &mut out);
        add("programs_of_C18", crate::c18::cases_for_c04(false).iter().map(|c| print_program(&c.prog, false)).collect(), 1, &mut out);
        add("programs_of_C07", crate::c07::cases_all(false).iter().map(|c| print_program(&c.prog, false)).collect(), quick_stride(5), &mut out);
        add("programs_of_C05", crate::c05::cases_for_c04(false).iter().map(|c| print_program(&c.prog, false)).collect(), quick_stride(5), &mut out);
    }
    // self-containing data, borrow conflicts, mutation during iteration
    for (cell, body) in [
        ("print self-containing vec", "var a = []; a.push(a); print(a);"),
        ("self-containing vec equals itself", "var a = []; a.push(a); print(a == a);"),
        ("two distinct self-containing vecs compared", "var a = []; a.push(a); var b = []; b.push(b); print(a == b);"),
        ("map containing itself", "var m = {}; m.insert(1, m); print(m); print(m == m);"),
        ("two distinct self-containing maps compared", "var m = {}; m.insert(1, m); var n = {}; n.insert(1, n); print(m == n);"),
        ("tuple containing a vec containing the tuple", "var v = []; var t = (v,); v.push(t); print(t); print({t: 1}.len());"),
        ("tuple cycle as map key lookup", "var v = []; var t = (v, 1); v.push(t); var m = {}; m.insert(1, 2); print(m.has_key(t));"),
        ("vec pushed into itself twice", "var v = [1]; v.push(v); v.push(v); print(v.len()); print(v);"),
        ("pop during iteration", "var v = [1, 2, 3]; for x in v { v.pop(); } print(v);"),
        ("push during iteration", "var v = [1]; var n = 0; for x in v { n = n + 1; if n < 50 { v.push(x); } } print(v.len());"),
        ("clear map during items iteration", "var m = {1: 2, 3: 4}; for it in m.items() { m.clear(); } print(m.len());"),
        ("instance field holding itself", "var k = K.new(); k.me = k; print(type(k.me.me.me));"),
        ("method stored in own field then invoked", "var k = K.new(); k.m = k.m; print(k.m());"),
        ("class redefined while instances live", "var k = K.new(); class K { fn m(self) { return 2; } } print(k.m());"),
        ("modify vec inside its own map callback", "var v = [1, 2, 3]; print(v.iter().map(|e| { v.push(e); return e; }).collect().len() > 0);"),
        ("iterator over a vec that is then dropped", "var it = [1, 2, 3].iter(); var junk = [[1], [2]]; print(it.next());"),
        ("very long string concatenation", "var s = \"ab\"; for i in 0..18 { s = s + s; } print(s.len());"),
        ("string iteration while building strings", "var n = 0; for c in \"a\u{e9}\u{20ac}\" { n = n + (c + c).len(); } print(n);"),
        ("deep recursion through a method and a closure", "class R { #[static] fn go(n) { if n == 0 { return 0; } return (|| Self.go(n - 1))() + 1; } } try { print(R.go(40)); } catch e { print(type(e)); }"),
        ("uncaught error at the frame limit", "fn rec(n) { return rec(n + 1); } rec(0);"),
        ("uncaught error inside nested fibers", "var f = Fiber.new(|| { var g = Fiber.new(|| { [][0]; }); g.call(); }); f.call();"),
        ("yield from a fiber called by a fiber that is then resumed by main", "var inner = Fiber.new(|| { Fiber.yield(1); Fiber.yield(2); }); var outer = Fiber.new(|| { print(inner.call()); Fiber.yield(9); print(inner.call()); }); outer.call(); print(inner.call()); outer.call();"),
        ("import of a module that imports itself", "import \"selfish\";"),
    ] {
        let src = format!("{}\n{}\nprint(\"end\");\n", PRELUDE, body);
        out.push(Case { family: "self_reference_and_mutation", cell: cell.to_string(), source: src, derived_receiver: false, raw: true });
    }
    out
}

fn nesting_shapes() -> Vec<(&'static str, &'static str, &'static str)> {
    vec![
        ("nested_vec_print", "var v = []; for i in 0..@N@ { v = [v]; }", "var t = String.from(v); print(t.len());"),
        ("nested_vec_equal", "var v = []; var w = []; for i in 0..@N@ { v = [v]; w = [w]; }", "print(v == w);"),
        ("nested_tuple_hash", "var v = (1,); for i in 0..@N@ { v = (v,); }", "var m = {v: 1}; print(m.len());"),
        ("nested_map_print", "var v = {}; for i in 0..@N@ { v = {1: v}; }", "var t = String.from(v); print(t.len());"),
        ("nested_instances", "#[constructor(new)] class Node {} var v = Node.new(); for i in 0..@N@ { var nn = Node.new(); nn.next = v; v = nn; }", "print(type(v));"),
        ("nested_closures", "var v = || 0; for i in 0..@N@ { var prev = v; v = || prev; }", "print(type(v));"),
        ("nested_drop", "var v = []; for i in 0..@N@ { v = [v]; }", "v = nil; var g = [[1], [2]]; print(g);"),
        ("nested_fiber_chain", "var v = Fiber.new(|| 0); for i in 0..@N@ { var prev = v; v = Fiber.new(|| prev); }", "print(type(v));"),
        ("nested_iterators", "var v = [1].iter(); for i in 0..@N@ { v = v.map(|e| e); }", "print(type(v));"),
        // chains of *small* objects (a pair, a tuple iterator over a one-element tuple, a bound method of the
        // previous link): whatever the collector does differently for small objects, it does at every link
        ("chain_of_pairs", "var v = nil; for i in 0..@N@ { v = (i, v); }", "var n = 0; var p = v; while p != nil { n += 1; p = p[1]; } print(n);"),
        ("chain_of_tuple_iterators", "var v = (1,).iter(); for i in 0..@N@ { v = (v,).iter(); }", "print(type(v));"),
        ("chain_of_bound_methods", "var v = [1].len; for i in 0..@N@ { v = [v].len; }", "print(type(v));"),
    ]
}

/// Data nested 10^5 levels and deeper, on the optimised runner (collections paced by the threshold) and
/// on a thread with the 8 MiB stack of an ordinary main thread: whatever recurses over the nesting
/// depth - tracing, printing, comparing, hashing, dropping - meets the limit a normal embedding has.
/// The operand stack at its limit, one slot at a time.  Every level of `f` keeps 2 x 254 pending tuple
/// elements on the stack while it calls the next level; the deepest level adds k more (0..=762, as pending
/// elements of nested vec literals).  With depths 30, 31 and 32 the peak height sweeps a contiguous window
/// of about 1 800 slots around the 16 384 a fiber's stack holds, so the program that fills the stack
/// exactly, the one that is one short and the one that is one over are all among them, wherever exactly
/// the interpreter draws the line.  (cell, source) pairs; also run by C10 on every build configuration.
pub fn operand_stack_boundary_sources() -> Vec<(String, String)> {
    let nils = |n: usize| vec!["nil"; n].join(", ");
    let lit = |n: usize, inner: &str| -> String {
        match (n, inner.is_empty()) {
            (0, true) => "[]".to_string(),
            (0, false) => format!("[{}]", inner),
            (_, true) => format!("[{}]", nils(n)),
            (_, false) => format!("[{}, {}]", nils(n), inner),
        }
    };
    let mut out = Vec::new();
    for (depth, in_fiber) in [(30usize, false), (31, false), (32, false), (31, true)] {
        for k in 0..=762usize {
            let a = k.min(254);
            let b = (k - a).min(254);
            let m = k - a - b;
            let bottom = lit(a, &lit(b, &lit(m, "")));
            let start = if in_fiber { "Fiber.new(go).call();" } else { "go();" };
            let src = format!(
                "fn f(n) {{\n  if n == 0 {{\n    return {};\n  }}\n  return ({}, ({}, f(n - 1)));\n}}\nfn go() {{\n  try {{\n    var t = f({});\n    print(\"completed\");\n  }} catch e {{\n    print(type(e));\n    print(e.context);\n  }}\n}}\n{}\nprint(\"done\");\n",
                bottom,
                nils(254),
                nils(254),
                depth,
                start
            );
            out.push((format!("depth {} extra {}{}", depth, k, if in_fiber { " in a fiber" } else { "" }), src));
        }
    }
    out
}

/// runs the boundary sweep: every program ends normally, having printed either `completed` or the
/// IndexError `Stack overflow.` its handler caught; and once a program overflows, every program of the same
/// depth with more pending values does too
fn operand_stack_boundary(ctx: &Ctx, active: &[Finding]) -> (usize, Vec<(String, serde_json::Value)>, BTreeMap<String, usize>) {
    let cases = operand_stack_boundary_sources();
    let n = cases.len();
    let results = par_map(&ctx.runner_checked, ctx.workers, cases.into_iter(), |runner, _i, (cell, src)| {
        runner.timeout = std::time::Duration::from_secs(60);
        let mut run = |runner: &mut crate::pool::Runner| -> (Option<String>, String) {
            let mut req = Request { op: "run".into(), snippets: vec![src.clone()], fuel: Some(50_000_000), ..Default::default() };
            match runner.call(&mut req) {
                Obs::Resp(r) => match r.results.get(0) {
                    Some(res) => {
                        let out: Vec<&str> = res.out.iter().map(|s| s.as_str()).collect();
                        match (&res.outcome, out.as_slice()) {
                            (proto::Outcome::Ok, ["completed", "done"]) => (None, "completed".into()),
                            (proto::Outcome::Ok, ["<class IndexError>", "Stack overflow.", "done"]) => (None, "overflow reported".into()),
                            (proto::Outcome::Panic { msg }, _) => (Some(format!("interpreter panicked: {}", msg)), "panic".into()),
                            (o, _) => (Some(format!("printed {:?} and ended with {:?}", out, o)), "other".into()),
                        }
                    }
                    None => (Some("no result".into()), "none".into()),
                },
                other => (Some(format!("run ended in {}", other.describe())), "crash".into()),
            }
        };
        let (mut problem, class) = run(runner);
        if problem.is_some() {
            let (again, _) = run(runner);
            if again.is_none() {
                problem = Some(format!("{} (and nothing wrong when run again)", problem.unwrap()));
            }
        }
        (cell, src, problem, class)
    });
    let _ = active;
    let mut violations = Vec::new();
    let mut hist: BTreeMap<String, usize> = BTreeMap::new();
    let mut overflowed: BTreeMap<String, usize> = BTreeMap::new();
    for (cell, src, problem, class) in results {
        *hist.entry(class.clone()).or_insert(0) += 1;
        // "depth D extra K[ in a fiber]"
        let parts: Vec<&str> = cell.split(' ').collect();
        let series = format!("{} {}", parts[1], parts.get(4).map(|_| "fiber").unwrap_or("main"));
        let k: usize = parts[3].parse().unwrap_or(0);
        if let Some(p) = problem {
            violations.push((format!("[operand_stack_boundary: {}] {}", cell, p), json!({"family": "operand_stack_boundary", "cell": cell, "request": {"op": "run", "snippets": [src]}, "runner": "checked", "problem": p})));
            continue;
        }
        if class == "overflow reported" {
            overflowed.entry(series).or_insert(k);
        } else if let Some(first) = overflowed.get(&series) {
            // (results arrive in ascending k within a series)
            if k > *first {
                let p = format!("the program with {} extra pending values completed although the one with {} overflowed", k, first);
                violations.push((format!("[operand_stack_boundary: {}] {}", cell, p), json!({"family": "operand_stack_boundary", "cell": cell, "request": {"op": "run", "snippets": [src]}, "runner": "checked", "problem": p})));
            }
        }
    }
    (n, violations, hist)
}


/// The overflow of the operand stack met exactly where a new frame is entered, and *not caught*: the error
/// report (class, message, one trace entry per active call) must be made without a panic whatever the
/// frame and instruction the overflow was noticed at.  For each construct that pushes values and enters a
/// frame without an instruction of the caller in between - a plain call, an import (the module body), a for
/// loop over a user-defined iterable (`iter`, `next`), a constructor, a method, a library function that calls
/// back, a fiber - the number of pending values at the bottom of a 31-level recursion is first bisected for
/// the point where the program starts to overflow (wherever the interpreter draws that line), then every
/// count within 20 of it is run.
/// The repository's own command-line host.  `yarel-cli` gives programs one native of its own,
/// `read_file_to_string`, and runs them from a file or line by line.  Every tuple of 0-2 arguments from a pool
/// (nil, numbers, strings naming a file, no file, a directory, a file that is not text, the empty string;
/// containers; a class; the function itself) reaches that native by six routes (called directly, through a
/// variable, through a field of an instance, through a vec element, as a map callback, inside a fiber), handled
/// and not handled, as a script and typed into the REPL: the process never panics or dies of a signal - it
/// ends with one of the host's own exit codes (0, 65, 70) and never mentions a panic.
fn command_line_host(ctx: &Ctx) -> (usize, Vec<(String, serde_json::Value)>) {
    let dir = crate::cli::scratch_dir(ctx, "c02");
    let _ = std::fs::write(dir.join("text.txt"), b"some text\n");
    let _ = std::fs::write(dir.join("bytes.bin"), [0xffu8, 0xfe, 0x00, 0x80]);
    let _ = std::fs::create_dir_all(dir.join("a_directory"));
    let pool = ["nil", "0", "-1", "1.5", "\"text.txt\"", "\"no_such_file.txt\"", "\"a_directory\"", "\"bytes.bin\"", "\"\"", "\"text.txt\\0\"", "[\"text.txt\"]", "(\"text.txt\",)", "{\"text.txt\": 1}", "String", "read_file_to_string", "|| \"text.txt\""];
    let mut tuples: Vec<Vec<&str>> = vec![vec![]];
    for a in pool {
        tuples.push(vec![a]);
    }
    for a in pool {
        for b in ["nil", "\"text.txt\"", "0"] {
            tuples.push(vec![a, b]);
        }
    }
    let mut cases: Vec<(String, bool)> = Vec::new();
    for t in &tuples {
        let args = t.join(", ");
        let routes: Vec<String> = vec![
            format!("print(read_file_to_string({}));", args),
            format!("var f = read_file_to_string; print(f({}));", args),
            format!("#[constructor(new)] class Box {{}} var b = Box.new(); b.read = read_file_to_string; print(b.read({}));", args),
            format!("var v = [read_file_to_string]; print(v[0]({}));", args),
        ];
        for r in routes {
            for handled in [true, false] {
                let line = if handled { format!("try {{ {} }} catch e {{ print(type(e)); print(e.context); }} print(\"still running\");", r) } else { format!("{} print(\"still running\");", r) };
                cases.push((line, handled));
            }
        }
        // inside a fiber (an exception does not cross into the calling fiber, so the handler sits inside)
        cases.push((format!("Fiber.new(|| {{ try {{ print(read_file_to_string({})); }} catch e {{ print(type(e)); print(e.context); }} }}).call(); print(\"still running\");", args), true));
        cases.push((format!("print(Fiber.new(|| read_file_to_string({})).call()); print(\"still running\");", args), false));
        if t.len() == 1 {
            for handled in [true, false] {
                let r = format!("print([{}].iter().map(read_file_to_string).collect());", t[0]);
                let line = if handled { format!("try {{ {} }} catch e {{ print(type(e)); print(e.context); }} print(\"still running\");", r) } else { r };
                cases.push((line, handled));
            }
        }
    }
    let n = cases.len() * 2;
    let mut violations = Vec::new();
    let results = crate::pool::par_map_plain(ctx.workers.min(8), cases.into_iter().enumerate(), |(i, (line, handled))| {
        let sub = dir.join(format!("w{}", i % 64));
        let _ = std::fs::create_dir_all(&sub);
        let mut problems: Vec<(String, serde_json::Value)> = Vec::new();
        // as a script (run in the scratch directory, the script in a worker directory of its own)
        let script = sub.join(format!("probe{}.yl", i));
        let _ = std::fs::write(&script, format!("{}\n", line));
        let rel = format!("w{}/probe{}.yl", i % 64, i);
        let r = crate::cli::run(ctx, &dir, &[rel.as_str()], None);
        let bad = |r: &crate::cli::CliRun, codes: &[i32]| -> Option<String> {
            if r.timed_out {
                return Some("did not end".into());
            }
            match r.code {
                None => Some(format!("killed by a signal; stderr {:?}", r.stderr.chars().take(300).collect::<String>())),
                Some(c) if !codes.contains(&c) || r.stderr.contains("panicked at") => Some(format!("exit code {}; stderr {:?}", c, r.stderr.chars().take(300).collect::<String>())),
                _ => None,
            }
        };
        if let Some(p) = bad(&r, &[0, 65, 70]).or_else(|| if handled && !r.stdout.ends_with("still running\n") { Some(format!("the handled call did not let the program go on: printed {:?}, stderr {:?}, exit {:?}", r.stdout, r.stderr.chars().take(300).collect::<String>(), r.code)) } else { None }) {
            problems.push((format!("[command-line host, script] {}: {}", line, p), json!({"family": "command_line_host", "cli_script": format!("{}\n", line), "problem": p})));
        }
        let _ = std::fs::remove_file(&script);
        // typed into the REPL, followed by another line
        let input = format!("{}\nprint(\"next line\");\n", line);
        let r = crate::cli::run(ctx, &dir, &[], Some(&input));
        if let Some(p) = bad(&r, &[0]).or_else(|| if !r.stdout.contains("next line") { Some(format!("the REPL did not run the next line: printed {:?}, stderr {:?}", r.stdout, r.stderr.chars().take(300).collect::<String>())) } else { None }) {
            problems.push((format!("[command-line host, REPL] {}: {}", line, p), json!({"family": "command_line_host", "cli_stdin": input, "problem": p})));
        }
        problems
    });
    for p in results {
        violations.extend(p);
    }
    (n, violations)
}

fn uncaught_overflow_at_frame_entry(ctx: &Ctx) -> (usize, Vec<(String, serde_json::Value)>) {
    let nils = |n: usize| vec!["nil"; n].join(", ");
    let leaves: Vec<(&'static str, &'static str, &'static str)> = vec![
        ("plain call", "fn leaf() { return 0; }\n", "leaf()"),
        ("import", "fn leaf() { import \"zz_ok\"; return 0; }\n", "leaf()"),
        ("import at the level itself", "", "(|| { import \"zz_ok\"; return 0; })()"),
        ("for over a user-defined iterable", "#[constructor(new)]\nclass It { fn iter(self) { return self; } fn next(self) { return StopIter.new(); } }\nvar it = It.new();\nfn leaf() { for x in it { } return 0; }\n", "leaf()"),
        ("constructor", "class K { #[constructor] fn new(self, a) { self.a = a; } fn m(self) { return self.a; } }\nfn leaf() { return K.new(1); }\n", "leaf()"),
        ("method of a fresh instance", "class K { #[constructor] fn new(self, a) { self.a = a; } fn m(self) { return self.a; } }\nfn leaf() { return K.new(1).m(); }\n", "leaf()"),
        ("library function calling back", "fn leaf() { return [1, 2].iter().map(|e| e + 1).collect(); }\n", "leaf()"),
        ("fiber", "fn leaf() { return Fiber.new(|| 5).call(); }\n", "leaf()"),
        ("string interpolation of a call", "fn one() { return 1; }\nfn leaf() { return \"a${one()}b${one()}\"; }\n", "leaf()"),
    ];
    let source = |decl: &str, call: &str, k: usize| -> String {
        let a = k.min(254);
        let b = (k - a).min(254);
        let m = k - a - b;
        // k pending values (three nested literals) around the leaf's call
        let inner = if m > 0 { format!("[{}, {}]", nils(m), call) } else { format!("[{}]", call) };
        let mid = if b > 0 { format!("[{}, {}]", nils(b), inner) } else { format!("[{}]", inner) };
        let bottom = if a > 0 { format!("[{}, {}]", nils(a), mid) } else { format!("[{}]", mid) };
        format!("{}fn f(n) {{\n  if n == 0 {{\n    return {};\n  }}\n  return ({}, ({}, f(n - 1)));\n}}\nvar t = f(31);\nprint(\"completed\");\n", decl, bottom, nils(254), nils(254))
    };
    let n_leaves = leaves.len();
    let results = par_map(&ctx.runner_checked, ctx.workers.min(n_leaves), leaves.into_iter(), |runner, _i, (name, decl, call)| {
        runner.timeout = std::time::Duration::from_secs(60);
        let mut modules = BTreeMap::new();
        modules.insert("zz_ok".to_string(), "var ok = 1;\n".to_string());
        let mut runs = 0usize;
        let mut violations: Vec<(String, serde_json::Value)> = Vec::new();
        // 0 = completed, 1 = overflow reported, 2 = something else (a violation)
        let mut probe = |runner: &mut crate::pool::Runner, k: usize, violations: &mut Vec<(String, serde_json::Value)>| -> u8 {
            let src = source(decl, call, k);
            let mut req = Request { op: "run".into(), snippets: vec![src.clone()], modules: modules.clone(), fuel: Some(50_000_000), ..Default::default() };
            let obs = runner.call(&mut req);
            let (class, problem): (u8, Option<String>) = match &obs {
                Obs::Resp(r) => match r.results.get(0) {
                    Some(res) => match &res.outcome {
                        proto::Outcome::Ok if res.out == vec!["completed".to_string()] => (0, None),
                        proto::Outcome::Err { kind, messages } if kind == "IndexError" && messages.first().map(|m| m == "Unhandled IndexError: Stack overflow.").unwrap_or(false) && messages.len() >= 2 && messages[1..].iter().all(|m| m.starts_with("[module \"")) => (1, None),
                        proto::Outcome::Panic { msg } => (2, Some(format!("interpreter panicked while reporting an uncaught stack overflow: {}", msg))),
                        o => (2, Some(format!("printed {:?} and ended with {:?}", res.out, o))),
                    },
                    None => (2, Some("no result".into())),
                },
                other => (2, Some(format!("run ended in {}", other.describe()))),
            };
            if let Some(p) = problem {
                violations.push((format!("[uncaught_overflow_at_frame_entry: {}, {} pending values] {}", name, k, p), json!({"family": "uncaught_overflow_at_frame_entry", "cell": format!("{} {}", name, k), "request": {"op": "run", "snippets": [src], "modules": modules}, "runner": "checked", "problem": p})));
            }
            class
        };
        // bisect for the first k that does not complete
        let (mut lo, mut hi) = (0usize, 762usize);
        runs += 2;
        let c_lo = probe(runner, lo, &mut violations);
        let c_hi = probe(runner, hi, &mut violations);
        let mut boundary: Option<usize> = None;
        if c_lo == 0 && c_hi != 0 {
            while hi - lo > 1 {
                let mid = (lo + hi) / 2;
                runs += 1;
                if probe(runner, mid, &mut violations) == 0 {
                    lo = mid;
                } else {
                    hi = mid;
                }
            }
            boundary = Some(hi);
            let from = hi.saturating_sub(20);
            let mut seen_overflow = false;
            for k in from..=(hi + 20).min(762) {
                runs += 1;
                let c = probe(runner, k, &mut violations);
                if c == 1 {
                    seen_overflow = true;
                } else if c == 0 && seen_overflow {
                    violations.push((format!("[uncaught_overflow_at_frame_entry: {}] the program with {} pending values completed although one with fewer overflowed", name, k), json!({"family": "uncaught_overflow_at_frame_entry", "cell": format!("{} {}", name, k), "problem": "not monotone"})));
                }
            }
        }
        (name, boundary, runs, violations)
    });
    let mut n = 0;
    let mut violations = Vec::new();
    for (name, boundary, runs, v) in results {
        n += runs;
        if boundary.is_none() && v.is_empty() {
            crate::pool::machinery_failure(&format!("C02: the sweep `{}` never reached the operand stack's limit (vacuous)", name));
        }
        // one artefact per distinct problem text is enough
        let mut seen = std::collections::HashSet::new();
        for (d, a) in v {
            let key = a.get("problem").map(|p| p.to_string()).unwrap_or_default();
            if seen.insert(key) {
                violations.push((d, a));
            }
        }
    }
    (n, violations)
}

fn deep_nesting_cases(thorough: bool) -> Vec<Case> {
    let mut out = Vec::new();
    let depths: Vec<usize> = if thorough { vec![30_000, 100_000, 200_000, 1_000_000] } else { vec![100_000, 200_000] };
    for n in depths {
        for (what, build, use_) in nesting_shapes() {
            if what == "nested_fiber_chain" {
                continue;
            }
            let src = format!("{}\n{}\nprint(\"end\");\n", build.replace("@N@", &n.to_string()), use_);
            out.push(Case { family: "resource_deep_nesting_on_an_ordinary_stack", cell: format!("{} depth {}", what, n), source: src, derived_receiver: false, raw: false });
        }
    }
    // the shapes that only the collector (and dropping) walks, two and four million links long: nothing of
    // that may depend on the host stack
    for n in if thorough { vec![2_000_000usize, 4_000_000] } else { vec![2_000_000usize] } {
        for (what, build, use_) in nesting_shapes() {
            if !(what.starts_with("chain_of_") || (thorough && ["nested_instances", "nested_closures", "nested_drop"].contains(&what))) {
                continue;
            }
            let src = format!("{}\n{}\nprint(\"end\");\n", build.replace("@N@", &n.to_string()), use_);
            out.push(Case { family: "resource_deep_nesting_on_an_ordinary_stack", cell: format!("{} depth {}", what, n), source: src, derived_receiver: false, raw: false });
        }
    }
    out
}

#[derive(Default)]
struct Acc {
    evaluations: usize,
    cells: BTreeSet<String>,
    outcomes: BTreeMap<String, usize>,
    by_family: BTreeMap<String, usize>,
    violations: Vec<(String, serde_json::Value)>,
    attributed: BTreeMap<String, usize>,
    samples: Vec<serde_json::Value>,
    unstable: Vec<String>,
}

fn attribute(c: &Case, problem: &str, active: &[Finding]) -> Option<String> {
    let has = |id: &str| active.iter().any(|f| f.id == id);
    if c.derived_receiver && problem.contains("Expected Obj") && has("KF-C02-01") {
        return Some("KF-C02-01".into());
    }
    if (c.cell.starts_with("two distinct self-containing") || c.cell == "tuple cycle as map key lookup") && (problem.contains("CRASH") || problem.contains("overflow")) && has("KF-C02-02") {
        return Some("KF-C02-02".into());
    }
    // printing, comparing and hashing recurse over the nesting depth of the data
    let recursing = ["nested_vec_print", "nested_vec_equal", "nested_tuple_hash", "nested_map_print"].iter().any(|s| c.cell.starts_with(s));
    if c.family == "resource_deep_nesting_on_an_ordinary_stack" && recursing && problem.contains("CRASH") && has("KF-C02-03") {
        return Some("KF-C02-03".into());
    }
    None
}

pub fn run(ctx: &Ctx) -> Report {
    let mut report = Report::new();
    let active = active_findings(ctx, &mut report);
    let all = cases(ctx.thorough());
    let n = all.len();
    let mut modules = BTreeMap::new();
    modules.insert("selfish".to_string(), "import \"selfish\";\n".to_string());
    let modules_ref = &modules;
    let active_ref = &active;
    let judge = |runner: &mut crate::pool::Runner, i: usize, c: Case, stack_kb: Option<usize>| -> Acc {
        runner.timeout = std::time::Duration::from_secs(if stack_kb.is_some() { 120 } else { 40 });
        let mut acc = Acc::default();
        acc.evaluations += 1;
        acc.cells.insert(c.cell.clone());
        *acc.by_family.entry(c.family.to_string()).or_insert(0) += 1;
        let run = |runner: &mut crate::pool::Runner| -> (Obs, Option<String>, String) {
            let mut req = Request { op: "run".into(), snippets: vec![c.source.clone()], modules: modules_ref.clone(), fuel: if stack_kb.is_some() { None } else { Some(30_000_000) }, stack_kb, ..Default::default() };
            let obs = runner.call(&mut req);
            let (problem, class) = match &obs {
                Obs::Resp(r) => match r.results.get(0) {
                    Some(res) => match &res.outcome {
                        proto::Outcome::Panic { msg } => (Some(format!("interpreter panicked: {}", msg)), "PANIC".to_string()),
                        proto::Outcome::Ok if c.family == "native_sweep" && res.out.first().map(|l| l == "caught").unwrap_or(false) && !(res.out.len() >= 5 && res.out[2] == "true" && res.out[3] == "caught" && res.out[4] == res.out[1]) => {
                            (Some(format!("a failed built-in call is not repeatable on the same objects (first attempt, arguments unchanged?, second attempt): {:?}", res.out)), "not repeatable".into())
                        }
                        proto::Outcome::Ok => {
                            // a caught failure must be an error instance or a thrown value of the program
                            let caught = res.out.iter().position(|l| l == "caught");
                            match caught {
                                Some(k) if !c.raw && !c.source.contains("throw ") => {
                                    let ty = res.out.get(k + 1).cloned().unwrap_or_default();
                                    let ok = ["<class AttributeError>", "<class IndexError>", "<class ImportError>", "<class NameError>", "<class RuntimeError>", "<class TypeError>", "<class ValueError>"].contains(&ty.as_str());
                                    if ok {
                                        (None, format!("caught {}", ty))
                                    } else {
                                        (Some(format!("a failing built-in operation delivered a value of class {} to the handler", ty)), "bad caught".into())
                                    }
                                }
                                _ => (None, "ok".to_string()),
                            }
                        }
                        proto::Outcome::Err { kind, messages } => {
                            if messages.is_empty() {
                                (Some("error without a message".to_string()), "bad err".into())
                            } else if !c.raw && !messages[0].contains("verif: fuel") {
                                // the sweep wraps every call in try/catch: nothing should escape it
                                (Some(format!("error of kind {} escaped the enclosing handler: {:?}", kind, messages)), "escaped".into())
                            } else {
                                (None, format!("err {}", kind))
                            }
                        }
                    },
                    None => (Some("no result".to_string()), "none".into()),
                },
                other => (Some(format!("run ended in {}", other.describe())), other.describe()),
            };
            (obs, problem, class)
        };
        let (_, problem, class) = run(runner);
        *acc.outcomes.entry(class).or_insert(0) += 1;
        if i % 9973 == 0 {
            acc.samples.push(json!({"family": c.family, "cell": c.cell}));
        }
        if let Some(p) = problem {
            // confirm
            let (_, p2, _) = run(runner);
            // a case that is a problem in both runs is a violation, also when the two runs fail in different
            // ways (a stale pointer makes the message, or the kind of crash, depend on where things happen
            // to lie); a problem that does not repeat is unstable: no verdict from it
            let Some(p2) = p2 else {
                acc.unstable.push(format!("case `{}`: {:?} in the first run, nothing wrong in the second", c.cell, p));
                return acc;
            };
            let mask = |s: &str| -> String {
                let mut out = String::new();
                let mut in_digits = false;
                for ch in s.chars() {
                    if ch.is_ascii_digit() {
                        if !in_digits {
                            out.push('#');
                        }
                        in_digits = true;
                    } else {
                        in_digits = false;
                        out.push(ch);
                    }
                }
                out
            };
            let p = if mask(&p2) != mask(&p) { format!("{} (a second run: {})", p, p2) } else { p };
            match attribute(&c, &p, active_ref) {
                Some(f) => {
                    *acc.attributed.entry(f).or_insert(0) += 1;
                }
                None => acc.violations.push((format!("[{}: {}] {}", c.family, c.cell, p), json!({"family": c.family, "cell": c.cell, "request": {"op": "run", "snippets": [c.source], "modules": modules_ref, "stack_kb": stack_kb}, "runner": if stack_kb.is_some() { "release" } else { "checked" }, "problem": p}))),
            }
        }
        acc
    };
    let judge_ref = &judge;
    let mut accs = par_map(&ctx.runner_checked, ctx.workers, all.into_iter(), |runner, i, c| judge_ref(runner, i, c, None));
    // deep data on the optimised runner, on a thread with an ordinary 8 MiB stack
    let deep = deep_nesting_cases(ctx.thorough());
    let n = n + deep.len();
    accs.extend(par_map(&ctx.runner_opt, ctx.workers.min(8), deep.into_iter(), |runner, i, c| judge_ref(runner, i + 1, c, Some(8192))));
    let (n_boundary, boundary_violations, boundary_hist) = operand_stack_boundary(ctx, active_ref);
    let n = n + n_boundary;
    let mut acc = Acc::default();
    acc.evaluations += n_boundary;
    acc.violations.extend(boundary_violations);
    let (n_entry, entry_violations) = uncaught_overflow_at_frame_entry(ctx);
    let n = n + n_entry;
    let (n_cli, cli_violations) = command_line_host(ctx);
    let n = n + n_cli;
    acc.evaluations += n_cli;
    acc.violations.extend(cli_violations);
    *acc.by_family.entry("command_line_host".into()).or_insert(0) += n_cli;
    acc.evaluations += n_entry;
    acc.violations.extend(entry_violations);
    *acc.by_family.entry("uncaught_overflow_at_frame_entry".into()).or_insert(0) += n_entry;
    *acc.by_family.entry("operand_stack_boundary".into()).or_insert(0) += n_boundary;
    for (k, v) in boundary_hist {
        *acc.outcomes.entry(format!("boundary: {}", k)).or_insert(0) += v;
    }
    for a in accs {
        acc.evaluations += a.evaluations;
        acc.cells.extend(a.cells);
        for (k, v) in a.outcomes {
            *acc.outcomes.entry(k).or_insert(0) += v;
        }
        for (k, v) in a.by_family {
            *acc.by_family.entry(k).or_insert(0) += v;
        }
        acc.violations.extend(a.violations);
        acc.unstable.extend(a.unstable);
        for (k, v) in a.attributed {
            *acc.attributed.entry(k).or_insert(0) += v;
        }
        if acc.samples.len() < 5 {
            acc.samples.extend(a.samples);
        }
    }
    if !acc.unstable.is_empty() {
        for u in acc.unstable.iter().take(3) {
            eprintln!("UNSTABLE: {}", u);
        }
        if acc.violations.is_empty() {
            crate::pool::machinery_failure(&format!("C02: {} cases behaved differently when re-run and nothing else failed: {}", acc.unstable.len(), acc.unstable[0]));
        }
    }
    report.cov("evaluations", json!(acc.evaluations));
    report.cov("states", json!(acc.cells.len()));
    report.cov("transitions", json!(acc.evaluations));
    report.cov("traces_validated_against_impl", json!(acc.evaluations));
    report.cov("distinct_nontrivial", json!(acc.cells.len()));
    report.cov("exhaustive", json!(true));
    report.cov("rule", json!("native sweep: every built-in method of every value class (and the class-side methods of String, Fiber, Error, StopIter) on a receiver of the right class and on an instance of a class derived from it, with every argument tuple of the native's arity over a 46-value adversarial pool (43 values plus the receiver itself, a tuple and a vec holding it) (quick tier: a third of the two-argument tuples on derived receivers), plus one argument fewer and one more; every native reached through super from an instance method and from a static method of a class derived from the built-in class; every native method taken as a value first (from a proper receiver and from an instance of a derived class; through a variable, a field of another object, `super.m` as a value) and called afterwards; operator sweep: 20 unary constructs x every pool value, 6 binary constructs x every ordered pair, slices over 8x8 bounds; resource grid: recursion depth {1..70} x frame width {1..250} and wide argument lists, the operand stack swept across its limit one slot at a time (3 052 programs: recursion depth 30/31/32 with 2 x 254 pending literal elements per level and 0..762 more at the bottom, also inside a fiber; each must complete or report a catchable `Stack overflow.`, monotonically; and the same overflow left uncaught where a frame is entered straight after a push - plain call, import, for over a user-defined iterable, constructor, method, library callback, fiber, interpolation - with the number of pending values bisected to the interpreter's own limit and every count within 20 of it run: the report is made without a panic), nesting ladders to depth 10^4 for nine data shapes on the checked runner and to 2x10^5 / 10^6 on the optimised runner on a thread with an ordinary 8 MiB stack (tracing, printing, comparing, hashing and dropping data that deep), every uncaught-error program of C17's generator (the error report must not panic), every program of the C08, C06 and C18 generators and every fifth one of the C07 and C05 generators at their quick bounds (about 52k programs; all of them in the thorough tier: whatever a program means, running it does not panic), the loop-exit shapes of C08 (a loop around two try-like constructs, a loop around a try-like construct holding an inner loop followed by a second one, every leaf that leaves or crosses them) at script level inside a loop that repeats them forty times (a slot popped too many or too few per exit runs off the operand stack), 23 self-reference / mutation-during-iteration / fiber misuse programs. oracle: the run ends Ok or with a reported error; never a panic, crash or hang; a failing built-in call wrapped in try/catch reaches the handler with an instance of an error class. distinct = distinct (construct, argument-kind tuple) cells."));
    report.cov("bounds", json!({"pool_values": pool().len(), "cases": n}));
    report.cov("by_family", json!(acc.by_family));
    report.cov("outcome_histogram", json!(acc.outcomes));
    report.cov("attributed_to_listed_findings", json!(acc.attributed));
    report.cov("samples", json!(acc.samples));
    report.assumptions = vec![
        "the checked configuration is the subject: an access that would be out of bounds in the optimised build panics here, which is the property's own observation point".into(),
        "a watchdog of 40 s and a fuel of 30M instructions bound every run; exhausting the fuel is reported by the hook as an error, not a hang".into(),
    ];
    record_known(&mut report, &active, &acc.attributed);
    report.violations.extend(acc.violations);
    report
}
